"""C12 - instantiating an entity is equivalent to inlining it.

Tie (all through the real compiler of /repo's working tree):

* a generator of instantiation trees (depth <= 3, fan-out <= 3, repeated templates, slice / index / typed-view
  actuals on inputs and outputs, instances created in the architecture body, inside a concurrent context and
  inside `with cohdl.always` of a sequential context) over generated leaf entities (combinational and clocked);
* every design is rendered TWICE: hierarchical (one cohdl.Entity class per template) and hand-inlined (the
  generator substitutes the actuals for the formals and renders all logic in ONE entity); both are compiled by
  the real compiler, both emitted texts are executed by harness.vhdl_sim on the same generated input
  sequences and compared clock by clock (before and after every rising edge).  A difference is a failure of
  the PROPERTY (replay = both sources + inputs, inputs shrunk);
* both are compared with the Lean model (`simFlat (flatten d)`, proved equal to `simHier (emitHier d)` for all
  hierarchies and inputs in Props/C12.lean);
* the structure of the emitted library is compared with the Lean mirror `emitHier d`: entity interfaces (names,
  directions, types, order), every template emitted exactly once, sub-entities before their users, every formal
  associated with exactly its actual (conversions in the association are part of a correct association and
  are checked for type-correctness), defaults of instance-driven signals;
* declared entity names may collide (several DISTINCT templates from one factory / parametrised class, names differing in
  case, renamed forms, labels, the parent's name, reserved words): the emitted library must declare pairwise distinct
  names (case-insensitively), entities are identified by resolving the instance statements from the top unit, every
  template must own exactly one unit with its declared ports, and the unit of every renamed / name-sharing template is
  simulated on its own against Lean simFlat of that template;
* array signals in the parent (elements, slices / bits / typed views of elements as actuals) and templates built by
  INHERITANCE (`class D(B)` adding / re-declaring ports, overriding or inheriting the architecture; base, derived and
  siblings instantiated in one parent in any order, directly or through std.OpenEntity / std.ConnectedEntity): the
  expected interface of every template is computed from its own description.
"""

import re

from .common import Ctx, compile_many, fork_map
from . import lean_io
from .vhdl_parse import parse
from .vhdl_sim import Design, VhdlTypeError, VhdlRuntimeError

PYTY = {"bit": "Bit", "slv": "BitVector[{w}]", "uns": "Unsigned[{w}]", "sgn": "Signed[{w}]"}
VIEW = {"slv": "bitvector", "uns": "unsigned", "sgn": "signed"}
VHDL_KIND = {"std_logic": "bit", "std_logic_vector": "slv", "unsigned": "uns", "signed": "sgn"}
CONV = {"std_logic_vector": "slv", "unsigned": "uns", "signed": "sgn"}

# instances are registered in this order: architecture body first, then those created while the contexts are traced
PLACE_RANK = {"arch": 0, "conc": 1, "always": 2}

HEADER = "import cohdl\nfrom cohdl import std, Bit, BitVector, Unsigned, Signed, Port, Signal, Array\n\n"


def pyty(kind, w):
    return PYTY[kind].format(w=w)


# ---------------------------------------------------------------------------------------------------
# abstract designs
#   template = {"name", "ports": [(name, dir, kind, w)], "locals": [(name, kind, w, dflt|None)],
#               "logic": [("comb"|"reg", ref, expr)], "insts": [{"t": name, "acts": [(formal, ref, plain)], "place"}]}
#   ref = (signal, lo, w);  expr = ("r", signal, lo, w) | ("c", w, n) | ("not", w, e) | (op, w, a, b)
# ---------------------------------------------------------------------------------------------------


class Gen:
    def __init__(self, rng, depth, fanout, views, max_w=6):
        self.rng, self.depth, self.fanout, self.views, self.max_w = rng, depth, fanout, views, max_w
        self.templates = {}
        self.levels = {}
        self.n = 0

    def rand_type(self, allow_bit=True):
        r = self.rng
        if allow_bit and r.random() < 0.2:
            return ("bit", 1)
        return (r.choice(["slv", "uns", "uns", "sgn"]), r.randint(2, self.max_w))

    def design(self):
        top = self.template(self.depth, top=True)
        return {"templates": self.templates, "top": top}

    # ---- expressions over the readable ranges of a template under construction
    def expr(self, w, readable, depth, need_ref=True):
        """need_ref: the expression must not be a compile-time constant (cohdl rejects a constant assigned through
        a typed view of the target, in both renderings alike - not this property's concern)"""
        r = self.rng
        if depth > 0 and r.random() < 0.7:
            ops = ["and", "or", "xor", "not"] + ([] if w == 1 else ["add", "sub", "add"])
            op = r.choice(ops)
            if op == "not":
                return ("not", w, self.expr(w, readable, depth - 1, need_ref))
            a = self.expr(w, readable, depth - 1, need_ref)
            b = self.expr(w, readable, depth - 1, False)
            return (op, w, a, b) if r.random() < 0.5 or op == "sub" else (op, w, b, a)
        cands = [x for x in readable if x[2] >= w]
        if cands and (need_ref or r.random() < 0.85):
            n, lo, rw = r.choice(cands)
            off = r.randint(0, rw - w)
            return ("r", n, lo + off, w)
        return ("c", w, r.randrange(1 << w))

    def derive(self, bid, level):
        """a template built by INHERITANCE from template `bid` (`class D(B)`): adds ports, re-declares inherited ports
        (another type, another default), overrides the architecture - or keeps the inherited architecture and only
        re-declares the default of a registered output.  The interface of the derived template is computed here from
        its own description: the base's ports in their order (a re-declared port keeps its position) followed by the
        added ports in declaration order."""
        import copy
        r = self.rng
        B = self.templates[bid]
        variant = r.choice(["add", "add", "redeclare", "both", "default"])
        if variant == "default" and B.get("fused"):
            D = copy.deepcopy(B)
            D["name"] = f"E{self.n}"
            self.n += 1
            D.pop("cname", None)
            q = r.choice(sorted(D["fused"]))
            D["locals"] = [(n, k, w, (d + 1 + r.randrange((1 << w) - 1)) % (1 << w) if n == q else d) for (n, k, w, d) in D["locals"]]
            D.update({"base": bid, "own_ports": [D["fused"][q]], "inherit_arch": True})
            self.templates[D["name"]] = D
            self.levels.setdefault(level, []).append(D["name"])
            return D["name"]
        ports, own = list(B["ports"]), []
        if variant in ("redeclare", "both"):
            idx = r.choice([i for i, p in enumerate(ports) if p[0] not in ("clk", "a0")])
            n, d, k, w = ports[idx]
            nk, nw = self.rand_type()
            while (nk, nw) == (k, w):
                nk, nw = self.rand_type()
            ports[idx] = (n, d, nk, nw)
            own.append(n)
        if variant != "redeclare" or r.random() < 0.3:
            for _ in range(r.randint(1, 2)):
                d = r.choice(["in", "out", "out"])
                n = f"{'b' if d == 'in' else 'z'}{len(ports)}"
                ports.append((n, d) + self.rand_type())
                own.append(n)
        r.shuffle(own)
        added = [n for n in own if n not in {p[0] for p in B["ports"]}]
        ports = [p for p in ports if p[0] not in added] + [next(p for p in ports if p[0] == n) for n in added]
        # a port the base declares with a default (registered output) is always re-declared: the derived entity has its own logic
        own += [pn for pn in B.get("fused", {}).values() if pn not in own]
        return self.template(level, preset={"ports": ports, "base": bid, "own_ports": own})

    def template(self, level, top=False, preset=None):
        r = self.rng
        name = "Top" if top else f"E{self.n}"
        self.n += 1
        ports = [("clk", "in", "bit", 1)]
        for i in range(r.randint(2, 4) if top else r.randint(1, 3)):
            # the first input is as wide as any signal, so that every expression can depend on an input
            ports.append((f"a{i}", "in") + (self.rand_type() if i else (r.choice(["slv", "uns", "sgn"]), self.max_w)))
        for i in range(r.randint(2, 3) if top else r.randint(1, 2)):
            ports.append((f"y{i}", "out") + self.rand_type())
        t = {"name": name, "ports": ports, "locals": [], "logic": [], "insts": [], "arrays": {}}
        if preset is not None:
            ports = t["ports"] = list(preset["ports"])
            t.update({"base": preset["base"], "own_ports": list(preset["own_ports"])})
        sig = {p[0]: (p[2], p[3]) for p in ports}
        readable = [(p[0], 0, p[3]) for p in ports if p[1] == "in" and p[0] != "clk"]
        undriven = [p for p in ports if p[1] == "out"]
        cnt = [0]

        def new_local(kind, w, dflt, pre):
            nm = f"{pre}{cnt[0]}"
            cnt[0] += 1
            t["locals"].append((nm, kind, w, dflt))
            sig[nm] = (kind, w)
            return nm

        def drive_comb(nm, w, base=0):
            if w >= 4 and r.random() < 0.35:
                cut = r.randint(2, w - 2)
                t["logic"].append(("comb", (nm, base, cut), self.expr(cut, readable, 2)))
                t["logic"].append(("comb", (nm, base + cut, w - cut), self.expr(w - cut, readable, 2)))
            else:
                t["logic"].append(("comb", (nm, base, w), self.expr(w, readable, 2)))

        def new_array(kind, w, count, pre):
            """`Signal[Array[T, count]]`: flat storage, element i = bits [i*w, (i+1)*w)"""
            nm = new_local(kind, w, None, pre)
            t["arrays"][nm] = count
            return nm

        regs = []
        n_reg = r.randint(0, 2) if level > 0 else r.choice([0, 1, 1, 2])
        for _ in range(n_reg):
            kind, w = self.rand_type()
            nm = new_local(kind, w, r.randrange(1 << w), "r")
            readable.append((nm, 0, w))
            regs.append((nm, w))
        actions = []
        if level > 0:
            actions += ["inst"] * r.randint(1, self.fanout)
        actions += ["comb"] * r.randint(0, 2)
        r.shuffle(actions)
        if level > 0 and r.random() < 0.5:
            actions.insert(0, "comb")
        forced = []
        if level > 0 and r.random() < 0.35:
            # an inheritance family (base, derived, siblings / a chain), all instantiated in this parent, in any order
            pool = self.levels.get(level - 1, [])
            fam = [r.choice(pool) if pool and r.random() < 0.4 else self.template(level - 1)]
            for _ in range(r.randint(1, 2)):
                fam.append(self.derive(r.choice(fam), level - 1))
            r.shuffle(fam)
            forced = fam
            for _ in range(len(forced) - actions.count("inst")):
                actions.insert(r.randint(0, len(actions)), "inst")
        for act in actions:
            if act == "comb" and r.random() < 0.4:
                # an array signal, every element driven by concurrent logic; its elements (slices, bits, typed views
                # of them) are actuals of later instances
                kind, w = self.rand_type(allow_bit=False)
                count = r.randint(2, 4)
                nm = new_array(kind, w, count, "m")
                t["arrays"][nm] = count
                for e in range(count):
                    drive_comb(nm, w, e * w)
                readable += [(nm, e * w, w) for e in range(count)]
                continue
            if act == "comb":
                kind, w = self.rand_type()
                nm = new_local(kind, w, r.choice([None, r.randrange(1 << w)]), "c")
                drive_comb(nm, w)
                readable.append((nm, 0, w))
                continue
            sublevel = level - 1 if r.random() < 0.8 else r.randint(0, level - 1)
            pool = self.levels.get(sublevel, [])
            if forced:
                sub = forced.pop()
            elif pool and r.random() < 0.5:
                sub = r.choice(pool)
            else:
                sub = self.template(sublevel)
            st = self.templates[sub]
            acts = []
            new_readable = []
            for (f, d, fk, fw) in st["ports"]:
                if f == "clk":
                    acts.append((f, ("clk", 0, 1), True))
                elif d == "in":
                    acts.append((f,) + self.input_actual(fk, fw, readable, sig, new_local, drive_comb, t["arrays"]))
                else:
                    ref, plain = self.output_actual(fk, fw, undriven, sig, new_local, new_array)
                    acts.append((f, ref, plain))
                    new_readable.append(ref)
            r.shuffle(acts)  # keyword arguments are given in an order unrelated to the declaration order
            t["insts"].append({"t": sub, "acts": acts, "place": r.choice(["arch", "arch", "conc", "always"]),
                               "via": r.choice(["", "", "std.OpenEntity", "std.ConnectedEntity"])})
            readable += new_readable
        for p in undriven:
            if r.random() < 0.3:
                # registered output: a register with a default copied to the port.  The hierarchical rendering writes
                # the port itself in the sequential context (`Port.output(T, default=..)` + buffer signal), the
                # inlined rendering keeps the register as a local signal
                q = new_local(p[2], p[3], r.randrange(1 << p[3]), "q")
                t["logic"].append(("comb", (p[0], 0, p[3]), ("r", q, 0, p[3])))
                regs.append((q, p[3]))
                t.setdefault("fused", {})[q] = p[0]
                readable.append((p[0], 0, p[3]))
            else:
                drive_comb(p[0], p[3])
        for nm, w in regs:
            t["logic"].append(("reg", (nm, 0, w), self.expr(w, readable, 2)))
        if "base" in t:
            t["own_ports"] += [pn for pn in t.get("fused", {}).values() if pn not in t["own_ports"]]
        self.templates[name] = t
        self.levels.setdefault(level, []).append(name)
        return name

    def input_actual(self, fk, fw, readable, sig, new_local, drive_comb, arrs):
        r = self.rng

        def ok(x):
            n, lo, w = x
            k, rw = sig[n]
            if w < fw:
                return False
            if fk == "bit":
                return True
            if k == "bit":
                return False
            return self.views or k == fk  # without the port-map conversions only same-kind roots are well-typed VHDL

        cands = [x for x in readable if ok(x)]
        if not cands or r.random() < 0.1:
            nm = new_local(fk, fw, None, "c")
            drive_comb(nm, fw)
            readable.append((nm, 0, fw))
            return ((nm, 0, fw), True)
        exact = [x for x in cands if x[2] == fw and sig[x[0]] == (fk, fw) and x[0] not in arrs]
        if exact and r.random() < 0.4:
            n, lo, w = r.choice(exact)
            return ((n, 0, fw), True)
        acands = [x for x in cands if x[0] in arrs]
        n, lo, w = r.choice(acands if acands and r.random() < 0.5 else cands)
        off = r.randint(0, w - fw) if not (n in arrs and w == fw) else 0
        ref = (n, lo + off, fw)
        return (ref, sig[n] == (fk, fw) and n not in arrs)

    def output_actual(self, fk, fw, undriven, sig, new_local, new_array):
        r = self.rng
        ports = [p for p in undriven if p[3] == fw and (p[2] == fk or (self.views and p[2] != "bit" and fk != "bit"))]
        c = r.random()
        if ports and c < 0.4:
            p = r.choice(ports)
            undriven.remove(p)
            return ((p[0], 0, fw), p[2] == fk)
        dflt = lambda w: r.choice([None, r.randrange(1 << w)])
        if fk != "bit" and r.random() < 0.2:
            # an element of a fresh array signal (whole element, possibly through a typed view, or a slice of it)
            k = r.choice(["slv", "uns", "sgn"]) if self.views else fk
            w = fw + r.choice([0, 0, 0, 1, 2])
            count = r.randint(2, 4)
            nm = new_array(k, w, count, "m")
            return ((nm, r.randrange(count) * w + r.randint(0, w - fw), fw), False)
        if fk == "bit" and r.random() < 0.15:
            k, w = self.rand_type(allow_bit=False)
            count = r.randint(2, 4)
            nm = new_array(k, w, count, "m")
            return ((nm, r.randrange(count * w), 1), False)
        if c < 0.7:
            nm = new_local(fk, fw, dflt(fw), "s")
            return ((nm, 0, fw), True)
        if fk == "bit":
            k, w = self.rand_type(allow_bit=False)
            nm = new_local(k, w, dflt(w), "s")
            return ((nm, r.randrange(w), 1), False)
        k = r.choice(["slv", "uns", "sgn"]) if self.views else fk
        w = fw + r.choice([0, 0, 1, 2, 3]) if k != fk else fw + r.randint(1, 3)
        nm = new_local(k, w, dflt(w), "s")
        return ((nm, r.randint(0, w - fw), fw), False)


# ---------------------------------------------------------------------------------------------------
# rendering as cohdl source
# ---------------------------------------------------------------------------------------------------


class SigTable(dict):
    arrays = {}


def sig_table(t):
    s = SigTable({p[0]: (p[2], p[3], "port") for p in t["ports"]})
    for (n, k, w, d) in t["locals"]:
        s[n] = (k, w, "local")
    s.arrays = t.get("arrays", {})
    return s


def pybase(n, lo, sigs):
    """python expression of the object that is sliced + the offset inside it (array signals: the element)"""
    base = pyname(n, sigs)
    if getattr(sigs, "arrays", {}).get(n):
        w = sigs[n][1]
        return f"{base}[{lo // w}]", lo % w
    return base, lo


def pyname(n, sigs):
    return f"self.{n}" if sigs[n][2] == "port" else n


def render_read(ref, sigs):
    n, lo, w = ref
    k, rw, _ = sigs[n]
    base, lo = pybase(n, lo, sigs)
    if k == "bit":
        return base
    if w == 1:
        return f"{base}[{lo}]"
    if lo == 0 and w == rw:
        return base if k == "uns" else f"{base}.unsigned"
    return f"{base}[{lo + w - 1}:{lo}].unsigned"


PYOP = {"and": "&", "or": "|", "xor": "^", "add": "+", "sub": "-"}


def render_expr(e, sigs):
    if e[0] == "r":
        return render_read(e[1:], sigs)
    if e[0] == "c":
        return f"Bit({e[2]})" if e[1] == 1 else f"Unsigned[{e[1]}]({e[2]})"
    if e[0] == "not":
        return f"(~{render_expr(e[2], sigs)})"
    return f"({render_expr(e[2], sigs)} {PYOP[e[0]]} {render_expr(e[3], sigs)})"


def render_actual(f, ref, fk, sigs):
    n, lo, w = ref
    k, rw, _ = sigs[n]
    base, lo = pybase(n, lo, sigs)
    if k == "bit":
        return base
    if fk == "bit":
        return f"{base}[{lo}]"
    if lo == 0 and w == rw:
        return base if k == fk else f"{base}.{VIEW[fk]}"
    s = f"{base}[{lo + w - 1}:{lo}]"
    if (lo + w + len(f)) % 3 == 0 and (lo > 0 or lo + w < rw):
        # the same bits as a slice of a slice (the offsets of the enclosing slice must be added)
        olo, ohi = max(0, lo - 1), min(rw - 1, lo + w)
        s = f"{base}[{ohi}:{olo}][{lo + w - 1 - olo}:{lo - olo}]"
    return s if fk == "slv" else f"{s}.{VIEW[fk]}"


def dflt_literal(kind, w, d):
    if kind == "bit":
        return "True" if d else "False"
    if kind == "slv":
        return '"' + format(d, f"0{w}b") + '"'
    if kind == "sgn" and d >= (1 << (w - 1)):
        return str(d - (1 << w))
    return str(d)


def render_assign(ref, e, sigs):
    n, lo, w = ref
    k, rw, cls = sigs[n]
    base, lo = pybase(n, lo, sigs)
    rhs = render_expr(e, sigs)
    if k == "bit" or (lo == 0 and w == rw and k == "uns"):
        # a bare closure variable cannot be the target of an augmented assignment inside a traced function
        return f"{base}.next = {rhs}" if cls == "local" and base == n else f"{base} <<= {rhs}"
    if w == 1:
        return f"{base}[{lo}] <<= {rhs}"
    if lo == 0 and w == rw:
        return f"{base}.unsigned <<= {rhs}"
    return f"{base}[{lo + w - 1}:{lo}].unsigned <<= {rhs}"


PY_TAKEN = {"cohdl", "std", "Bit", "BitVector", "Unsigned", "Signed", "Port", "Signal", "Array", "self", "logic", "proc"}


def factory_ok(cname):
    import keyword
    return cname.isidentifier() and not keyword.iskeyword(cname) and cname not in PY_TAKEN and not re.fullmatch(r"(E\d+|Top|make_\w+|[a-z]\d+|i\d+_\w+)", cname)


def render_template(t, templates):
    sigs = sig_table(t)
    fused = t.get("fused", {})
    fdef = {fused[n]: d for (n, k, w, d) in t["locals"] if n in fused}
    cname, style = t.get("cname", t["name"]), t.get("style", "plain")
    parent = t.get("base", "cohdl.Entity")  # `class D(B)`: the ports of B are inherited
    if cname == t["name"]:
        L = [f"class {t['name']}({parent}):"]
    elif style == "factory" and factory_ok(cname):
        # the usual way to write a parametrised entity: every call of the factory returns a NEW class of that name
        L = [f"class {cname}({parent}):"]
    else:
        L = [f"class {t['name']}({parent}, name={cname!r}):"]
    decl = t["ports"] if "base" not in t else [next(p for p in t["ports"] if p[0] == n) for n in t["own_ports"]]
    for (n, d, k, w) in decl:
        if n in fdef:
            L.append(f"    {n} = Port.output({pyty(k, w)}, default={dflt_literal(k, w, fdef[n])})")
            continue
        L.append(f"    {n} = Port.{'input' if d == 'in' else 'output'}({pyty(k, w)})")
    if t.get("inherit_arch"):
        return finish_class(L, cname, t)
    L.append("")
    L.append("    def architecture(self):")
    for (n, k, w, d) in t["locals"]:
        if n in fused:
            continue
        if t.get("arrays", {}).get(n):
            L.append(f'        {n} = Signal[Array[{pyty(k, w)}, {t["arrays"][n]}]](name="{n}")')
        elif d is None:
            L.append(f'        {n} = Signal[{pyty(k, w)}](name="{n}")')
        else:
            L.append(f'        {n} = Signal[{pyty(k, w)}]({dflt_literal(k, w, d)}, name="{n}")')

    def inst_line(i):
        st = templates[i["t"]]
        fk = {p[0]: p[2] for p in st["ports"]}
        return f"{i['t'] if not i.get('via') else i['via'] + '[' + i['t'] + ']'}(" + ", ".join(f"{f}={render_actual(f, ref, fk[f], sigs)}" for (f, ref, _pl) in i["acts"]) + ")"

    for i in t["insts"]:
        if i["place"] == "arch":
            L.append("        " + inst_line(i))
    L.append("")
    L.append("        @std.concurrent")
    L.append("        def logic():")
    body = []
    for (kind, ref, e) in t["logic"]:
        if kind != "comb" or (e[0] == "r" and e[1] in fused):
            continue
        body.append(render_assign(ref, e, sigs))
    for i in t["insts"]:
        if i["place"] == "conc":
            body.append(inst_line(i))
    L += ["            " + b for b in (body or ["pass"])]
    regs = [x for x in t["logic"] if x[0] == "reg"]
    always = [i for i in t["insts"] if i["place"] == "always"]
    if regs or always:
        L.append("")
        L.append("        @std.sequential(std.Clock(self.clk))")
        L.append("        def proc():")
        for (kind, ref, e) in regs:
            if ref[0] in fused:
                ref = (fused[ref[0]],) + ref[1:]
            L.append("            " + render_assign(ref, e, sigs))
        if always:
            L.append("            with cohdl.always:")
            for i in always:
                L.append("                " + inst_line(i))
    return finish_class(L, cname, t)


def finish_class(L, cname, t):
    if L[0].startswith(f"class {cname}(") and cname != t["name"]:
        L = [f"def make_{t['name']}():"] + ["    " + l if l else l for l in L] + [f"    return {cname}", "", "", f"{t['name']} = make_{t['name']}()"]
    return "\n".join(L) + "\n"


def topo_names(design):
    """python classes must be defined before they are used"""
    out, seen = [], set()

    def visit(n):
        if n in seen:
            return
        seen.add(n)
        for i in design["templates"][n]["insts"]:
            visit(i["t"])
        out.append(n)

    visit(design["top"])
    return out


def class_order(design):
    """python classes must be defined before they are used or derived from (a base class need not be instantiated)"""
    out, seen = [], set()

    def visit(n):
        if n in seen:
            return
        seen.add(n)
        t = design["templates"][n]
        if "base" in t:
            visit(t["base"])
        for i in t["insts"]:
            visit(i["t"])
        out.append(n)

    visit(design["top"])
    return out


def render_hier(design):
    return HEADER + "\n\n".join(render_template(design["templates"][n], design["templates"]) for n in class_order(design))


# ---- hand inlining (python side, independent of the Lean `flatten`)


def bind_ref(b, ref):
    n, lo, w = ref
    if n in b:
        g, glo = b[n]
        return (g, glo + lo, w)
    return ref


def subst_expr(b, e):
    if e[0] == "r":
        return ("r",) + bind_ref(b, e[1:])
    if e[0] == "c":
        return e
    if e[0] == "not":
        return ("not", e[1], subst_expr(b, e[2]))
    return (e[0], e[1], subst_expr(b, e[2]), subst_expr(b, e[3]))


def inline_design(design):
    T = design["templates"]
    top = T[design["top"]]
    flat = {"name": "Top", "ports": list(top["ports"]), "locals": [], "logic": [], "insts": [], "arrays": {}}

    def go(t, pfx, sigma):
        b = dict(sigma)
        driven = set()
        for i in t["insts"]:
            outs = {p[0] for p in T[i["t"]]["ports"] if p[1] == "out"}
            for (f, ref, plain) in i["acts"]:
                if plain and f in outs:
                    driven.add(ref[0])
        for (n, k, w, d) in t["locals"]:
            b[n] = (pfx + n, 0)
            flat["locals"].append((pfx + n, k, w, None if n in driven else d))
            if t.get("arrays", {}).get(n):
                flat["arrays"][pfx + n] = t["arrays"][n]
        for (kind, ref, e) in t["logic"]:
            flat["logic"].append((kind, bind_ref(b, ref), subst_expr(b, e)))
        for k, i in enumerate(t["insts"]):
            go(T[i["t"]], f"{pfx}i{k}_", {f: bind_ref(b, ref)[:2] for (f, ref, _pl) in i["acts"]})

    go(top, "", {p[0]: (p[0], 0) for p in top["ports"]})
    return flat


def render_inline(design):
    flat = inline_design(design)
    return HEADER + render_template(flat, {})


# ---- s-expression for the Lean driver


def sx_ref(ref):
    return f"(r {ref[0]} {ref[1]} {ref[2]})"


def sx_expr(e):
    if e[0] == "r":
        return sx_ref(e[1:])
    if e[0] == "c":
        return f"(c {e[1]} {e[2]})"
    if e[0] == "not":
        return f"(not {e[1]} {sx_expr(e[2])})"
    return f"({e[0]} {e[1]} {sx_expr(e[2])} {sx_expr(e[3])})"


def sx_template(design, name):
    t = design["templates"][name]
    ports = " ".join(f"(p {n} {d} {k} {w})" for (n, d, k, w) in t["ports"])
    locs = " ".join(f"(l {n} {k} {w} {'-' if d is None else d} {t.get('arrays', {}).get(n) or 1})" for (n, k, w, d) in t["locals"])
    logic = " ".join(f"({kind} {sx_ref(ref)} {sx_expr(e)})" for (kind, ref, e) in t["logic"])
    insts = " ".join(
        f"(i {sx_template(design, i['t'])} " + " ".join(f"(a {f} {sx_ref(ref)} {1 if pl else 0})" for (f, ref, pl) in i["acts"]) + ")"
        for i in sorted(t["insts"], key=lambda i: PLACE_RANK[i["place"]]))
    return f"(t {name} (ports {ports}) (locals {locs}) (logic {logic}) (insts {insts}))"


# ---------------------------------------------------------------------------------------------------
# executing emitted VHDL
# ---------------------------------------------------------------------------------------------------



def raw(d, name):
    v = d.get_raw(name)
    return getattr(v, "bits", None) or getattr(v, "v", None) or str(v)


def sim_vhdl(text, in_ports, out_ports, inputs, top=None):
    """inputs: list of {port: nat}; returns per clock 'pre|post' with the raw bit strings of the outputs"""
    d = Design(text, top=top)  # top=None: the last entity of the text
    d.set("clk", 0)
    for (n, k, w) in in_ports:
        d.set(n, 0 if k == "bit" else format(0, f"0{w}b"))
    d.initialise()
    rows = []
    for ins in inputs:
        for (n, k, w) in in_ports:
            v = ins.get(n, 0)
            d.set(n, v if k == "bit" else format(v, f"0{w}b"))
        d.settle()
        pre = ",".join(raw(d, n) for (n, k, w) in out_ports)
        d.clock("clk")
        post = ",".join(raw(d, n) for (n, k, w) in out_ports)
        rows.append(pre + "|" + post)
    return rows


def _sim_task(task):
    text, in_ports, out_ports, inputs = task[:4]
    try:
        return {"rows": sim_vhdl(text, in_ports, out_ports, inputs, *task[4:])}
    except VhdlTypeError as e:
        return {"err": "type", "msg": str(e)[:300]}
    except VhdlRuntimeError as e:
        return {"err": "runtime", "msg": str(e)[:300]}
    except Exception as e:  # noqa - emitted text that cannot be parsed / elaborated
        return {"err": "other", "msg": f"{type(e).__name__}: {e}"[:300]}


def rows_as_nat(rows):
    """'0101,1|..' -> '5,1|..' (None when a metavalue is present)"""
    out = []
    for r in rows:
        if any(c not in "01,|" for c in r):
            return None
        out.append("|".join(",".join(str(int(x, 2)) for x in half.split(",")) for half in r.split("|")))
    return out


# ---------------------------------------------------------------------------------------------------
# structure of the emitted library
# ---------------------------------------------------------------------------------------------------


def canon_type(ty):
    if ty[0] == "plain":
        return (VHDL_KIND.get(ty[1].lower(), ty[1].lower()), 1)
    _, n, l, d, r = ty
    if d != "downto" or r != ("int", 0) or l[0] != "int":
        return (n.lower(), -1)
    return (VHDL_KIND.get(n.lower(), n.lower()), l[1] + 1)


def library_structure(text):
    """[(entity name, [(port, dir, kind, w)], {signal: (kind, w, has_default)}, [(label, entity, {formal: (root, lo, w, actual_conv, formal_conv, root_kind)})])]
    in the order of the emitted text"""
    units = parse(text)
    order = []
    for u in units:
        if u["unit"] == "entity":
            order.append({"name": u["name"], "ports": [(p["name"], p["dir"]) + canon_type(p["type"]) for p in u["ports"]], "arch": None})
        else:
            # the architecture belongs to the closest preceding entity unit of that name (a library with two
            # units of one name is reported by the caller; the units are kept apart here)
            for e in reversed(order):
                if e["name"].lower() == u["entity"].lower() and e["arch"] is None:
                    e["arch"] = u
                    break
    res = []
    for e in order:
        name = e["name"]
        a = e["arch"] or {"decls": [], "stmts": []}
        sigs = {p[0]: (p[2], p[3], False) for p in e["ports"]}
        outs = {p[0] for p in e["ports"] if p[1] == "out"}
        atypes, arrs = {}, {}
        for d in a["decls"]:
            if d["decl"] == "arraytype" and d["l"] == ("int", 0) and d["r"][0] == "int":
                atypes[d["name"].lower()] = (canon_type(d["elem"]), d["r"][1] + 1)
            if d["decl"] == "signal":
                if d["type"][0] == "plain" and d["type"][1].lower() in atypes:
                    # array signal: flat addressing, element i = bits [i*w, (i+1)*w) (as in the Lean model)
                    (ek, ew), cnt = atypes[d["type"][1].lower()]
                    sigs[d["name"]] = (ek, ew, d["default"] is not None)
                    arrs[d["name"]] = cnt
                    continue
                sigs[d["name"]] = canon_type(d["type"]) + (d["default"] is not None,)
        # the internal signal that stands for an output port (the port itself cannot be read): recognised structurally - the
        # architecture copies exactly one declared internal signal of the port's type to the port, `p <= sig;` - never
        # by the spelling the compiler chooses for it
        declared = {d["name"] for d in a["decls"] if d["decl"] == "signal"}
        copies = {}
        for st in a["stmts"]:
            if st["stmt"] == "cassign" and st["target"][0] == "name" and st["target"][1] in outs \
                    and st["expr"][0] == "name" and st["expr"][1] in declared:
                copies.setdefault(st["target"][1], []).append(st["expr"][1])
        buffer_of = {v[0]: p for p, v in copies.items() if len(v) == 1 and sigs[v[0]][:2] == sigs[p][:2] and v[0] not in arrs}
        insts = []
        for s in a["stmts"]:
            if s["stmt"] != "instance":
                continue
            pm = {}
            dup = False
            for f, actual in s["ports"]:
                aconv = fconv = None
                if isinstance(f, tuple):  # ("conv", type mark, formal): conversion on the formal side (outputs)
                    fconv, f = CONV.get(f[1].lower(), f[1].lower()), f[2]
                x = actual
                if x[0] == "call" and x[1].lower() in CONV and len(x[2]) == 1:
                    aconv = CONV[x[1].lower()]
                    x = x[2][0]
                def elem(b):
                    """(root, offset of the selected object, its width) for a name or an element of an array signal"""
                    if b[0] == "name":
                        return b[1], 0, sigs.get(b[1], ("?", None, False))[1]
                    if b[0] == "call" and len(b[2]) == 1 and b[2][0][0] == "int" and b[1] in arrs:
                        ew = sigs[b[1]][1]
                        return b[1], b[2][0][1] * ew, ew
                    return None

                isbit = False
                if elem(x) is not None:
                    root, lo, w = elem(x)
                elif x[0] == "slice" and elem(x[1]) is not None and x[3] == "downto":
                    root, base, _w = elem(x[1])
                    lo, w = base + x[4][1], x[2][1] - x[4][1] + 1
                elif x[0] == "call" and len(x[2]) == 1 and x[2][0][0] == "int":
                    root, lo, w, isbit = x[1], x[2][0][1], 1, True
                elif x[0] == "index" and elem(x[1]) is not None and x[2][0] == "int":
                    root, base, _w = elem(x[1])
                    lo, w, isbit = base + x[2][1], 1, True
                else:
                    root, lo, w = str(x), 0, None
                rk, rw, _ = sigs.get(root, ("?", None, False))
                akind = "bit" if isbit else rk
                root = buffer_of.get(root, root)
                if f in pm:
                    dup = True
                pm[f] = (root, lo, w, aconv, fconv, akind)
            insts.append((s["label"], s["entity"], pm, dup))
        res.append((name, e["ports"], sigs, insts))
    return res


def elem_hint(t, root, lo):
    cnt = t.get("arrays", {}).get(root)
    if not cnt:
        return ""
    w = {l[0]: l[2] for l in t["locals"]}[root]
    return f" (element {lo // w} of the array signal {root}, bits from {lo % w})"


def check_structure(design, text, model_emit):
    """returns a list of (signature, message) property failures, soft observations and the binding
    template id -> emitted entity name.  Declared entity names may collide (factories, parametrised classes,
    names differing in case, reserved words ...): the compiler has to give the entities of one library pairwise
    distinct names, so entities are identified through the instance statements, starting at the top (last unit)."""
    T = design["templates"]
    fails, soft = [], {}
    lib = library_structure(text)
    names = [e[0] for e in lib]
    used = topo_names(design)
    # pairwise distinct entity names (VHDL identifiers are case-insensitive)
    low = [n.lower() for n in names]
    for n in sorted(set(low)):
        if low.count(n) > 1:
            fails.append(("entity-name-collision", f"the emitted library declares {low.count(n)} entities named `{n}` (library order {names}; declared names "
                          f"{[T[u].get('cname', u) for u in used]}): a name does not identify one template"))
    # model: emitHier (template ids as names)
    m_ents = []
    for chunk in model_emit.split(" ; "):
        mm = re.match(r"^(\w+)\[(.*?)\]\{(.*?)\}<(.*)>$", chunk)
        ports = [tuple(x.split(":")) for x in mm.group(2).split(",") if x]
        locs = dict(x.split(":") for x in mm.group(3).split(",") if x)
        insts = []
        for im in re.finditer(r"(\d+):(\w+)\((.*?)\)", mm.group(4)):
            pm = {}
            for a in im.group(3).split(","):
                f, r = a.split("=>")
                root, lo, w = r.split(":")
                pm[f] = (root, int(lo), int(w))
            insts.append((im.group(2), pm))
        m_ents.append((mm.group(1), [(p[0], p[1], p[2], int(p[3])) for p in ports], locs, insts))
    m_by = {e[0]: e for e in m_ents}
    by_name = {}
    for idx, e in enumerate(lib):
        by_name.setdefault(e[0].lower(), []).append(idx)
    bind, owner = {}, {}          # template id -> unit index ; unit index -> template id
    if not lib:
        return [("empty-library", "no entity is emitted")], soft, {}
    top_idx = len(lib) - 1
    bind[design["top"]] = top_idx
    owner[top_idx] = design["top"]
    todo = [design["top"]]
    while todo:
        tid = todo.pop()
        t = T[tid]
        (name, ports, sigs, insts) = lib[bind[tid]]
        shown = f"{name} (template {tid}, declared name {t.get('cname', tid)})"
        # interface
        decl = [(p[0], p[1], p[2], p[3]) for p in t["ports"]]
        if ports != decl:
            fails.append(("interface", f"entity {shown}: emitted ports {ports} differ from the declared ports {decl}"))
        if tid in m_by and m_by[tid][1] != decl:
            fails.append(("interface-model", f"{tid}: emitHier ports {m_by[tid][1]} differ from the declared ports {decl}"))
        # port maps: every instance statement = one instantiation of the template (identified by its associations)
        want = {tuple(sorted((f, ref) for (f, ref, _pl) in i["acts"])): i for i in t["insts"]}
        got = {}
        dups = False
        for (label, ent, pm, dup) in insts:
            key = tuple(sorted((f, (a[0], a[1], a[2])) for f, a in pm.items()))
            dups = dups or dup or key in got
            got[key] = (label, ent, pm)
        if set(want) != set(got) or dups or len(insts) != len(t["insts"]):
            w2 = [(want[k]["t"], k) for k in want if k not in got]
            g2 = [(got[k][1], k) for k in got if k not in want]
            fails.append(("portmap", f"architecture of {shown}: port maps {g2} where the design connects {w2}"))
        if tid in m_by:
            mw = sorted((ent, tuple(sorted(pm.items()))) for (ent, pm) in m_by[tid][3])
            dw = sorted((i["t"], k) for k, i in want.items())
            if mw != dw:
                fails.append(("portmap-model", f"{tid}: emitHier port maps {mw} differ from the design {dw}"))
        pairs = [(key, got[key]) for key in want if key in got]
        # an instance statement with extra / missing associations is still followed into its entity when it agrees with
        # exactly one instantiation on the associations they share (so that the entity's interface is reported too)
        left_g = [k for k in got if k not in want]
        for key in want:
            if key not in got:
                m = [g for g in left_g if len(set(g) & set(key)) >= 2 and dict(g).keys() & dict(key).keys()
                     and all(dict(g)[f] == a for f, a in key if f in dict(g))]
                if len(m) == 1:
                    pairs.append((key, got[m[0]]))
                    left_g.remove(m[0])
        for key, (label, ent, pm) in pairs:
            sub = want[key]["t"]
            cands = by_name.get(ent.lower(), [])
            if not cands:
                fails.append(("unknown-entity", f"{shown}.{label} instantiates `{ent}` which is not declared in the library {names}"))
                continue
            # a VHDL library holds one unit per name: with several, the instance cannot be bound to `its` template
            idx = cands[0] if len(cands) == 1 else next((c for c in cands if owner.get(c) == sub), cands[-1])
            if owner.get(idx, sub) != sub:
                fails.append(("entity-shared-by-templates",
                              f"{shown}.{label} was created from template {sub} (declared name {T[sub].get('cname', sub)}) but is bound to entity `{ent}`, "
                              f"which is the entity of template {owner[idx]} (declared name {T[owner[idx]].get('cname', owner[idx])})"))
                continue
            if sub in bind and bind[sub] != idx:
                fails.append(("template-emitted-twice", f"instances of template {sub} are bound to `{lib[bind[sub]][0]}` and to `{ent}`: the template is not shared by its instances"))
                continue
            if idx >= bind[tid]:
                fails.append(("order", f"entity `{ent}` is instantiated by `{name}` but emitted after it (library order {names})"))
            if sub not in bind:
                bind[sub] = idx
                owner[idx] = sub
                todo.append(sub)
            # type-correct associations
            fdecl = {p[0]: p for p in T[sub]["ports"]}
            for f, (root, lo, w, aconv, fconv, akind) in pm.items():
                if f not in fdecl:
                    continue
                _, fdir, fk, fw = fdecl[f]
                eff_actual = aconv or akind          # type seen by the formal
                eff_formal = fconv or fk             # type seen by the actual
                if fdir == "in":
                    bad = fconv is not None or eff_actual != fk or (aconv and "bit" in (akind, fk))
                else:
                    bad = aconv is not None or eff_formal != akind or (fconv and "bit" in (akind, fk))
                if bad or w != fw:
                    fails.append((f"portmap-illtyped:{fdir}:{fk}<={akind}",
                                  f"{shown}.{label}: formal {f} : {fdir} {fk}[{fw}] is associated with {root}[{lo}+:{w}]{elem_hint(t, root, lo)} of VHDL type {akind}"
                                  f" (conversions: actual {aconv}, formal {fconv}) - not a legal VHDL association"))
        # defaults of signals connected as whole objects to instance outputs
        if tid in m_by:
            for ln, md in m_by[tid][2].items():
                if ln in sigs and (md != "-") != sigs[ln][2]:
                    loc = {l[0]: l for l in t["locals"]}[ln]
                    soft.setdefault("default_mismatch", []).append(f"{name}.{ln}: emitted default={sigs[ln][2]} model={md} declared={loc[3]}")
    # each template exactly once: as many design units as templates, each owned by one template
    if len(lib) != len(used):
        fails.append((f"emitted-{len(lib)}-entities-for-{len(used)}-templates",
                      f"{len(lib)} entities {names} are emitted for the {len(used)} templates {[(u, T[u].get('cname', u)) for u in used]}"))
    for idx, e in enumerate(lib):
        if idx not in owner and not any(f[0] in ("portmap", "entity-shared-by-templates") for f in fails):
            fails.append(("unknown-entity", f"emitted entity `{e[0]}` is not reached from the top entity"))
    soft["library_order_equals_model"] = [owner.get(i) for i in range(len(lib))] == [e[0] for e in m_ents]
    return fails, soft, {tid: lib[idx][0] for tid, idx in bind.items()}


# ---------------------------------------------------------------------------------------------------
# the check
# ---------------------------------------------------------------------------------------------------


def gen_inputs(rng, in_ports, n):
    seq = []
    for _ in range(n):
        seq.append({p[0]: rng.randrange(1 << p[2]) for p in in_ports})
    return seq


def lean_inputs(inputs, in_ports):
    if not in_ports:
        return " ; ".join("-" for _ in inputs)
    return " ; ".join(",".join(f"{p[0]}={ins.get(p[0], 0)}" for p in in_ports) for ins in inputs)


def design_stats(design):
    T = design["templates"]

    def depth(n):
        return 1 + max([depth(i["t"]) for i in T[n]["insts"]] or [0])

    def count(n):
        return sum(1 + count(i["t"]) for i in T[n]["insts"])

    used = topo_names(design)
    acts = [(a, T[i["t"]], t) for n in used for t in [T[n]] for i in t["insts"] for a in i["acts"]]
    kinds = {"plain": 0, "slice": 0, "view": 0, "index": 0, "array-element": 0}
    for (f, ref, plain), st, t in acts:
        s = sig_table(t)[ref[0]]
        if t.get("arrays", {}).get(ref[0]):
            kinds["array-element"] += 1
        fk = {p[0]: p[2] for p in st["ports"]}[f]
        if plain:
            kinds["plain"] += 1
        elif fk == "bit":
            kinds["index"] += 1
        elif ref[1] == 0 and ref[2] == s[1]:
            kinds["view"] += 1
        else:
            kinds["slice"] += 1
            if s[0] != fk:
                kinds["view"] += 1
    places = {}
    for n in used:
        for i in T[n]["insts"]:
            places[i["place"]] = places.get(i["place"], 0) + 1
    inst_of = [i["t"] for n in used for i in T[n]["insts"]]
    return {"depth": depth(design["top"]) - 1, "instances": count(design["top"]), "templates": len(used),
            "repeated": len(inst_of) - len(set(inst_of)), "actuals": kinds, "places": places,
            "clocked": sum(1 for n in used if any(x[0] == "reg" for x in T[n]["logic"])),
            "derived": sum(1 for n in used if "base" in T[n]),
            "connector": sum(1 for n in used for i in T[n]["insts"] if i.get("via"))}


def first_diff(a, b):
    for i, (x, y) in enumerate(zip(a, b)):
        if x != y:
            return i
    return min(len(a), len(b)) if len(a) != len(b) else None


def shrink_inputs(inputs, fails):
    """truncate after the first differing clock, then zero values while the difference stays"""
    inputs = [dict(i) for i in inputs]
    for i in range(len(inputs)):
        for k in list(inputs[i]):
            if inputs[i][k] != 0:
                old = inputs[i][k]
                inputs[i][k] = 0
                if not fails(inputs):
                    inputs[i][k] = old
    while len(inputs) > 1 and fails(inputs[1:]):
        inputs = inputs[1:]
    return inputs


RESERVED_NAMES = ["buffer", "Signal", "Entity", "register", "Process", "Block", "Label", "Open", "Bus", "Unsigned", "std_logic", "rising_edge"]


def assign_names(rng, design, scheme):
    """declared entity names of the non-top templates.  `clash`: several DISTINCT templates share one class name
    (factory / parametrised classes), differ only in case, carry the renamed form of another (`Gate1`), the name
    of their parent / of the top entity, an instance label or a reserved word - at whatever depth and order the
    generated tree puts them"""
    T = design["templates"]
    ids = [n for n in topo_names(design) if n != design["top"]]
    if scheme == "unique" or not ids:
        return
    base = rng.choice(["Gate", "Cell", "unit", "Stage", "X"])
    parents = {}
    for n in topo_names(design):
        for i in T[n]["insts"]:
            parents.setdefault(i["t"], []).append(n)
    order = list(ids)
    rng.shuffle(order)
    for k, n in enumerate(order):
        c = rng.random()
        if k < 3 or c < 0.35:
            name = base
        elif c < 0.5:
            name = rng.choice([base.lower(), base.upper(), base.capitalize(), base.swapcase()])
        elif c < 0.6:
            name = base + rng.choice(["1", "2", "_1"])
        elif c < 0.7:
            name = "comp_" + base + rng.choice(["", "1"])
        elif c < 0.8:
            par = rng.choice(parents[n])
            name = T[par].get("cname", par)
        elif c < 0.87:
            name = rng.choice(["Top", "top", "TOP", "arch_Top", "comp_Top"])
        elif c < 0.95:
            name = rng.choice(RESERVED_NAMES)
        else:
            name = n
        T[n]["cname"] = name
        T[n]["style"] = rng.choice(["factory", "kw"])


def gate_corpus():
    """fixed minimal naming designs: distinct one-gate templates with colliding declared names below one top
    (siblings, nested, different orders); the output of every instance is a top output"""
    ops = ["and", "or", "xor"]

    def gate(tid, cname, op, style, child=None):
        t = {"name": tid, "cname": cname, "style": style,
             "ports": [("clk", "in", "bit", 1), ("a", "in", "uns", 2), ("b", "in", "uns", 2), ("q", "out", "uns", 2)],
             "locals": [], "logic": [], "insts": []}
        if child is None:
            t["logic"].append(("comb", ("q", 0, 2), (op, 2, ("r", "a", 0, 2), ("r", "b", 0, 2))))
        else:
            t["locals"].append(("m", "uns", 2, None))
            t["insts"].append({"t": child, "place": "arch", "acts": [("a", ("a", 0, 2), True), ("b", ("b", 0, 2), True), ("q", ("m", 0, 2), True), ("clk", ("clk", 0, 1), True)]})
            t["logic"].append(("comb", ("q", 0, 2), (op, 2, ("r", "m", 0, 2), ("r", "b", 0, 2))))
        return t

    def top(children):
        ports = [("clk", "in", "bit", 1), ("a", "in", "uns", 2), ("b", "in", "uns", 2)] + [(f"q{k}", "out", "uns", 2) for k in range(len(children))]
        t = {"name": "Top", "ports": ports, "locals": [], "logic": [], "insts": []}
        for k, c in enumerate(children):
            t["insts"].append({"t": c, "place": "arch", "acts": [("q", (f"q{k}", 0, 2), True), ("b", ("b", 0, 2), True), ("a", ("a", 0, 2), True), ("clk", ("clk", 0, 1), True)]})
        return t

    out = []
    # siblings: N distinct templates, names from a list
    for names in (["Gate", "Gate", "Gate"], ["Gate", "Gate", "Gate1"], ["Gate", "Gate1", "Gate"], ["Gate1", "Gate", "Gate"],
                  ["gate", "GATE", "Gate"], ["buffer", "Buffer"], ["Top", "top"], ["comp_Gate", "Gate", "Gate"],
                  ["Gate", "Gate", "Gate", "Gate"], ["Signal", "signal", "Signal1"]):
        for style in ("factory", "kw"):
            T = {f"E{k}": gate(f"E{k}", nm, ops[k % 3], style) for k, nm in enumerate(names)}
            T["Top"] = top([f"E{k}" for k in range(len(names))])
            out.append({"templates": T, "top": "Top"})
    # nested: chain of same-named templates, and a same-named sibling after / before the chain
    for order in ((0, 1), (1, 0)):
        T = {"E0": gate("E0", "Gate", "and", "factory"), "E1": gate("E1", "Gate", "or", "factory", child="E0"),
             "E2": gate("E2", "Gate", "xor", "factory", child="E1"), "E3": gate("E3", "Gate", "or", "kw")}
        T["Top"] = top([["E2", "E3"][k] for k in order])
        out.append({"templates": T, "top": "Top"})
    # the same names at different depths: two parents, each with its own distinct `Gate`
    T = {"E0": gate("E0", "Gate", "and", "factory"), "E1": gate("E1", "Gate", "or", "factory"),
         "E2": gate("E2", "Wrap", "xor", "kw", child="E0"), "E3": gate("E3", "Wrap", "and", "kw", child="E1"),
         "E4": gate("E4", "Gate", "xor", "factory")}
    T["Top"] = top(["E2", "E3", "E4", "E0"])
    out.append({"templates": T, "top": "Top"})
    return out


def inherit_corpus():
    """fixed minimal designs for templates built by inheritance: a registered base entity, a derived entity that ADDS an
    output, one that RE-DECLARES the default of the inherited output (inherited architecture), one that re-declares its type;
    base, derived and siblings instantiated in one parent in different orders, directly and through the connector helpers"""
    def reg(tid, ports, dflt, extra=(), **kw):
        t = {"name": tid, "ports": ports, "locals": [("q0", "uns", 3, dflt)], "arrays": {}, "insts": [],
             "logic": [("comb", ("q", 0, 3), ("r", "q0", 0, 3)), ("reg", ("q0", 0, 3), ("add", 3, ("r", "q", 0, 3), ("r", "a", 0, 3)))] + list(extra),
             "fused": {"q0": "q"}}
        t.update(kw)
        return t

    bp = [("clk", "in", "bit", 1), ("a", "in", "uns", 3), ("q", "out", "uns", 3)]
    out = []
    for order in ((0, 1, 2, 3), (3, 2, 1, 0), (1, 0), (2, 0), (0, 3)):
        for via in ("", "std.OpenEntity"):
            T = {"E0": reg("E0", bp, 1),
                 "E1": reg("E1", bp + [("dbg", "out", "uns", 3)], 2, extra=[("comb", ("dbg", 0, 3), ("xor", 3, ("r", "a", 0, 3), ("r", "q", 0, 3)))],
                           base="E0", own_ports=["dbg", "q"]),
                 "E2": reg("E2", bp, 6, base="E0", own_ports=["q"], inherit_arch=True),
                 "E3": {"name": "E3", "ports": [bp[0], ("a", "in", "slv", 3), bp[2], ("en", "in", "bit", 1)], "locals": [], "arrays": {}, "insts": [],
                        "logic": [("comb", ("q", 0, 3), ("and", 3, ("r", "a", 0, 3), ("c", 3, 5)))], "base": "E0", "own_ports": ["en", "a"]}}
            ports = [("clk", "in", "bit", 1), ("x", "in", "uns", 3), ("xv", "in", "slv", 3), ("e", "in", "bit", 1)]
            top = {"name": "Top", "ports": ports, "locals": [], "logic": [], "insts": [], "arrays": {}}
            for k in order:
                tid = f"E{k}"
                acts = [("q", (f"o{k}", 0, 3), True), ("a", ("xv" if k == 3 else "x", 0, 3), True), ("clk", ("clk", 0, 1), True)]
                ports.append((f"o{k}", "out", "uns", 3))
                if k == 1:
                    acts.append(("dbg", ("d1", 0, 3), True))
                    ports.append(("d1", "out", "uns", 3))
                if k == 3:
                    acts.append(("en", ("e", 0, 1), True))
                top["insts"].append({"t": tid, "place": "arch", "via": via, "acts": acts})
            out.append({"templates": {**{f"E{k}": T[f"E{k}"] for k in set(order) | {0}}, "Top": top}, "top": "Top"})
    return out


def corpus_designs():
    """fixed minimal designs, always run first: every (formal kind, actual kind, direction) combination of a
    typed-view / slice actual whose VHDL type differs from the formal's (the association needs a conversion)"""
    kinds = ["uns", "slv", "sgn"]
    T = {}
    for k in kinds:
        T["L" + k] = {"name": "L" + k, "ports": [("clk", "in", "bit", 1), ("a", "in", k, 3), ("y", "out", k, 3)],
                      "locals": [("r", "uns", 3, 5)],
                      "logic": [("reg", ("r", 0, 3), ("add", 3, ("r", "r", 0, 3), ("r", "a", 0, 3))),
                                ("comb", ("y", 0, 3), ("xor", 3, ("r", "r", 0, 3), ("r", "a", 0, 3)))],
                      "insts": []}
    designs = []
    for fk in kinds:
        ports = [("clk", "in", "bit", 1)] + [("x" + k, "in", k, 6) for k in kinds] + [("o", "out", "slv", 6)]
        top = {"name": "Top", "ports": ports, "locals": [], "logic": [], "insts": []}
        for j, rk in enumerate(k for k in kinds if k != fk):
            n = f"n{rk}"
            top["locals"].append((n, rk, 5, 9))
            top["insts"].append({"t": "L" + fk, "place": "arch",
                                 "acts": [("y", (n, 1, 3), False), ("a", ("x" + rk, 2, 3), False), ("clk", ("clk", 0, 1), True)]})
            top["logic"].append(("comb", ("o", 3 * j, 3), ("r", n, 1, 3)))
        designs.append({"templates": {**{k: v for k, v in T.items() if k == "L" + fk}, "Top": top}, "top": "Top"})
    # the same through ELEMENTS OF ARRAY SIGNALS: a typed view of a whole element (input and output), and a slice of an element
    for fk in kinds:
        ports = [("clk", "in", "bit", 1)] + [("x" + k, "in", k, 6) for k in kinds] + [("o", "out", "slv", 6), ("p", "out", "slv", 6)]
        top = {"name": "Top", "ports": ports, "locals": [], "logic": [], "insts": [], "arrays": {}}
        for j, rk in enumerate(k for k in kinds if k != fk):
            m, n, n2 = f"m{rk}", f"n{rk}", f"w{rk}"
            top["locals"] += [(m, rk, 3, None), (n, rk, 3, None), (n2, rk, 5, None)]
            top["arrays"].update({m: 2, n: 3, n2: 2})
            top["logic"] += [("comb", (m, 0, 3), ("r", "x" + rk, 0, 3)), ("comb", (m, 3, 3), ("r", "x" + rk, 3, 3))]
            top["insts"].append({"t": "L" + fk, "place": "arch",
                                 "acts": [("y", (n, 6, 3), False), ("a", (m, 3, 3), False), ("clk", ("clk", 0, 1), True)]})
            top["insts"].append({"t": "L" + fk, "place": "conc",
                                 "acts": [("a", (m, 0, 3), False), ("clk", ("clk", 0, 1), True), ("y", (n2, 5 + 1, 3), False)]})
            top["logic"].append(("comb", ("o", 3 * j, 3), ("r", n, 6, 3)))
            top["logic"].append(("comb", ("p", 3 * j, 3), ("r", n2, 6, 3)))
        designs.append({"templates": {**{k: v for k, v in T.items() if k == "L" + fk}, "Top": top}, "top": "Top"})
    return designs


def make_cases(ctx):
    rng = ctx.rng
    n = ctx.scale(44, 420)
    cases = []
    for design in corpus_designs() + gate_corpus() + inherit_corpus():
        top = design["templates"]["Top"]
        in_ports = [(p[0], p[2], p[3]) for p in top["ports"] if p[1] == "in" and p[0] != "clk"]
        out_ports = [(p[0], p[2], p[3]) for p in top["ports"] if p[1] == "out"]
        cases.append({"design": design, "in_ports": in_ports, "out_ports": out_ports, "inputs": gen_inputs(rng, in_ports, 4),
                      "views": True, "hier_src": render_hier(design), "inline_src": render_inline(design)})
    for k in range(n):
        depth = [1, 1, 2, 2, 2, 3][k % 6] if k >= 4 else 0 if k < 2 else 1
        fan = 1 + (k % 3)
        views = (k % 2 == 1)
        g = Gen(rng, depth, fan, views)
        design = g.design()
        assign_names(rng, design, "clash" if k % 4 >= 2 else "unique")
        top = design["templates"]["Top"]
        in_ports = [(p[0], p[2], p[3]) for p in top["ports"] if p[1] == "in" and p[0] != "clk"]
        out_ports = [(p[0], p[2], p[3]) for p in top["ports"] if p[1] == "out"]
        inputs = gen_inputs(rng, in_ports, ctx.scale(8, 14))
        cases.append({"design": design, "in_ports": in_ports, "out_ports": out_ports, "inputs": inputs,
                      "views": views, "hier_src": render_hier(design), "inline_src": render_inline(design)})
    return cases


def run(ctx: Ctx):
    ctx.rule = ("instantiation trees (depth 0..3, fan-out 1..3, templates reused with probability 1/2, instances in the "
                "architecture body / inside a concurrent context / inside `with cohdl.always`) over generated leaf entities "
                "(concurrent assignments on slices, clocked registers with defaults); actuals: whole signals, constant slices, "
                "bit indices, typed views (.unsigned/.signed/.bitvector, odd-numbered designs only), on inputs and outputs, "
                "keyword arguments in random order; declared entity names unique or clashing (>=3 distinct templates of one name, case variants, renamed forms, labels, parent / top name, reserved words; 23 fixed naming designs first); each design rendered hierarchically and hand-inlined, both compiled and "
                "simulated on the same random input sequence, sampled before and after every rising edge.  non-trivial = "
                "at least one instance and the outputs change over time; distinct = distinct design source")
    import time
    t0 = time.time()
    phases = ctx.extra.setdefault("phase_seconds", {})

    def mark(name):
        nonlocal t0
        phases[name] = round(time.time() - t0, 1)
        t0 = time.time()

    cases = make_cases(ctx)
    mark("generate")
    srcs = []
    for c in cases:
        srcs.append((c["hier_src"], "Top"))
        srcs.append((c["inline_src"], "Top"))
    compiled = compile_many(srcs)
    mark("compile")
    tasks, owner = [], []
    for k, c in enumerate(cases):
        c["hier"], c["inline"] = compiled[2 * k], compiled[2 * k + 1]
        for which in ("hier", "inline"):
            if c[which]["ok"]:
                tasks.append((c[which]["vhdl"], c["in_ports"], c["out_ports"], c["inputs"]))
                owner.append((k, which))
    sims = fork_map(_sim_task, tasks, fresh=False, chunk=4)
    mark("simulate")
    for (k, which), s in zip(owner, sims):
        cases[k][which + "_sim"] = s[1] if s[0] == "ok" else {"err": "other", "msg": s[1]}
    reqs = []
    for c in cases:
        sx = sx_template(c["design"], "Top")
        li = lean_inputs(c["inputs"], c["in_ports"])
        reqs += [f"flat {sx} | {li}", f"hier {sx} | {li}", f"emit {sx}"]
    answers = lean_io.query("C12", reqs)
    mark("lean")
    n_prop = n_model = n_struct = n_rej = 0
    for k, c in enumerate(cases):
        c["m_flat"], c["m_hier"], c["m_emit"] = answers[3 * k: 3 * k + 3]
        bad = judge(ctx, c)
        n_prop += bad["prop"]
        n_model += bad["model"]
        n_struct += bad["struct"]
        n_rej += bad["rejected"]
    mark("judge")
    # second phase (batched): the entities of renamed / name-sharing templates on their own
    st = [(c, x) for c in cases for x in c.get("standalone", [])]
    if st:
        answers = lean_io.query("C12", [f"flat {sx_template(c['design'], n)} | {lean_inputs(inp, ip)}" for c, (n, ip, op, inp, en) in st])
        sims = fork_map(_sim_task, [(c["hier"]["vhdl"], ip, op, inp, en) for c, (n, ip, op, inp, en) in st], fresh=False, chunk=8)
        for (c, (n, ip, op, inp, en)), ans, r in zip(st, answers, sims):
            ctx.dist["renamed-entity-checked-standalone"] += 1
            r = r[1] if r[0] == "ok" else {"err": "other", "msg": r[1]}
            nat = rows_as_nat(r["rows"]) if "rows" in r else None
            if "err" in r or (nat is not None and nat != ans.split(";")):
                n_struct += 1
                t = c["design"]["templates"][n]
                ctx.report("entity-behaviour", f"entity `{en}`, to which the instances of template {n} (declared name {t.get('cname', n)}) are bound, "
                           f"does not behave like that template: {r.get('msg') or nat} vs simFlat {ans}",
                           {"hier_src": c["hier_src"], "inline_src": c["inline_src"], "inputs": c["inputs"], "in_ports": c["in_ports"],
                            "out_ports": c["out_ports"], "design_sexpr": sx_template(c["design"], "Top"), "vhdl": c["hier"]["vhdl"],
                            "check": "structure", "template": n, "entity": en, "template_inputs": inp})
    mark("standalone")
    if n_rej * 5 > len(cases):
        from .common import InfraError
        raise InfraError(f"{n_rej} of {len(cases)} generated designs are rejected in BOTH renderings: the generator no longer produces accepted designs ({ctx.notes[:2]})")
    ctx.obligation("PROPERTY: hierarchical and hand-inlined renderings of every generated design simulate identically (emitted VHDL, per clock, before and after the edge)",
                   n_prop == 0, detail=f"{len(cases)} designs, {n_prop} differ or cannot be executed, {n_rej} rejected by the compiler in both renderings")
    ctx.obligation("correspondence: emitted VHDL (both renderings) = Lean simFlat (flatten d) = Lean simHier (emitHier d) on the generated input sequences",
                   n_model == 0, detail=f"{n_model} mismatches")
    ctx.obligation("correspondence: emitted library structure = emitHier d (interfaces, one entity per template, sub-entities first, formal => its actual, legal associations)",
                   n_struct == 0, detail=f"{n_struct} designs with a structural difference")


def judge(ctx, c, quiet=False):
    bad = {"prop": 0, "model": 0, "struct": 0, "rejected": 0}
    design = c["design"]
    stats = design_stats(design)
    hier, inline = c["hier"], c["inline"]
    replay = {"hier_src": c["hier_src"], "inline_src": c["inline_src"], "inputs": c["inputs"],
              "in_ports": c["in_ports"], "out_ports": c["out_ports"], "design_sexpr": sx_template(design, "Top")}
    key = c["hier_src"]
    if not hier["ok"] or not inline["ok"]:
        if hier["ok"] != inline["ok"]:
            which = "hierarchical" if not hier["ok"] else "inlined"
            r = hier if not hier["ok"] else inline
            bad["prop"] += 1
            ctx.report(f"rejected:{which}:{r['errtype']}",
                       f"the {which} rendering of a design is rejected by the compiler ({r['errtype']}: {r['err'][-200:]}) while the other rendering is accepted",
                       {**replay, "error": r})
        else:
            bad["rejected"] += 1
            ctx.dist["both-rejected"] += 1
            ctx.notes.append(f"both renderings rejected: {hier['errtype']}: {hier['err'][-120:]}") if len(ctx.notes) < 5 else None
        ctx.case(key=key, nontrivial=False, kind="rejected")
        return bad
    # ---- structure of the emitted library (hierarchical rendering)
    try:
        sfails, soft, bound = check_structure(design, hier["vhdl"], c["m_emit"])
    except Exception as e:  # noqa - emitted text outside the known subset
        sfails, soft, bound = [("unparsable", f"the emitted hierarchical library cannot be analysed: {type(e).__name__}: {e}"[:300])], {}, {}
    illtyped = [f for f in sfails if f[0].startswith("portmap-illtyped")]
    for sig, msg in sfails:
        bad["struct"] = 1
        ctx.report(sig, msg, {**replay, "vhdl": hier["vhdl"], "check": "structure"})
    if soft.get("library_order_equals_model") is False:
        ctx.dist["library-order-differs-from-model(sibling order only)"] += 1
    for m in soft.get("default_mismatch", []):
        # no behavioural consequence in VHDL (the instance's driver determines the value), but the anchored rule of
        # `Entity.__init__` (defaults removed from signals connected as whole objects to instance outputs) is broken
        bad["struct"] = 1
        ctx.dist["default-of-instance-driven-signal-differs-from-model"] += 1
        ctx.report("default-rule", "default of a signal connected to an instance output differs from emitHier: " + m,
                   {**replay, "vhdl": hier["vhdl"], "check": "structure",
                    "correspondence": "emitHier d (dropDefault / drivenPlain) = declarations of the emitted architecture"},
                   no_failing_input=True)
    # ---- every renamed / name-sharing template: the entity its instances are bound to, simulated on its own, behaves
    #      like the template (Lean simFlat of the template's subtree)
    if not sfails and bound:
        T = design["templates"]
        used = [n for n in topo_names(design) if n != design["top"] and n in bound]
        lows = [T[n].get("cname", n).lower() for n in used]
        sel = [n for n in used if lows.count(T[n].get("cname", n).lower()) > 1 or bound[n] != T[n].get("cname", n)][:4]
        rng = __import__("random").Random(len(c["hier_src"]))
        for n in sel:
            ip = [(p[0], p[2], p[3]) for p in T[n]["ports"] if p[1] == "in" and p[0] != "clk"]
            op = [(p[0], p[2], p[3]) for p in T[n]["ports"] if p[1] == "out"]
            c.setdefault("standalone", []).append((n, ip, op, gen_inputs(rng, ip, 4), bound[n]))
    # ---- behaviour
    hs, is_ = c["hier_sim"], c["inline_sim"]
    nontrivial = False
    if "err" in is_:
        bad["prop"] += 1
        ctx.report(f"inline-sim-error:{is_['err']}", f"the emitted VHDL of the hand-inlined rendering cannot be executed: {is_['msg']}",
                   {**replay, "error": is_})
    elif "err" in hs:
        if hs["err"] == "type" and illtyped:
            pass  # consequence of the ill-typed association reported above
        else:
            bad["prop"] += 1
            ctx.report(f"hier-sim-error:{hs['err']}", f"the emitted VHDL of the hierarchical rendering cannot be executed ({hs['msg']}) while the inlined rendering can",
                       {**replay, "error": hs, "vhdl": hier["vhdl"]})
    else:
        hr, ir = hs["rows"], is_["rows"]
        nontrivial = stats["instances"] > 0 and len(set(hr)) > 1
        d = first_diff(hr, ir)
        if d is not None:
            bad["prop"] += 1
            small = c["inputs"][: d + 1]
            if not quiet:
                def fails(inp):
                    a = _sim_task((hier["vhdl"], c["in_ports"], c["out_ports"], inp))
                    b = _sim_task((inline["vhdl"], c["in_ports"], c["out_ports"], inp))
                    return a != b
                small = shrink_inputs(small, fails)
            a = _sim_task((hier["vhdl"], c["in_ports"], c["out_ports"], small))
            b = _sim_task((inline["vhdl"], c["in_ports"], c["out_ports"], small))
            dd = first_diff(a.get("rows", []), b.get("rows", [])) or 0
            outs = ",".join(p[0] for p in c["out_ports"])
            ctx.report(f"hier!=inline:depth={stats['depth']}:instances={stats['instances']}:{stable_sig(design)}",
                       f"instantiated and inlined design differ at clock {dd}: outputs ({outs}) pre|post edge hierarchical `{a.get('rows', ['?'] * (dd + 1))[dd]}` vs inlined `{b.get('rows', ['?'] * (dd + 1))[dd]}`",
                       {**replay, "inputs": small, "hier_rows": a, "inline_rows": b, "hier_vhdl": hier["vhdl"], "inline_vhdl": inline["vhdl"]})
        # ---- model
        if c["m_flat"] != c["m_hier"] or c["m_flat"].startswith("bad"):
            bad["model"] += 1
            ctx.report("model-driver", f"the Lean driver's simHier and simFlat disagree or reject the design: {c['m_flat'][:80]} / {c['m_hier'][:80]}",
                       {**replay, "m_flat": c["m_flat"], "m_hier": c["m_hier"]}, no_failing_input=True)
        else:
            for which, rows in (("inlined", ir), ("hierarchical", hr)):
                nat = rows_as_nat(rows)
                if nat is None:
                    ctx.dist["outputs-with-metavalues(not compared with the model)"] += 1
                    continue
                mrows = c["m_flat"].split(";")
                dm = first_diff(nat, mrows)
                if dm is not None:
                    bad["model"] += 1
                    if d is None:
                        # both renderings agree with each other but not with the spec semantics: the logic itself is
                        # compiled differently from the model (not a C12 failure unless the renderings differ)
                        ctx.report(f"model!=vhdl:{which}", f"{which} rendering shows `{nat[dm]}` at clock {dm} where simFlat gives `{mrows[dm]}`",
                                   {**replay, "expected": mrows, "observed": nat, "correspondence": "emitted VHDL = C12.simFlat (flatten d)"},
                                   no_failing_input=True)
                    break
    ctx.case(key=key, nontrivial=nontrivial, kind=f"depth={stats['depth']}",
             sample={"stats": stats, "inputs": c["inputs"][:2], "hier_rows": (hs.get("rows") or [hs.get("msg")])[:2]})
    for k2, v in stats["actuals"].items():
        ctx.dist["actual:" + k2] += v
    for k2, v in stats["places"].items():
        ctx.dist["instance-in:" + k2] += v
    ctx.dist["templates-built-by-inheritance"] += stats["derived"]
    ctx.dist["instances-via-OpenEntity/ConnectedEntity"] += stats["connector"]
    ctx.dist["instances"] += stats["instances"]
    ctx.dist["repeated-template-instances"] += stats["repeated"]
    return bad


def stable_sig(design):
    """a seed-independent description of the failing design: its shape"""
    s = design_stats(design)
    return f"templates={s['templates']}:actuals={s['actuals']['plain']}p{s['actuals']['slice']}s{s['actuals']['view']}v{s['actuals']['index']}i"


def replay(ctx, data):
    r = data["replay"]
    comp = compile_many([(r["hier_src"], "Top"), (r["inline_src"], "Top")])
    print("hierarchical:", "accepted" if comp[0]["ok"] else comp[0])
    print("inlined     :", "accepted" if comp[1]["ok"] else comp[1])
    if not comp[0]["ok"] or not comp[1]["ok"]:
        return 0 if comp[0]["ok"] == comp[1]["ok"] else 1
    in_ports = [tuple(p) for p in r["in_ports"]]
    out_ports = [tuple(p) for p in r["out_ports"]]
    rc = 0
    if r.get("check") == "structure":
        emit = lean_io.query("C12", [f"emit {r['design_sexpr']}"])[0]
        print("emitHier    :", emit)
        try:
            lib = library_structure(comp[0]["vhdl"])
            for (name, ports, sigs, insts) in lib:
                print("emitted     :", name, ports, [(l, e, {f: a[:3] + a[3:] for f, a in pm.items()}) for (l, e, pm, d) in insts])
        except Exception as e:  # noqa
            print("emitted library cannot be analysed:", e)
            return 1
    a = _sim_task((comp[0]["vhdl"], in_ports, out_ports, r["inputs"]))
    b = _sim_task((comp[1]["vhdl"], in_ports, out_ports, r["inputs"]))
    m = lean_io.query("C12", [f"flat {r['design_sexpr']} | {lean_inputs(r['inputs'], in_ports)}"])[0]
    print("inputs      :", r["inputs"])
    print("hierarchical:", a)
    print("inlined     :", b)
    print("simFlat     :", m)
    if a != b:
        rc = 1
    if r.get("check") == "structure":
        # re-run the structural comparison on a regenerated design is not possible from the source alone:
        # report the associations and let the type check decide
        for (name, ports, sigs, insts) in lib:
            for (label, ent, pm, dup) in insts:
                fd = {e[0]: e for e in lib}.get(ent)
                if fd is None:
                    continue
                fports = {p[0]: p for p in fd[1]}
                for f, (root, lo, w, aconv, fconv, akind) in pm.items():
                    fk = fports[f][2]
                    eff = (aconv or akind) if fports[f][1] == "in" else akind
                    want = fk if fports[f][1] == "in" else (fconv or fk)
                    if eff != want:
                        print(f"ill-typed association in {name}.{label}: {f} ({fk}) <-> {root} ({akind})")
                        rc = 1
    return rc
