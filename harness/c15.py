"""C15 - std.SyncFlag / std.Mailbox hand over every event exactly once.

Tie.  Wrapper entities put the real std.SyncFlag / std.Mailbox between a producer context and a consumer
context (same clock, independent clock enables `en_p` / `en_c` as `step_cond` = every relative rate of the
two contexts; also a single-context variant) for tx_delay, rx_delay in 0..3.  The emitted VHDL is executed
with harness.vhdl_sim.Design.

1. EXHAUSTIVE: the complete reachable state graph of every emitted design over the input alphabet
   (producer: no tick | tick idle | tick + attempt(payload), consumer: no tick | tick unwilling | tick willing)
   is built by breadth-first search with state snapshots - i.e. ALL schedules of ALL lengths over that
   alphabet (payload alphabet {1,2}, event counters replaced by toggle bits so that the state space is finite).
   a) every transition is compared with the Lean step function `CohdlVerif.C15.step` (product exploration
      design state x model state: a bisimulation check, per clock: flag as seen by producer / consumer /
      outside, accept and receive indications, received payload),
   b) THE PROPERTY is model-checked on the graph with an independent monitor (queue of accepted and not yet
      received payloads): receive without pending event (duplicate / re-observation), accept while an event
      is pending (lost event / producer saw clear before the consumer cleared), payload mismatch
      (corrupted / reordered), consumer sees set with nothing pending, set while set changes the state,
      liveness (from every reachable state, consumer willing + both ticking drains the event).
   A failing schedule is the shortest one (BFS) and becomes the replay.
2. RANDOM: schedules of up to 2000 steps with 4-bit payloads (distinct consecutive values), biased rate
   ratios, attempts / willingness also asserted while the context does not tick; whole traces vs `run` of
   the Lean model, event logs vs the monitor.
"""

from collections import deque

from .common import Ctx, compile_many, fork_map
from . import lean_io
from .vhdl_sim import Design

# ---------------------------------------------------------------------------------------------------
# wrapper designs
# ---------------------------------------------------------------------------------------------------

HEAD = '''
import cohdl
from cohdl import std, Bit, BitVector, Unsigned, Port, Signal
from cohdl.std._context import at_end_of_context

class W(cohdl.Entity):
    clk = Port.input(Bit)
    en_p = Port.input(Bit)
    en_c = Port.input(Bit)
    try_s = Port.input(Bit)
    willing = Port.input(Bit)
    data_in = Port.input(Unsigned[{DW}])
    p_set = Port.output(Bit)
    p_clear = Port.output(Bit)
    c_set = Port.output(Bit)
    c_clear = Port.output(Bit)
    o_set = Port.output(Bit)
    o_clear = Port.output(Bit)
    acc = Port.output(Bit, default=False)
    rcv = Port.output(Bit, default=False)
    rx_data = Port.output(Unsigned[{DW}])

    def architecture(self):
        ctx_p = std.SequentialContext(std.Clock(self.clk), step_cond=lambda: self.en_p)
        ctx_c = {CTX_C}
        obj = {OBJ}

        @std.concurrent
        def logic():
            self.o_set <<= obj.is_set()
            self.o_clear <<= obj.is_clear()
'''

# --- SyncFlag, two contexts.  `set()` is attempted whatever the producer observes (set-while-set is exercised)
FLAG_P = {
    # the observation is traced BEFORE the first set(): operands resolved through the *_indirect signals
    "check-first": '''
        @ctx_p
        def prod():
            with cohdl.always:
                self.p_set <<= obj.is_set()
                self.p_clear <<= obj.is_clear()
            if self.try_s:
                if obj.is_clear():
                    self.acc <<= ~self.acc
                obj.set()
''',
    # observation traced AFTER set(): operands resolved directly (ctx is _tx_ctx)
    "act-first": '''
        @ctx_p
        def prod():
            if self.try_s:
                obj.set()
                if obj.is_clear():
                    self.acc <<= ~self.acc
            with cohdl.always:
                self.p_set <<= obj.is_set()
                self.p_clear <<= obj.is_clear()
''',
}
FLAG_C = {
    "check-first": '''
        @ctx_c
        def cons():
            with cohdl.always:
                self.c_set <<= obj.is_set()
                self.c_clear <<= obj.is_clear()
            if self.willing:
                if obj.is_set():
                    self.rcv <<= ~self.rcv
                    obj.clear()
''',
    # clear() is traced first (it is a no-op unless the flag is set); the observation afterwards
    "act-first": '''
        @ctx_c
        def cons():
            if self.willing:
                obj.clear()
                if obj.is_set():
                    self.rcv <<= ~self.rcv
            with cohdl.always:
                self.c_set <<= obj.is_set()
                self.c_clear <<= obj.is_clear()
''',
}
# --- Mailbox
MBOX_P = {
    "guard": '''
        @ctx_p
        def prod():
            with cohdl.always:
                self.p_set <<= obj.is_set()
                self.p_clear <<= obj.is_clear()
            if self.try_s:
                if obj.is_clear():
                    self.acc <<= ~self.acc
                    obj.send(self.data_in)
''',
    # documented misuse: send() also while the producer sees the flag set (payload register is overwritten)
    "noguard": '''
        @ctx_p
        def prod():
            with cohdl.always:
                self.p_set <<= obj.is_set()
                self.p_clear <<= obj.is_clear()
            if self.try_s:
                if obj.is_clear():
                    self.acc <<= ~self.acc
                obj.send(self.data_in)
''',
    # upstream style (test_mailbox_01): coroutine, always attempting
    "coro": '''
        @ctx_p
        async def prod():
            with cohdl.always:
                self.p_set <<= obj.is_set()
                self.p_clear <<= obj.is_clear()
            await obj.is_clear()
            obj.send(self.data_in)
            self.acc <<= ~self.acc
''',
}
MBOX_C = {
    "guard": '''
        @ctx_c
        def cons():
            with cohdl.always:
                self.c_set <<= obj.is_set()
                self.c_clear <<= obj.is_clear()
            if self.willing:
                if obj.is_set():
                    self.rx_data <<= obj.data()
                    self.rcv <<= ~self.rcv
                    obj.clear()
''',
    "coro": '''
        @ctx_c
        async def cons():
            with cohdl.always:
                self.c_set <<= obj.is_set()
                self.c_clear <<= obj.is_clear()
            self.rx_data <<= await obj.receive()
            self.rcv <<= ~self.rcv
''',
}
MBOX_C["noguard"] = MBOX_C["guard"]

# --- single context (producer and consumer code in ONE process); order = which call is traced first
SAME = {
    "flag:set-first": '''
        @ctx_p
        def both():
            with cohdl.always:
                self.p_set <<= obj.is_set()
                self.p_clear <<= obj.is_clear()
                self.c_set <<= obj.is_set()
                self.c_clear <<= obj.is_clear()
            if self.try_s:
                if obj.is_clear():
                    self.acc <<= ~self.acc
                obj.set()
            if self.willing:
                if obj.is_set():
                    self.rcv <<= ~self.rcv
                    obj.clear()
''',
    "flag:clear-first": '''
        @ctx_p
        def both():
            with cohdl.always:
                self.p_set <<= obj.is_set()
                self.p_clear <<= obj.is_clear()
                self.c_set <<= obj.is_set()
                self.c_clear <<= obj.is_clear()
            if self.willing:
                if obj.is_set():
                    self.rcv <<= ~self.rcv
                    obj.clear()
            if self.try_s:
                if obj.is_clear():
                    self.acc <<= ~self.acc
                obj.set()
''',
    "mbox:set-first": '''
        @ctx_p
        def both():
            with cohdl.always:
                self.p_set <<= obj.is_set()
                self.p_clear <<= obj.is_clear()
                self.c_set <<= obj.is_set()
                self.c_clear <<= obj.is_clear()
            if self.try_s:
                if obj.is_clear():
                    self.acc <<= ~self.acc
                    obj.send(self.data_in)
            if self.willing:
                if obj.is_set():
                    self.rx_data <<= obj.data()
                    self.rcv <<= ~self.rcv
                    obj.clear()
''',
    "mbox:clear-first": '''
        @ctx_p
        def both():
            with cohdl.always:
                self.p_set <<= obj.is_set()
                self.p_clear <<= obj.is_clear()
                self.c_set <<= obj.is_set()
                self.c_clear <<= obj.is_clear()
            if self.willing:
                if obj.is_set():
                    self.rx_data <<= obj.data()
                    self.rcv <<= ~self.rcv
                    obj.clear()
            if self.try_s:
                if obj.is_clear():
                    self.acc <<= ~self.acc
                    obj.send(self.data_in)
''',
}


# ---------------------------------------------------------------------------------------------------
# WHERE the operations are issued from.  The same producer / consumer code is placed
#   body    in the process body                       helper  in nested plain helper functions
#   end     in a callback registered with at_end_of_context (the mechanism SyncFlag / Fifo use themselves)
#   nested  in a helper called by an end-of-context callback that is registered by another end-of-context callback
#   before  in an independent std.Executor of mode immediate_before      after  ... immediate_after
# All of them run once per activation of the owning context, so the Lean step model applies unchanged.
# kind "site":     variant = what|psite|csite|obs   (two contexts)
# kind "samesite": the same in ONE context (one process; order = producer part first)
# kind "exec":     the public start/exec protocol (std.Executor.make_after / make_before + `await ex.exec()`):
#                  extra latency, willingness latched -> exactly-once monitor without the immediacy checks, no Lean tie
# obs = in: the is_set()/is_clear() observation is part of the placed code (first touch of the object happens there)
#       body: the observation stays in the process body
# ---------------------------------------------------------------------------------------------------

SITES = ("body", "helper", "end", "nested", "before", "after")

OBS_CODE = {
    "p": ["with cohdl.always:", "    self.p_set <<= obj.is_set()", "    self.p_clear <<= obj.is_clear()"],
    "c": ["with cohdl.always:", "    self.c_set <<= obj.is_set()", "    self.c_clear <<= obj.is_clear()"],
}
ACT_CODE = {
    ("flag", "p"): ["if self.try_s:", "    if obj.is_clear():", "        self.acc <<= ~self.acc", "    obj.set()"],
    ("flag", "c"): ["if self.willing:", "    if obj.is_set():", "        self.rcv <<= ~self.rcv", "        obj.clear()"],
    ("mbox", "p"): ["if self.try_s:", "    if obj.is_clear():", "        self.acc <<= ~self.acc", "        obj.send(self.data_in)"],
    ("mbox", "c"): ["if self.willing:", "    if obj.is_set():", "        self.rx_data <<= obj.data()",
                    "        self.rcv <<= ~self.rcv", "        obj.clear()"],
}


def _ind(lines, n):
    return "".join(" " * n + l + "\n" for l in lines)


def site_parts(what, side, site, obs):
    """-> (definitions placed before the process, executors for the decorator, lines of the process body)"""
    n = "prod" if side == "p" else "cons"
    act = ACT_CODE[(what, side)]
    code = (OBS_CODE[side] if obs == "in" or site == "body" else []) + act
    body_obs = [] if obs == "in" or site == "body" else OBS_CODE[side]
    if site == "body":
        return "", [], code
    if site == "helper":
        d = f"        def {n}_ops():\n{_ind(code, 12)}\n        def {n}_outer():\n            {n}_ops()\n"
        return d, [], body_obs + [f"{n}_outer()"]
    if site == "end":
        d = f"        async def {n}_end():\n{_ind(code, 12)}"
        return d, [], body_obs + [f"at_end_of_context({n}_end)"]
    if site == "nested":
        d = (f"        def {n}_ops():\n{_ind(code, 12)}\n        async def {n}_inner():\n            {n}_ops()\n\n"
             f"        async def {n}_outer():\n            at_end_of_context({n}_inner)\n")
        return d, [], body_obs + [f"at_end_of_context({n}_outer)"]
    mode = {"before": "make_independent_before", "after": "make_independent_after"}[site]
    d = f"        async def {n}_run():\n{_ind(code, 12)}\n        {n}_ex = std.Executor.{mode}({n}_run, None)\n"
    return d, [f"{n}_ex"], body_obs


def _process(ctx, name, execs, body, is_async=False):
    deco = f"@{ctx}(executors=[{', '.join(execs)}])" if execs else f"@{ctx}"
    return f"\n        {deco}\n        {'async ' if is_async else ''}def {name}():\n{_ind(body or ['pass'], 12)}"


def site_body(kind, variant):
    what, ps, cs, obs = variant.split("|")
    dp, ep, bp = site_parts(what, "p", ps, obs)
    dc, ec, bc = site_parts(what, "c", cs, obs)
    if kind == "samesite":
        return "\n" + dp + "\n" + dc + _process("ctx_p", "both", ep + ec, bp + bc)
    return "\n" + dp + _process("ctx_p", "prod", ep, bp) + "\n" + dc + _process("ctx_c", "cons", ec, bc)


EXEC_P = {
    "body": MBOX_P["guard"],
    "exec": '''
        async def post():
            await obj.is_clear()
            obj.send(self.data_in)
            self.acc <<= ~self.acc

        poster = std.Executor.make_before(post, None)

        @ctx_p(executors=[poster])
        async def prod():
            with cohdl.always:
                self.p_set <<= obj.is_set()
                self.p_clear <<= obj.is_clear()
            await self.try_s
            await poster.exec()
''',
}
EXEC_C = {
    "body": MBOX_C["guard"],
    # the consumer side of the mailbox is first (and only) used inside an after-executor
    "exec": '''
        async def fetch():
            self.rx_data <<= await obj.receive()
            self.rcv <<= ~self.rcv

        fetcher = std.Executor.make_after(fetch, None)

        @ctx_c
        async def cons():
            with cohdl.always:
                self.c_set <<= obj.is_set()
                self.c_clear <<= obj.is_clear()
            await self.willing
            await fetcher.exec()
''',
}


def is_same(cfg):
    return cfg[0] in ("same", "samesite")


def relaxed(cfg):
    """start/exec protocol: attempts and willingness are latched by the design, so the monitor cannot demand
    an immediate reaction"""
    return cfg[0] == "exec"


CTX2 = "std.SequentialContext(std.Clock(self.clk), step_cond=lambda: self.en_c)"


def make_source(cfg, dw):
    """cfg = (kind, variant, txd, rxd); kind in flag | mbox | same"""
    kind, variant, txd, rxd = cfg
    if kind == "flag":
        obj = f"std.SyncFlag(tx_delay={txd}, rx_delay={rxd})"
        body = FLAG_P[variant] + FLAG_C[variant]
    elif kind == "mbox":
        obj = f"std.Mailbox[Unsigned[{dw}]](tx_delay={txd}, rx_delay={rxd})"
        body = MBOX_P[variant] + MBOX_C[variant]
    elif kind in ("site", "samesite"):
        what = variant.split("|")[0]
        obj = (f"std.SyncFlag(tx_delay={txd}, rx_delay={rxd})" if what == "flag"
               else f"std.Mailbox[Unsigned[{dw}]](tx_delay={txd}, rx_delay={rxd})")
        body = site_body(kind, variant)
    elif kind == "exec":
        obj = f"std.Mailbox[Unsigned[{dw}]](tx_delay={txd}, rx_delay={rxd})"
        ps, cs = variant.split("|")
        body = EXEC_P[ps] + EXEC_C[cs]
    else:
        what = variant.split(":")[0]
        obj = (f"std.SyncFlag(tx_delay={txd}, rx_delay={rxd})" if what == "flag"
               else f"std.Mailbox[Unsigned[{dw}]](tx_delay={txd}, rx_delay={rxd})")
        body = SAME[variant]
    return HEAD.format(DW=dw, CTX_C=("ctx_p" if kind in ("same", "samesite") else CTX2), OBJ=obj) + body


def has_payload(cfg):
    return cfg[0] in ("mbox", "exec") or (cfg[0] in ("same", "site", "samesite") and cfg[1].startswith("mbox"))


def guard_of(cfg):
    """does the producer code guard the attempt with `if is_clear()` (model parameter G)"""
    if cfg[0] == "flag":
        return False
    if cfg[0] == "mbox":
        return cfg[1] != "noguard"
    return cfg[0] == "exec" or cfg[1].startswith("mbox")


# ---------------------------------------------------------------------------------------------------
# input tokens  P:C    P = - | i | s<v> | x<v>(attempt asserted, no tick)    C = - | u | w | y(willing, no tick)
# ---------------------------------------------------------------------------------------------------


def apply_token(d, tok, same):
    p, c = tok.split(":")
    en_p = p[0] in "is"
    d.set("en_p", 1 if en_p else 0)
    d.set("try_s", 1 if p[0] in "sx" else 0)
    d.set("data_in", int(p[1:]) if p[0] in "sx" else 0)
    d.set("en_c", 1 if c in "uw" else 0)
    d.set("willing", 1 if c in "wy" else 0)
    if same:
        assert en_p == (c in "uw")


def model_token(tok):
    """tokens with an attempt / willingness while the context does not tick are no-ops of that side"""
    p, c = tok.split(":")
    if p[0] == "x":
        p = "-"
    if c == "y":
        c = "-"
    return f"{p}:{c}"


OBS = ("p_set", "p_clear", "c_set", "c_clear", "o_set", "o_clear", "acc", "rcv", "rx_data")


def observe(d):
    return tuple(d.get(p) for p in OBS)


def alphabet(cfg, payloads):
    ps = ["-", "i"] + [f"s{v}" for v in payloads]
    cs = ["-", "u", "w"]
    if is_same(cfg):
        return ["-:-"] + [f"{p}:{c}" for p in ps[1:] for c in cs[1:]]
    if cfg[0] == "mbox" and cfg[1] == "coro":
        # the coroutines ignore try_s / willing: always attempting, always willing
        return [f"{p}:{c}" for p in ["-"] + ps[2:] for c in ["-", "w"]]
    return [f"{p}:{c}" for p in ps for c in cs]


# ---------------------------------------------------------------------------------------------------
# state graph of an emitted design (runs in a forked worker)
# ---------------------------------------------------------------------------------------------------


def _new_design(vhdl):
    d = Design(vhdl)
    for p in ("clk", "en_p", "en_c", "try_s", "willing", "data_in"):
        d.set(p, 0)
    d.initialise()
    return d


def _snapshot(d):
    return [st.val for st in d.storages]


def _restore(d, snap):
    for st, v in zip(d.storages, snap):
        st.val = v
    d.events = set()
    d.last_values = {}


def _key(d):
    # signals that are not input ports (process temporaries are rewritten before they are read)
    return tuple(repr(st.val) for st in d.storages if st.is_signal and st.port_dir != "in")


def explore_task(task):
    """-> {"nodes": [obs...], "edges": {node: {tok: node}}, "limit": bool}"""
    vhdl, toks, same, limit = task
    d = _new_design(vhdl)
    ids = {_key(d): 0}
    snaps = [_snapshot(d)]
    obs = [observe(d)]
    edges = [{}]
    queue = deque([0])
    hit_limit = False
    while queue:
        n = queue.popleft()
        for tok in toks:
            _restore(d, snaps[n])
            apply_token(d, tok, same)
            d.settle()
            d.clock()
            k = _key(d)
            m = ids.get(k)
            if m is None:
                if len(ids) >= limit:
                    hit_limit = True
                    continue
                m = len(ids)
                ids[k] = m
                snaps.append(_snapshot(d))
                obs.append(observe(d))
                edges.append({})
                queue.append(m)
            edges[n][tok] = m
    return {"obs": obs, "edges": edges, "limit": hit_limit}


def trace_task(task):
    """run one schedule from power-up -> list of observations (index 0 = initial state)"""
    vhdl, toks, same = task
    d = _new_design(vhdl)
    out = [observe(d)]
    for tok in toks:
        apply_token(d, tok, same)
        d.settle()
        d.clock()
        out.append(observe(d))
    return out


# ---------------------------------------------------------------------------------------------------
# THE PROPERTY: independent monitor on observations
# ---------------------------------------------------------------------------------------------------


def monitor_init(o0):
    """the power-up observation: every view defined and clear"""
    if None in o0[:8]:
        return "an observable is undefined ('U'/'X') at power-up: " + ", ".join(n for n, v in zip(OBS[:8], o0[:8]) if v is None)
    if o0[0] or o0[2] or o0[4]:
        return "the flag is observed set at power-up"
    return None


def monitor_step(pending, o0, o1, tok, payload, relax=False):
    """pending: tuple of payloads accepted and not yet received.  o0/o1: observation before / after the clock.
    -> (pending', violation | None)"""
    p, c = tok.split(":")
    accepted = o0[6] != o1[6]
    received = o0[7] != o1[7]
    if None in o1[:8]:
        return pending, "an observable is undefined ('U'/'X'): " + ", ".join(n for n, v in zip(OBS[:8], o1[:8]) if v is None)
    for a, b, who in ((0, 1, "producer"), (2, 3, "consumer"), (4, 5, "outside")):
        if o1[a] == o1[b]:
            return pending, f"is_set and is_clear agree in the {who} view"
    if received:
        if not pending:
            return pending, "receive without a pending event (duplicate delivery / consumed set observed again)"
        exp = pending[0]
        pending = pending[1:]
        if payload and o1[8] != exp:
            return pending, f"received payload {o1[8]} where {exp} was sent (corrupted / reordered)"
        if not (c == "w" or (relax and c == "u")):
            return pending, "receive although the consumer was not willing / did not tick"
        if not o0[2]:
            return pending, "receive although the consumer did not observe the flag set"
    if accepted:
        if p[0] != "s" and not (relax and p[0] == "i"):
            return pending, "accept although the producer did not attempt / did not tick"
        if not o0[1]:
            return pending, "accept although the producer did not observe the flag clear"
        if pending:
            return pending, "set accepted while the previous event is not yet consumed (event lost)"
        pending = pending + (int(p[1:]) if p[0] == "s" else 0,)
    elif p[0] == "s" and o0[1] and not relax:
        return pending, "attempt while the producer observes clear was not accepted"
    if c == "w" and o0[2] and not received and not relax:
        return pending, "willing consumer observed the flag set but did not receive"
    if pending and o1[1]:
        return pending, "producer observes clear although the consumer has not cleared the event"
    if not pending and o1[2]:
        return pending, "consumer observes set although every event is consumed (re-observation)"
    if len(pending) > 1:
        return pending, "more than one event in flight"
    return pending, None


def check_property(graph, cfg, toks):
    """model-check the monitor on the state graph.  -> (schedule, message) of a shortest violation | None"""
    obs, edges = graph["obs"], graph["edges"]
    payload = has_payload(cfg)
    relax = relaxed(cfg)
    v0 = monitor_init(obs[0])
    if v0:
        return [], v0
    start = (0, ())
    prev = {start: None}
    queue = deque([start])
    while queue:
        cur = queue.popleft()
        n, pend = cur
        for tok in toks:
            m = edges[n].get(tok)
            if m is None:
                continue
            pend2, viol = monitor_step(pend, obs[n], obs[m], tok, payload, relax)
            if viol is None and obs[n][0] and (cfg[0] == "flag" or (cfg[0] == "site" and cfg[1].startswith("flag"))):
                # set-while-set is a no-op: same successor state as without the attempt
                p, c = tok.split(":")
                if p[0] == "s" and edges[n].get(f"i:{c}") != m:
                    viol = "set() while the producer observes the flag set changed the state"
            if viol:
                return path_to(prev, cur) + [tok], viol
            nxt = (m, pend2)
            if nxt not in prev:
                prev[nxt] = (cur, tok)
                queue.append(nxt)
    # liveness: from every reachable state, `i:w` (both tick, consumer willing, no new attempt) drains the event
    # and gives the flag back to the producer within txd + rxd + 3 steps
    drain = "i:w" if "i:w" in toks else None
    if relax and cfg[1].startswith("exec"):
        drain = None  # a producer coroutine that is already inside exec() sends again without a new attempt
    if drain is not None:
        bound = cfg[2] + cfg[3] + 3 + (6 if relax else 0)
        for cur in list(prev):
            n, pend = cur
            for _ in range(bound):
                n = edges[n].get(drain)
                if n is None:
                    break
            if n is not None and not (obs[n][1] and not obs[n][2]):
                return path_to(prev, cur) + [drain] * bound, \
                    f"event not handed over / flag not released after {bound} steps with a willing consumer (liveness)"
    return None


def path_to(prev, node):
    out = []
    while prev[node] is not None:
        node, tok = prev[node]
        out.append(tok)
    return out[::-1]


# ---------------------------------------------------------------------------------------------------
# correspondence with the Lean step function on the graph (product exploration, one Lean call per level)
# ---------------------------------------------------------------------------------------------------


def fmt(v):
    return "-" if v is None else str(int(v))


def check_correspondence(graphs, cfgs, tokss):
    """-> {cfg: (schedule, expected, observed)} for the first (shortest) mismatch per config; number of pairs"""
    G = {cfg: ("g" if guard_of(cfg) else "n") for cfg in cfgs}
    frontier = []
    seen = {}
    prev = {}
    for cfg in cfgs:
        init = "0" * (cfg[2] + 1) + " " + "0" * (cfg[3] + 1) + " - -"
        node = (cfg, 0, init)
        seen[node] = True
        prev[node] = None
        frontier.append(node)
    bad = {}
    pairs = 0
    while frontier:
        reqs, meta = [], []
        for node in frontier:
            cfg, n, ms = node
            if cfg in bad:
                continue
            for tok in tokss[cfg]:
                m = graphs[cfg]["edges"][n].get(tok)
                if m is None:
                    continue
                reqs.append(f"step {G[cfg]} {ms} {model_token(tok)}")
                meta.append((node, tok, m))
        ans = lean_io.query("C15", reqs)
        frontier = []
        for (node, tok, m), a in zip(meta, ans):
            cfg, n, ms = node
            if cfg in bad:
                continue
            pairs += 1
            o0, o1 = graphs[cfg]["obs"][n], graphs[cfg]["obs"][m]
            if a == "bad-op":
                bad[cfg] = (path_to(prev, node) + [tok], "bad-op", str(o1))
                continue
            st, out = a.split(" | ")
            f = out.split(" ")
            exp = [f[0], str(1 - int(f[0])), f[1], str(1 - int(f[1])), f[2], str(1 - int(f[2])), f[3], f[4]]
            got = [fmt(x) for x in o1[:6]] + [str(int(o0[6] != o1[6])), str(int(o0[7] != o1[7]))]
            if has_payload(cfg):
                exp.append(st.split(" ")[3])
                got.append(fmt(o1[8]))
            if exp != got:
                bad[cfg] = (path_to(prev, node) + [tok], " ".join(exp), " ".join(got))
                continue
            nxt = (cfg, m, st)
            if nxt not in seen:
                seen[nxt] = True
                prev[nxt] = (node, tok)
                frontier.append(nxt)
    return bad, pairs


# ---------------------------------------------------------------------------------------------------
# random long schedules
# ---------------------------------------------------------------------------------------------------


def gen_schedule(rng, cfg, length, dw):
    same = is_same(cfg)
    coro = cfg[0] == "mbox" and cfg[1] == "coro"
    rp, rc = rng.choice([(1.0, 1.0), (0.5, 0.5), (0.9, 0.2), (0.2, 0.9), (0.1, 1.0), (1.0, 0.1), (0.6, 0.7)])
    pt, pw = rng.choice([(0.5, 0.5), (0.9, 0.9), (1.0, 1.0), (0.2, 0.8), (0.8, 0.2), (1.0, 0.3), (0.3, 1.0)])
    nxt = rng.randrange(1, 1 << dw)
    toks = []
    for _ in range(length):
        if rng.random() < 0.01:
            rp, rc = rng.choice([(1.0, 1.0), (0.5, 0.5), (0.9, 0.2), (0.2, 0.9), (0.05, 1.0), (1.0, 0.05)])
        tp = rng.random() < rp
        tc = tp if same else rng.random() < rc
        att = coro or rng.random() < pt
        wil = coro or rng.random() < pw
        if att:
            p = f"{'s' if tp else 'x'}{nxt}"
            nxt = nxt % ((1 << dw) - 1) + 1  # consecutive attempts carry distinct payloads 1..2^dw-1
        else:
            p = "i" if tp else "-"
        if coro and not tp:
            p = p if p[0] == "x" else "-"
        c = ("w" if wil else "u") if tc else ("y" if wil else "-")
        toks.append(f"{p}:{c}")
    return toks


def check_trace(cfg, toks, trace, model_line):
    """-> (index, message, is_property_violation) | None"""
    payload = has_payload(cfg)
    relax = relaxed(cfg)
    pend = ()
    cells = model_line.split(";")
    acc = rcv = 0
    v0 = monitor_init(trace[0])
    if v0:
        return -1, v0, True
    for k, tok in enumerate(toks):
        o0, o1 = trace[k], trace[k + 1]
        pend, viol = monitor_step(pend, o0, o1, tok, payload, relax)
        if viol:
            return k, viol, True
        if relax:
            continue  # start/exec protocol: no Lean tie (latched attempts / willingness), monitor only
        acc += o0[6] != o1[6]
        rcv += o0[7] != o1[7]
        f = cells[k].split(" ")
        exp = [f[0], f[1], f[2], f[3], f[4]] + ([f[5]] if payload else [])
        got = [fmt(o1[0]), fmt(o1[2]), fmt(o1[4]), str(acc), str(rcv)] + ([fmt(o1[8])] if payload else [])
        if exp != got:
            return k, f"model gives `{' '.join(exp)}` (pSet cSet oSet #accepted #received [payload]), design `{' '.join(got)}`", False
    return None


def shrink(toks, fails):
    toks = list(toks)
    n = 2
    while len(toks) >= 2:
        chunk = max(1, len(toks) // n)
        reduced = False
        for i in range(0, len(toks), chunk):
            cand = toks[:i] + toks[i + chunk:]
            if cand and fails(cand):
                toks, n, reduced = cand, max(n - 1, 2), True
                break
        if not reduced:
            if chunk == 1:
                break
            n = min(len(toks), n * 2)
    return toks


# ---------------------------------------------------------------------------------------------------


AFTER_SITES = ("end", "nested", "after")


def role_after_observation(c, msg):
    """KNOWN class (findings.d/C15.json): a delayed flag is observed in the process body and the first set() / clear()
    of that side is only converted afterwards, in the end-of-context phase: the `*_indirect` driver of the body
    observation is emitted before the role of the context is known and shows the outside view.  -> 'producer' |
    'consumer' | None.  Only the two symptoms of exactly this cause are matched, anything else stays a violation."""
    if c[0] in ("site", "samesite"):
        what, ps, cs, obs = c[1].split("|")
        if obs != "body":
            return None
        p_aff, c_aff = ps in AFTER_SITES, cs in AFTER_SITES
    elif c[0] == "exec":
        ps, cs = c[1].split("|")
        p_aff, c_aff = False, cs == "exec"   # make_after; the producer executor is a before-executor
    else:
        return None
    if p_aff and c[2] != 0 and msg.startswith(("producer observes clear although", "set accepted while the previous")):
        return "producer"
    if c_aff and c[3] != 0 and msg.startswith(("consumer observes set although", "receive without a pending")):
        return "consumer"
    return None


def same_sig(c):
    return "same-context-delay-accepted:" + (c[1].split(":")[1] if c[0] == "same" else c[1])


def cfg_name(cfg):
    return f"{cfg[0]}:{cfg[1]}:tx={cfg[2]}:rx={cfg[3]}"


def run(ctx: Ctx):
    rng = ctx.rng
    ctx.rule = ("wrapper entities around the real std.SyncFlag / std.Mailbox: producer and consumer context with "
                "independent step conditions (and a single-context variant), tx_delay x rx_delay in 0..3, two tracing "
                "orders of observation and action, guarded / unguarded / coroutine (upstream style) Mailbox use; "
                "(1) the complete reachable state graph of each emitted design over the per-clock alphabet "
                "{producer: no tick, idle, attempt(v)} x {consumer: no tick, unwilling, willing} is compared edge by "
                "edge with the Lean step function and model-checked against the exactly-once monitor; (2) random "
                "schedules with biased rate ratios; one case = one (design state, input) transition or one random "
                "schedule; non-trivial = the transition accepts or delivers an event / the schedule delivers >= 3 events")
    delays = [(t, r) for t in range(4) for r in range(4)]
    cfgs = []
    for t, r in delays:
        for v in ("check-first", "act-first"):
            cfgs.append(("flag", v, t, r))
        for v in ("guard", "noguard", "coro"):
            if ctx.quick and v == "coro" and (t + r) % 2 == 1:
                continue
            cfgs.append(("mbox", v, t, r))
    for v in SAME:
        cfgs.append(("same", v, 0, 0))
    # WHERE the operations are issued from: every non-body site meets every delay configuration on the producer
    # side (SyncFlag) and on the consumer side (Mailbox); partner site and placement of the observation rotate
    for k, (t, r) in enumerate(delays):
        for i, st in enumerate(SITES[1:], start=1):
            obs = "in" if (k + i) % 2 else "body"
            a = ("site", f"flag|{st}|{SITES[(i + k) % 6]}|{obs}", t, r)
            b = ("site", f"mbox|{SITES[(i + k + 3) % 6]}|{st}|{'body' if obs == 'in' else 'in'}", t, r)
            cfgs += [a if (k + i) % 2 == 0 else b] if ctx.quick else [a, b]
    same_sites = [("body", "end"), ("end", "body"), ("after", "before"), ("helper", "nested"), ("before", "after"), ("nested", "end")]
    for j, (ps, cs) in enumerate(same_sites):
        for what in ("flag", "mbox"):
            cfgs.append(("samesite", f"{what}|{ps}|{cs}|{'in' if j % 2 else 'body'}", 0, 0))
    # public start/exec protocol (the consumer / producer side is first used inside an executor)
    for (t, r) in ((0, 0), (1, 1), (2, 2), (0, 2), (3, 1), (2, 0)) if ctx.quick else delays:
        for v in ("body|exec", "exec|body", "exec|exec"):
            cfgs.append(("exec", v, t, r))
    # same-context use with a non-zero delay must be rejected ("std.SyncFlag with delay cannot be set and
    # cleared in the same context"); every accepted one is explored like the others
    same_delay = [("same", v, t, r) for v in SAME for (t, r) in ((0, 1), (1, 0), (1, 1), (0, 2), (2, 0))]
    same_delay += [("samesite", f"flag|{ps}|{cs}|{'in' if j % 2 else 'body'}", t, r)
                   for j, (ps, cs) in enumerate(same_sites[:4]) for (t, r) in ((0, 1), (1, 0), (2, 2))]
    DWG, DWR = 2, 4
    # thorough: separate designs with 4-bit payloads for the random schedules; quick reuses the 2-bit ones
    wide = [] if ctx.quick else [c for c in cfgs if has_payload(c) and c[0] in ("mbox", "same")]
    srcs = [(make_source(c, DWG), "W") for c in cfgs + same_delay] + [(make_source(c, DWR), "W") for c in wide]
    import time
    t0 = time.time()
    timing = ctx.extra.setdefault("timing_s", {})
    compiled = compile_many(srcs)
    timing["compile"] = round(time.time() - t0, 1)
    cg = dict(zip(cfgs + same_delay, compiled[: len(cfgs) + len(same_delay)]))
    cr = {c: cg[c] for c in cfgs}
    cr.update(zip(wide, compiled[len(cfgs) + len(same_delay):]))

    ok_cfgs = []
    for c in cfgs:
        if not cg[c]["ok"] or not cr[c]["ok"]:
            r = cg[c] if not cg[c]["ok"] else cr[c]
            ctx.report(f"compile:{cfg_name(c)}", f"legal use {cfg_name(c)} is rejected by the compiler: {r['errtype']}: {r['err'][-200:]}",
                       {"config": c, "source": make_source(c, DWG), "error": r})
        else:
            ok_cfgs.append(c)
    acc_req = [f"accepts 1 {c[2]} {c[3]}" for c in same_delay]
    acc_model = lean_io.query("C15", acc_req)
    accepted_bad = [c for c, a in zip(same_delay, acc_model) if cg[c]["ok"] and a == "0"]
    ctx.obligation("same-context use with a non-zero delay is rejected (model `accepts`)", not accepted_bad,
                   detail=f"{len(same_delay)} placements, accepted: {[cfg_name(c) for c in accepted_bad]}")
    for c in same_delay:
        ctx.case(key=("same-delay", c), nontrivial=True, kind="same-context+delay:" + ("accepted" if cg[c]["ok"] else "rejected"))

    # ---- (1) exhaustive state graphs
    payloads = (1, 2)
    explore = ok_cfgs + accepted_bad
    tokss = {c: alphabet(c, payloads) for c in explore}
    res = fork_map(explore_task, [(cg[c]["vhdl"], tokss[c], is_same(c), 20000) for c in explore], fresh=False, chunk=1)
    timing["graphs"] = round(time.time() - t0, 1)
    graphs = {}
    for c, r in zip(explore, res):
        if r[0] != "ok":
            ctx.report(f"sim-error:{cfg_name(c)}", f"emitted VHDL of {cfg_name(c)} cannot be executed: {r[1]}",
                       {"config": c, "source": make_source(c, DWG), "error": r[1]})
            continue
        graphs[c] = r[1]
        if r[1]["limit"]:
            ctx.notes.append(f"state graph of {cfg_name(c)} truncated at 20000 states")
    n_states = sum(len(g["obs"]) for g in graphs.values())
    n_edges = sum(len(e) for g in graphs.values() for e in g["edges"])
    prop_bad = {}
    known_bad = set()
    for c, g in graphs.items():
        v = check_property(g, c, tokss[c])
        for n, e in enumerate(g["edges"]):
            for tok, m in e.items():
                ev = (g["obs"][n][6] != g["obs"][m][6]) or (g["obs"][n][7] != g["obs"][m][7])
                ctx.case(key=(c, n, tok), nontrivial=ev, kind=f"graph:{c[0]}:{c[1]}")
        if v:
            sched, msg = v
            sig = f"{cfg_name(c)}:{' '.join(sched)}"
            if c[0] == "mbox" and c[1] == "noguard" and msg.startswith("received payload"):
                # one class for all delays: Mailbox.send while the flag is set replaces the pending payload
                sig = "mailbox-send-while-set-overwrites-pending-payload"
            if c in accepted_bad:
                sig = same_sig(c)
                msg = "use that must be rejected is accepted and then: " + msg
            side = role_after_observation(c, msg)
            if side:
                sig = f"role-established-after-observation:{side}"
            new = ctx.report(sig, f"{cfg_name(c)}: after the schedule `{' '.join(sched)}` (P:C per clock; P = - no tick | i idle | s<v> attempt, "
                                  f"C = - | u unwilling | w willing): {msg}",
                             {"mode": "schedule", "config": list(c), "dw": DWG, "schedule": sched, "message": msg, "source": make_source(c, DWG)})
            if new:
                prop_bad[c] = v
            else:
                known_bad.add(c)
    for c in accepted_bad:
        if c in graphs and c not in prop_bad:
            ctx.report(same_sig(c),
                       f"{cfg_name(c)} is accepted although SyncFlag documents that set and clear in one context need delay 0 "
                       "(no failing schedule found on the state graph)",
                       {"mode": "schedule", "config": list(c), "dw": DWG, "schedule": [], "source": make_source(c, DWG),
                        "correspondence": "model `accepts`"}, no_failing_input=True)
    ctx.obligation("exactly-once monitor holds on the complete reachable state graph of every emitted design (all schedules over the alphabet; safety + drain liveness)",
                   not prop_bad, detail=f"{len(graphs)} designs, {n_states} states, {n_edges} transitions, {len(prop_bad)} designs violate, "
                                        f"{len(known_bad)} designs reproduce a known finding (excluded from the ties below)")
    ctx.exhaustive = all(not g["limit"] for g in graphs.values())

    timing["monitor"] = round(time.time() - t0, 1)
    corr_cfgs = [c for c in ok_cfgs if c in graphs and not relaxed(c) and c not in known_bad]
    bad, pairs = check_correspondence(graphs, corr_cfgs, tokss)
    for c, (sched, exp, got) in bad.items():
        if c in prop_bad:
            continue  # already reported with a failing input
        ctx.report(f"corr:{cfg_name(c)}:{' '.join(sched)}",
                   f"{cfg_name(c)}: after `{' '.join(sched)}` the design shows `{got}` where CohdlVerif.C15.step gives `{exp}` "
                   "(pSet pClear cSet cClear oSet oClear accepted received [payload]); the exactly-once monitor found no failing schedule",
                   {"mode": "schedule", "config": list(c), "dw": DWG, "schedule": sched, "expected": exp, "observed": got,
                    "source": make_source(c, DWG), "correspondence": "emitted design = CohdlVerif.C15.step (theorems C15.* speak about that model)"},
                   no_failing_input=True)
    ctx.obligation("correspondence: every transition of every reachable (design state, model state) pair agrees with CohdlVerif.C15.step",
                   not bad, detail=f"{pairs} transitions of the product, {len(bad)} designs disagree")

    timing["product"] = round(time.time() - t0, 1)
    # ---- (2) random long schedules (wide payloads, counters)
    n_seq = ctx.scale(2, 8)
    length = ctx.scale(600, 2000)
    tasks, reqs, meta = [], [], []
    for c in ok_cfgs:
        extra_kind = c[0] in ("site", "samesite", "exec")
        for k in range(1 if (extra_kind and ctx.quick) else n_seq):
            L = length if k else max(60, length // 10)
            if extra_kind and ctx.quick:
                L = 300
            toks = gen_schedule(rng, c, L, DWR if c in wide else DWG)
            tasks.append((cr[c]["vhdl"], toks, is_same(c)))
            reqs.append(f"run {'g' if guard_of(c) else 'n'} {c[2]} {c[3]} " + " ".join(model_token(t) for t in toks))
            meta.append((c, toks))
    model = lean_io.query("C15", reqs)
    impl = fork_map(trace_task, tasks, fresh=False, chunk=4)
    rnd_bad = 0
    for (c, toks), mo, im, task in zip(meta, model, impl, tasks):
        if im[0] != "ok":
            ctx.report(f"sim-error:{cfg_name(c)}", f"emitted VHDL of {cfg_name(c)} cannot be executed: {im[1]}",
                       {"config": c, "source": make_source(c, DWR), "error": im[1]})
            rnd_bad += 1
            continue
        trace = im[1]
        nrcv = sum(1 for a, b in zip(trace, trace[1:]) if a[7] != b[7])
        ctx.case(key=(c, " ".join(toks)), nontrivial=nrcv >= 3, kind=f"random:{c[0]}:{c[1]}",
                 sample={"config": cfg_name(c), "schedule": toks[:16], "events_delivered": nrcv})
        ctx.dist[f"delivered:{min(nrcv // 10 * 10, 200)}+"] += 1
        r = check_trace(c, toks, trace, mo)
        if r is None or c in prop_bad or c in bad or c in known_bad:
            continue
        rnd_bad += 1
        if rnd_bad > 3:
            continue
        k, msg, is_prop = r
        G = "g" if guard_of(c) else "n"

        def fails(cand, c=c, vhdl=task[0], G=G, is_prop=is_prop):
            tr = trace_task((vhdl, cand, is_same(c)))
            mo2 = lean_io.query("C15", [f"run {G} {c[2]} {c[3]} " + " ".join(model_token(t) for t in cand)])[0]
            r2 = check_trace(c, cand, tr, mo2)
            return r2 is not None and r2[2] == is_prop

        small = shrink(toks[: k + 1], fails)
        tr = trace_task((task[0], small, is_same(c)))
        mo2 = lean_io.query("C15", [f"run {G} {c[2]} {c[3]} " + " ".join(model_token(t) for t in small)])[0]
        k2, msg2, _ = check_trace(c, small, tr, mo2)
        ctx.report(f"{'rand' if is_prop else 'corr'}:{cfg_name(c)}:{' '.join(small)}",
                   f"{cfg_name(c)} (4-bit payload): after `{' '.join(small)}` at clock {k2}: {msg2}",
                   {"mode": "schedule", "config": list(c), "dw": (DWR if c in wide else DWG), "schedule": small, "message": msg2,
                    "source": make_source(c, DWR if c in wide else DWG),
                    **({} if is_prop else {"correspondence": "emitted design = CohdlVerif.C15.run"})},
                   no_failing_input=not is_prop)
    ctx.obligation("random schedules: traces = CohdlVerif.C15.run and event logs satisfy the exactly-once monitor",
                   rnd_bad == 0, detail=f"{len(tasks)} schedules of up to {length} steps, {rnd_bad} failing")
    timing["random"] = round(time.time() - t0, 1)
    ctx.extra["state_graphs"] = {"designs": len(graphs), "states": n_states, "transitions": n_edges, "product_transitions": pairs}
    ctx.notes.append("two clock domains are modelled as asynchronous interleaving of two contexts on one clock with independent "
                     "step conditions; analog metastability is not modelled")


def replay(ctx, data):
    r = data["replay"]
    cfg = tuple(r["config"])
    dw = r.get("dw", 2)
    toks = r["schedule"]
    src = make_source(cfg, dw)
    c = compile_many([(src, "W")])[0]
    if not c["ok"]:
        print("wrapper rejected:", c["errtype"], c["err"][-200:])
        exp = lean_io.query("C15", [f"accepts {1 if is_same(cfg) else 0} {cfg[2]} {cfg[3]}"])[0]
        print("model accepts:", exp)
        return 0 if exp == "0" else 1
    if is_same(cfg) and (cfg[2] or cfg[3]):
        print("same-context use with a delay is accepted (must be rejected)")
    trace = trace_task((c["vhdl"], toks, is_same(cfg)))
    G = "g" if guard_of(cfg) else "n"
    mo = lean_io.query("C15", [f"run {G} {cfg[2]} {cfg[3]} " + " ".join(model_token(t) for t in toks)])[0] if toks else ""
    print("schedule:", " ".join(toks))
    print("columns : " + " ".join(OBS))
    for k, o in enumerate(trace):
        print(f"  clock {k:3d} {toks[k - 1] if k else 'init':8s}", " ".join(fmt(x) for x in o))
    print("model   :", mo)
    res = check_trace(cfg, toks, trace, mo)
    if is_same(cfg) and (cfg[2] or cfg[3]) and res is not None and not res[2]:
        res = None  # the model rejects this use: only the exactly-once monitor applies to the accepted design
    if res is None and toks:
        # liveness replays end with the drain steps: the flag must be released at the end
        o = trace[-1]
        if not (o[1] and not o[2]) and all(t == "i:w" for t in toks[-(cfg[2] + cfg[3] + 3):]):
            res = (len(toks), "flag not released after the drain steps (liveness)", True)
    if is_same(cfg) and (cfg[2] or cfg[3]):
        res = res or (0, "accepted", True)
    print("result  :", res)
    return 0 if res is None else 1
