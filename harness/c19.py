"""C19 - fixed-point arithmetic is exact and resize follows the selected styles.

Ties (all against the working tree of COHDL_REPO):
  (a) Python level: SFixed / UFixed objects of cohdl (inside forked tasks) on the complete grid of
      source format x target format x round style x overflow style x raw value, compared with
        * the Lean SPEC `specResizeS/U` (exact arithmetic; this is the property: a difference or a raise is a
          failing input) and
        * the Lean MIRROR `resizeS/U` of `resize_fn` (agreement including raise / no raise; the mirror is proved
          equal to the spec in Props/C19.lean);
      the same for `+ - *` (result format and raw value vs the exact result), the constructors (python numbers,
      Signed / Unsigned, other formats) and `__eq__`.
  (b) through the compiler: wrapper entities doing resize / + - * on port-fed values, compiled by the real
      compiler, the emitted VHDL executed by harness/vhdl_sim.py for every input value, compared with the spec.
An independent Fraction-based oracle in this file cross-checks the Lean spec on every case (so a wrong spec
cannot hide behind an equally wrong mirror).
"""

import fractions
import itertools

from .common import Ctx, InfraError, compile_many, fork_map, import_cohdl
from . import lean_io
from .vhdl_sim import Design

F = fractions.Fraction
STYLES = [("R", "S"), ("R", "W"), ("T", "S"), ("T", "W")]
RNAME = {"R": "ROUND", "T": "TRUNCATE"}
ONAME = {"S": "SATURATE", "W": "WRAP"}


# ---------------------------------------------------------------------------------------------------
# grids and the independent oracle
# ---------------------------------------------------------------------------------------------------

def formats(bound, max_width):
    return [(l, r) for l in range(-bound, bound + 1) for r in range(-bound, l + 1) if l - r + 1 <= max_width]


def raw_values(signed, w):
    return list(range(-(1 << (w - 1)), 1 << (w - 1))) if signed else list(range(1 << w))


def oracle_resize(signed, r, v, tl, tr, rs, os):
    """exact rational arithmetic: floor / round-half-even, then wrap / clamp (independent of the Lean spec)"""
    tw = tl - tr + 1
    scaled = F(v) * F(2) ** r / F(2) ** tr
    fl = scaled.numerator // scaled.denominator
    if rs == "T":
        q = fl
    else:
        rem = scaled - fl
        q = fl + 1 if (rem > F(1, 2) or (rem == F(1, 2) and fl % 2 == 1)) else fl
    lo, hi = (-(1 << (tw - 1)), (1 << (tw - 1)) - 1) if signed else (0, (1 << tw) - 1)
    if os == "S":
        return max(lo, min(hi, q))
    return (q - lo) % (1 << tw) + lo


def relation(l, r, tl, tr):
    """classifies a resize by the INPUT (relation of the two formats), never by the outcome"""
    if (l, r) == (tl, tr):
        return "same"
    if l < tr:
        return "disjoint-above"
    if tl < r:
        return "disjoint-below"
    a = "ovf" if l > tl else ("lefteq" if l == tl else "noovf")
    b = "cut" if tr > r else "nocut"
    c = ":tw1" if tl == tr else ""
    d = ":w1" if l == r else ""
    return f"{a}:{b}{c}{d}"


# ---------------------------------------------------------------------------------------------------
# (a) python level tasks (run in forked children that imported cohdl from the tree under test)
# ---------------------------------------------------------------------------------------------------

def _types(signed):
    import_cohdl()
    from cohdl import Signed, Unsigned
    from cohdl.std import SFixed, UFixed

    return (SFixed, Signed) if signed else (UFixed, Unsigned)


def _styles():
    from cohdl.std import FixedRoundStyle as R, FixedOverflowStyle as O

    return {"R": R.ROUND, "T": R.TRUNCATE}, {"S": O.SATURATE, "W": O.WRAP}


def py_resize_task(item):
    """item = (signed, l, r, [(tl, tr)...]) -> {(tl,tr,rs,os): 'v v E ...'} over all raw values ascending"""
    signed, l, r, targets = item
    T, RT = _types(signed)
    RS, OS = _styles()
    w = l - r + 1
    out = {}
    for (tl, tr) in targets:
        for rs, os in STYLES:
            res = []
            for v in raw_values(signed, w):
                try:
                    x = T[l:r](raw=RT[w](v))
                    y = x.resize(tl, tr, round_style=RS[rs], overflow_style=OS[os])
                    if type(y) is not T[tl:tr]:
                        res.append("F")  # wrong result format
                    else:
                        res.append(str(y._val.to_int()))
                except BaseException:  # noqa
                    res.append("E")
            out[f"{tl} {tr} {rs} {os}"] = " ".join(res)
    return out


def py_arith_task(item):
    """item = (signed, l1, r1, [(l2, r2)...]) -> {(l2,r2,op,v1,v2): 'l r raw' | 'E'}"""
    signed, l1, r1, others = item
    T, RT = _types(signed)
    w1 = l1 - r1 + 1
    out = {}
    for (l2, r2) in others:
        w2 = l2 - r2 + 1
        for v1 in raw_values(signed, w1):
            for v2 in raw_values(signed, w2):
                for op in ("add", "sub", "mul"):
                    try:
                        a = T[l1:r1](raw=RT[w1](v1))
                        b = T[l2:r2](raw=RT[w2](v2))
                        c = a + b if op == "add" else a - b if op == "sub" else a * b
                        assert isinstance(c, T)
                        res = f"{c.left()} {c.right()} {c._val.to_int()}"
                    except BaseException:  # noqa
                        res = "E"
                    out[f"{l2} {r2} {op} {v1} {v2}"] = res
    return out


def py_ctor_task(item):
    """item = (signed, l, r, requests) ; request = ('num', m, e, isfloat) | ('signed'|'unsigned', sw, v) |
    ('fixed', sl, sr, v) | ('eq', v, m, e, isfloat) -> list of 'int' | 'E' | '1'/'0'"""
    signed, l, r, reqs = item
    T, RT = _types(signed)
    from cohdl import Signed, Unsigned

    w = l - r + 1
    out = []
    for q in reqs:
        try:
            if q[0] == "num":
                _, m, e, isf = q
                val = float(m) * 2.0 ** e if isf else m * 2 ** e
                out.append(str(T[l:r](val)._val.to_int()))
            elif q[0] in ("signed", "unsigned"):
                _, sw, v = q
                src = (Signed if q[0] == "signed" else Unsigned)[sw](v)
                out.append(str(T[l:r](src)._val.to_int()))
            elif q[0] == "fixed":
                _, sl, sr, v = q
                src = T[sl:sr](raw=RT[sl - sr + 1](v))
                out.append(str(T[l:r](src)._val.to_int()))
            elif q[0] == "eq":
                _, v, m, e, isf = q
                val = float(m) * 2.0 ** e if isf else m * 2 ** e
                got = T[l:r](raw=RT[w](v)) == val
                out.append("1" if got is True else "0" if got is False else "?")
            elif q[0] == "eqfix":
                _, v1, v2 = q
                got = T[l:r](raw=RT[w](v1)) == T[l:r](raw=RT[w](v2))
                out.append("1" if got is True else "0" if got is False else "?")
        except BaseException:  # noqa
            out.append("E")
    return out


def py_task(item):
    kind, payload = item
    return {"resize": py_resize_task, "arith": py_arith_task, "ctor": py_ctor_task}[kind](payload)


def sim_task(item):
    kind, payload = item
    return {"resize": sim_resize_task, "arith": sim_arith_task}[kind](payload)


# ---------------------------------------------------------------------------------------------------
# (b) through the compiler
# ---------------------------------------------------------------------------------------------------

RESIZE_SRC = '''
import cohdl
from cohdl import std, Bit, BitVector, Signed, Unsigned, Port
from cohdl.std import FixedRoundStyle as R, FixedOverflowStyle as O

class W(cohdl.Entity):
    inp = Port.input({RT}[{w}])
{ports}

    def architecture(self):
        @std.concurrent
        def logic():
            x = std.{T}[{l}:{r}](raw=self.inp)
{body}
'''

ARITH_SRC = '''
import cohdl
from cohdl import std, Bit, BitVector, Signed, Unsigned, Port

class W(cohdl.Entity):
    a = Port.input({RT}[{w1}])
    b = Port.input({RT}[{w2}])
    o_add = Port.output({RT}[{wa}])
    o_sub = Port.output({RT}[{wa}])
    o_mul = Port.output({RT}[{wm}])

    def architecture(self):
        @std.concurrent
        def logic():
            x = std.{T}[{l1}:{r1}](raw=self.a)
            y = std.{T}[{l2}:{r2}](raw=self.b)
            self.o_add <<= (x + y)._val
            self.o_sub <<= (x - y)._val
            self.o_mul <<= (x * y)._val
'''


def resize_design(signed, l, r, targets):
    T, RT = ("SFixed", "Signed") if signed else ("UFixed", "Unsigned")
    ports, body, names = [], [], []
    for i, (tl, tr) in enumerate(targets):
        for rs, os in STYLES:
            n = f"o{i}_{rs}{os}".lower()
            names.append((n, tl, tr, rs, os))
            ports.append(f"    {n} = Port.output({RT}[{tl - tr + 1}])")
            body.append(f"            self.{n} <<= x.resize({tl}, {tr}, round_style=R.{RNAME[rs]}, overflow_style=O.{ONAME[os]})._val")
    src = RESIZE_SRC.format(T=T, RT=RT, w=l - r + 1, l=l, r=r, ports="\n".join(ports), body="\n".join(body))
    return src, names


def sim_resize_task(item):
    """item = (vhdl, signed, w, [port names]) -> {port: 'v v - ...'} over all input values ascending"""
    vhdl, signed, w, names = item
    d = Design(vhdl)
    d.set("inp", 0)
    d.initialise()
    out = {n: [] for n in names}
    for v in raw_values(signed, w):
        d.set("inp", v)
        d.settle()
        for n in names:
            g = d.get(n)
            out[n].append("-" if g is None else str(g))
    return {n: " ".join(x) for n, x in out.items()}


def sim_arith_task(item):
    vhdl, signed, w1, w2 = item
    d = Design(vhdl)
    d.set("a", 0)
    d.set("b", 0)
    d.initialise()
    out = []
    for v1 in raw_values(signed, w1):
        for v2 in raw_values(signed, w2):
            d.set("a", v1)
            d.set("b", v2)
            d.settle()
            out.append((v1, v2, d.get("o_add"), d.get("o_sub"), d.get("o_mul")))
    return out


# ---------------------------------------------------------------------------------------------------
# the check
# ---------------------------------------------------------------------------------------------------

def chunks(xs, n):
    return [xs[i:i + n] for i in range(0, len(xs), n)]


def check_resize_python(ctx, fmts):
    """complete grid fmts x fmts x styles x raw values at python level"""
    tasks, lines, keys = [], [], []
    for signed in (True, False):
        for (l, r) in fmts:
            tasks.append((signed, l, r, fmts))
            for (tl, tr) in fmts:
                for rs, os in STYLES:
                    lines.append(f"resize {'S' if signed else 'U'} {l} {r} {tl} {tr} {rs} {os}")
                    keys.append((signed, l, r, tl, tr, rs, os))
    return [("resize", t) for t in tasks], lines, lambda model, impl: _eval_resize(ctx, tasks, keys, model, impl)


def _eval_resize(ctx, tasks, keys, model, impl):
    impl_by = {}
    for t, res in zip(tasks, impl):
        if res[0] != "ok":
            raise InfraError(f"python-level resize task crashed: {res[1]}\n{res[2]}")
        for k, v in res[1].items():
            impl_by[(t[0], t[1], t[2], k)] = v
    n_cases = n_spec_bad = n_mirror_bad = n_oracle_bad = 0
    worst = {}  # signature -> (size, info)
    mirror_only = []
    for (signed, l, r, tl, tr, rs, os), mline in zip(keys, model):
        if mline == "bad-op":
            raise InfraError(f"model rejected resize request {(signed, l, r, tl, tr, rs, os)}")
        got = impl_by[(signed, l, r, f"{tl} {tr} {rs} {os}")].split(" ")
        pairs = mline.split(" ")
        vals = raw_values(signed, l - r + 1)
        rel = relation(l, r, tl, tr)
        sg = "S" if signed else "U"
        ctx.case(key=(sg, l, r, tl, tr, rs, os), nontrivial=(rel != "same"), kind=f"resize:{sg}:{rel.split(':tw1')[0].split(':w1')[0]}:{rs}{os}",
                 sample={"op": "resize", "type": sg + "Fixed", "src": [l, r], "dst": [tl, tr], "round": RNAME[rs],
                         "overflow": ONAME[os], "impl_raw_results": got[:8]})
        for v, g, p in zip(vals, got, pairs):
            n_cases += 1
            mirror, spec = p.split("/")
            if int(spec) != oracle_resize(signed, r, v, tl, tr, rs, os):
                n_oracle_bad += 1
            if g != spec:
                n_spec_bad += 1
                sig = f"resize:{sg}:{rel}:{RNAME[rs]}:{ONAME[os]}:{'raises' if g == 'E' else 'wrong-format' if g == 'F' else 'wrong-value'}"
                size = (l - r + 1) + (tl - tr + 1), abs(v), abs(l) + abs(r) + abs(tl) + abs(tr)
                if sig not in worst or size < worst[sig][0]:
                    worst[sig] = (size, dict(kind="resize", signed=signed, l=l, r=r, v=v, tl=tl, tr=tr, rs=rs, os=os,
                                             expected=int(spec), observed=g, mirror=mirror))
            if g != mirror:
                n_mirror_bad += 1
                if g == spec and len(mirror_only) < 3:
                    mirror_only.append(dict(kind="resize", signed=signed, l=l, r=r, v=v, tl=tl, tr=tr, rs=rs, os=os,
                                            expected=int(spec), observed=g, mirror=mirror))
    for sig, (_, info) in sorted(worst.items()):
        t = "SFixed" if info["signed"] else "UFixed"
        ctx.report(sig, f"{t}[{info['l']}:{info['r']}](raw={info['v']}).resize({info['tl']}, {info['tr']}, {RNAME[info['rs']]}, "
                        f"{ONAME[info['os']]}) gives {'an exception' if info['observed'] == 'E' else info['observed']}, "
                        f"the exact result is raw {info['expected']}", info)
    for info in mirror_only:
        ctx.report(f"mirror:resize:{'S' if info['signed'] else 'U'}:{relation(info['l'], info['r'], info['tl'], info['tr'])}:{info['rs']}{info['os']}",
                   "resize_fn agrees with the spec here but not with the Lean mirror Model/C19.lean (resizeS/resizeU): the "
                   "theorem C19.resize_spec no longer speaks about this code", {**info, "broken": "correspondence resize_fn = resizeS/resizeU"},
                   no_failing_input=True)
    ctx.obligation("spec cross-check: Lean specResizeS/U = independent Fraction oracle on every explored case", n_oracle_bad == 0,
                   detail=f"{n_cases} cases, {n_oracle_bad} differences")
    if n_oracle_bad:
        ctx.report("spec-oracle:resize", "the Lean spec and the independent python oracle disagree (machinery defect)", {"kind": "oracle"},
                   no_failing_input=True)
    ctx.obligation("property: SFixed/UFixed.resize (python level) = Lean spec on the complete grid", n_spec_bad == 0,
                   detail=f"{n_cases} cases, {n_spec_bad} differences")
    ctx.obligation("correspondence: SFixed/UFixed.resize_fn = Lean mirror resizeS/resizeU incl. raise/no-raise", n_mirror_bad == 0,
                   detail=f"{n_cases} cases, {n_mirror_bad} differences")
    ctx.extra["resize_python_cases"] = n_cases


def exact_arith(op, r1, v1, r2, v2):
    a, b = F(v1) * F(2) ** r1, F(v2) * F(2) ** r2
    return a + b if op == "add" else a - b if op == "sub" else a * b


def check_arith_python(ctx, fmts):
    tasks, lines, keys = [], [], []
    for signed in (True, False):
        for (l1, r1) in fmts:
            tasks.append((signed, l1, r1, fmts))
            for (l2, r2) in fmts:
                for v1 in raw_values(signed, l1 - r1 + 1):
                    for v2 in raw_values(signed, l2 - r2 + 1):
                        for op in ("add", "sub", "mul"):
                            lines.append(f"arith {'S' if signed else 'U'} {op} {l1} {r1} {v1} {l2} {r2} {v2}")
                            keys.append((signed, op, l1, r1, v1, l2, r2, v2))
    return [("arith", t) for t in tasks], lines, lambda model, impl: _eval_arith(ctx, tasks, keys, model, impl)


def _eval_arith(ctx, tasks, keys, model, impl):
    impl_by = {}
    for t, res in zip(tasks, impl):
        if res[0] != "ok":
            raise InfraError(f"python-level arithmetic task crashed: {res[1]}\n{res[2]}")
        for k, v in res[1].items():
            impl_by[(t[0], t[1], t[2], k)] = v
    n = bad = mbad = 0
    worst = {}
    for (signed, op, l1, r1, v1, l2, r2, v2), mline in zip(keys, model):
        n += 1
        mirror, spec = [x.strip() for x in mline.split("/")]
        num, e = [int(x) for x in spec.split(" ")]
        exact = F(num) * F(2) ** e
        assert exact == exact_arith(op, r1, v1, r2, v2), "Lean specArith differs from the Fraction oracle"
        g = impl_by[(signed, l1, r1, f"{l2} {r2} {op} {v1} {v2}")]
        sg = "S" if signed else "U"
        if (v1, v2) == (0, 0):
            ctx.case(key=("arith", sg, op, l1, r1, l2, r2), kind=f"arith:{sg}:{op}")
        ok = False
        if g != "E":
            gl, gr, graw = [int(x) for x in g.split(" ")]
            val = F(graw) * F(2) ** gr
            want = exact
            if not signed and op == "sub":
                want = exact % (F(2) ** (gl + 1))  # UFixed subtraction wraps modulo the result range
            inrange = (-(1 << (gl - gr)) <= graw < (1 << (gl - gr))) if signed else (0 <= graw < (1 << (gl - gr + 1)))
            ok = val == want and inrange
        if not ok:
            bad += 1
            sig = f"arith:{sg}:{op}:{'raises' if g == 'E' else 'inexact'}"
            size = (l1 - r1 + l2 - r2, abs(v1) + abs(v2))
            if sig not in worst or size < worst[sig][0]:
                worst[sig] = (size, dict(kind="arith", signed=signed, op=op, l1=l1, r1=r1, v1=v1, l2=l2, r2=r2, v2=v2,
                                         expected=str(exact), observed=g))
        if g != mirror:
            mbad += 1
            if ok:
                ctx.report(f"mirror:arith:{sg}:{op}", "the result of the operator is exact but differs from the Lean mirror arithS/arithU "
                           "(e.g. another result format): theorem C19.*_exact no longer speaks about this code",
                           dict(kind="arith", signed=signed, op=op, l1=l1, r1=r1, v1=v1, l2=l2, r2=r2, v2=v2, mirror=mirror, observed=g),
                           no_failing_input=True)
    for sig, (_, info) in sorted(worst.items()):
        t = "SFixed" if info["signed"] else "UFixed"
        ctx.report(sig, f"{t}[{info['l1']}:{info['r1']}](raw={info['v1']}) {info['op']} {t}[{info['l2']}:{info['r2']}](raw={info['v2']}) gives "
                        f"(left right raw) = {info['observed']}, exact value {info['expected']}", info)
    ctx.obligation("property: SFixed/UFixed + - * (python level) represent the exact result", bad == 0, detail=f"{n} cases, {bad} differences")
    ctx.obligation("correspondence: SFixed/UFixed + - * = Lean mirror arithS/arithU (result format and raw value)", mbad == 0,
                   detail=f"{n} cases, {mbad} differences")


def check_ctor_python(ctx, fmts):
    """constructors and __eq__"""
    tasks, lines, meta = [], [], []
    for signed in (True, False):
        sg = "S" if signed else "U"
        for (l, r) in fmts:
            w = l - r + 1
            reqs = []
            lo, hi = (-(1 << (w - 1)), (1 << (w - 1)) - 1) if signed else (0, (1 << w) - 1)
            # python numbers m * 2^e around the format's range and granularity
            nums = set()
            for e in (r - 1, r, r + 1, 0):
                for m in range(-(1 << (w + 1)) - 2, (1 << (w + 1)) + 3):
                    if abs(m) <= 40:
                        nums.add((m, e))
            for (m, e) in sorted(nums):
                for isf in (False, True):
                    if not isf and e < 0 and m % (1 << -e) != 0:
                        continue  # not a python int
                    if not isf and e < 0:
                        m2, e2 = m >> -e, 0
                    else:
                        m2, e2 = m, e
                    reqs.append(("num", m2, e2, isf))
                    lines.append(f"ctor {sg} num {l} {r} {m2} {e2}")
                    meta.append((signed, l, r, reqs[-1]))
                    for v in sorted({lo, hi, 0, min(hi, 1), max(lo, -1)} | set(raw_values(signed, w)[:: max(1, (1 << w) // 4)])):
                        reqs.append(("eq", v, m2, e2, isf))
                        lines.append(f"eq {sg} {l} {r} {v} {m2} {e2}")
                        meta.append((signed, l, r, reqs[-1]))
            for sw in (1, 2, 3, 4):
                for kind, s2 in (("signed", True), ("unsigned", False)):
                    for v in raw_values(s2, sw):
                        reqs.append((kind, sw, v))
                        lines.append(f"ctor {sg} {kind} {l} {r} {sw} {v}")
                        meta.append((signed, l, r, reqs[-1]))
            for (sl, sr) in fmts:
                if sl - sr + 1 > 3 and (sl, sr) != (l, r):
                    continue
                for v in raw_values(signed, sl - sr + 1):
                    reqs.append(("fixed", sl, sr, v))
                    lines.append(f"ctor {sg} fixed {l} {r} {sl} {sr} {v}")
                    meta.append((signed, l, r, reqs[-1]))
            for v1 in raw_values(signed, w):
                for v2 in raw_values(signed, w):
                    reqs.append(("eqfix", v1, v2))
                    lines.append(None)
                    meta.append((signed, l, r, reqs[-1]))
            tasks.append((signed, l, r, reqs))
    qlines = [x for x in lines if x is not None]
    return [("ctor", t) for t in tasks], qlines, lambda model, impl: _eval_ctor(ctx, tasks, lines, meta, model, impl)


def _eval_ctor(ctx, tasks, lines, meta, answers, impl):
    answers = iter(answers)
    model = [next(answers) if x is not None else None for x in lines]
    flat = []
    for t, res in zip(tasks, impl):
        if res[0] != "ok":
            raise InfraError(f"python-level constructor task crashed: {res[1]}\n{res[2]}")
        flat.extend(res[1])
    assert len(flat) == len(meta) == len(model)
    n = bad = mbad = 0
    worst = {}

    def fail(sig, size, info, text):
        if sig not in worst or size < worst[sig][0]:
            worst[sig] = (size, info, text)

    for (signed, l, r, q), g, mo in zip(meta, flat, model):
        n += 1
        sg = "S" if signed else "U"
        T = sg + "Fixed"
        w = l - r + 1
        lo, hi = (-(1 << (w - 1)), (1 << (w - 1)) - 1) if signed else (0, (1 << w) - 1)
        info = dict(kind="ctor", signed=signed, l=l, r=r, request=list(q), observed=g, mirror=mo)
        if q[0] == "num":
            _, m, e, isf = q
            x = F(m) * F(2) ** e
            scaled = x / F(2) ** r
            representable = scaled.denominator == 1 and lo <= scaled <= hi
            ctx.case(key=("ctor", sg, l, r, "num", m, e, isf), nontrivial=representable, kind=f"ctor:{sg}:{'float' if isf else 'int'}")
            if representable and g != str(int(scaled)):
                bad += 1
                fail(f"ctor:{sg}:{'float' if isf else 'int'}:representable", (w, abs(m)), {**info, "expected": int(scaled)},
                     f"{T}[{l}:{r}]({m}*2**{e}) gives raw {g}, the number is representable with raw {int(scaled)}")
        elif q[0] in ("signed", "unsigned"):
            _, sw, v = q
            ctx.case(key=("ctor", sg, l, r, q[0], sw, v), nontrivial=(g != "E"), kind=f"ctor:{sg}:{q[0]}")
            slo, shi = (-(1 << (sw - 1)), (1 << (sw - 1)) - 1) if q[0] == "signed" else (0, (1 << sw) - 1)
            # the source TYPE fits the target format: every value of it is representable
            type_fits = r <= 0 and lo <= slo * (1 << max(0, -r)) and shi * (1 << max(0, -r)) <= hi and not (q[0] == "signed" and not signed)
            if g != "E" and F(int(g)) * F(2) ** r != v:
                bad += 1
                fail(f"ctor:{sg}:{q[0]}:wrong-value", (w + sw, abs(v)), {**info, "expected": str(F(v) / F(2) ** r)},
                     f"{T}[{l}:{r}]({q[0].capitalize()}[{sw}]({v})) gives raw {g} which is not the number {v}")
            elif g == "E" and type_fits:
                bad += 1
                fail(f"ctor:{sg}:{q[0]}:rejects-fitting-type", (w + sw, abs(v)), info,
                     f"{T}[{l}:{r}]({q[0].capitalize()}[{sw}]({v})) raises although every {q[0].capitalize()}[{sw}] is representable")
        elif q[0] == "fixed":
            _, sl, sr, v = q
            covers = l >= sl and r <= sr
            ctx.case(key=("ctor", sg, l, r, "fixed", sl, sr, v), nontrivial=covers and (sl, sr) != (l, r), kind=f"ctor:{sg}:fixed:{'covers' if covers else 'nocover'}")
            x = F(v) * F(2) ** sr
            if g != "E" and F(int(g)) * F(2) ** r != x:
                bad += 1
                fail(f"ctor:{sg}:fixed:wrong-value", (w + sl - sr, abs(v)), {**info, "expected": str(x / F(2) ** r)},
                     f"{T}[{l}:{r}]({T}[{sl}:{sr}](raw={v})) gives raw {g} which is not the number {x}")
            elif g == "E" and covers:
                bad += 1
                rel = "same-right" if r == sr else "finer-right"
                fail(f"ctor:{sg}:fixed:{rel}:rejects-covered-format", (w + sl - sr, abs(v)), info,
                     f"{T}[{l}:{r}]({T}[{sl}:{sr}](raw={v})) raises although [{l}:{r}] covers [{sl}:{sr}]")
        elif q[0] == "eq":
            _, v, m, e, isf = q
            x = F(m) * F(2) ** e
            me = F(v) * F(2) ** r
            inrange = lo * F(2) ** r <= x <= hi * F(2) ** r
            ctx.case(key=("eq", sg, l, r, v, m, e, isf), nontrivial=inrange, kind=f"eq:{sg}:{'float' if isf else 'int'}")
            want = "1" if me == x else "0"
            if g == "E":
                if inrange:
                    bad += 1
                    fail(f"eq:{sg}:number-in-range:raises", (w, abs(m)), {**info, "expected": want},
                         f"{T}[{l}:{r}](raw={v}) == {m}*2**{e} raises")
            elif g != want:
                bad += 1
                rep = (x / F(2) ** r).denominator == 1
                fail(f"eq:{sg}:{'representable' if rep else 'unrepresentable'}-number:wrong", (w, abs(m), abs(v)), {**info, "expected": want},
                     f"{T}[{l}:{r}](raw={v}) == {m}*2**{e} gives {g}; the numbers are {me} and {x}")
        elif q[0] == "eqfix":
            _, v1, v2 = q
            ctx.case(key=("eqfix", sg, l, r, v1, v2), nontrivial=True, kind=f"eq:{sg}:fixed")
            want = "1" if v1 == v2 else "0"
            mo = want  # same format: the mirror is the comparison of the raw values
            if g != want:
                bad += 1
                fail(f"eq:{sg}:same-format:wrong", (w, abs(v1) + abs(v2)), {**info, "expected": want},
                     f"{T}[{l}:{r}](raw={v1}) == {T}[{l}:{r}](raw={v2}) gives {g}")
        if mo is not None and g != mo:
            mbad += 1
            if len([1 for s in worst if s.startswith("mirror:")]) < 3:
                fail(f"mirror:{q[0]}:{sg}", (w,), {**info, "broken": "correspondence constructor / __eq__ = Lean mirror"},
                     f"{T}[{l}:{r}] request {q}: implementation gives {g}, Lean mirror {mo}")
    for sig, (_, info, text) in sorted(worst.items()):
        if sig.startswith("mirror:"):
            # only a broken correspondence when no property failure explains it
            if bad == 0:
                ctx.report(sig, text, info, no_failing_input=True)
        else:
            ctx.report(sig, text, info)
    ctx.obligation("property: constructors preserve representable numbers / accept covered types, __eq__ compares numbers (python level)",
                   bad == 0, detail=f"{n} cases, {bad} differences")
    ctx.obligation("correspondence: constructors and __eq__ = Lean mirror ctor*/eqNum* incl. raise/no-raise", mbad == 0,
                   detail=f"{n} cases, {mbad} differences")


def check_vhdl(ctx, fmts, n_src, n_tgt, n_arith):
    rng = ctx.rng
    # --- resize
    designs, info = [], []
    pool = [(s, l, r) for s in (True, False) for (l, r) in fmts]
    for (signed, l, r) in rng.sample(pool, min(n_src, len(pool))):
        # targets: one of every relation class first, then random ones
        by_rel = {}
        cands = list(fmts)
        rng.shuffle(cands)
        for t in cands:
            by_rel.setdefault(relation(l, r, *t).split(":w1")[0], t)
        targets = list(by_rel.values())[:n_tgt]
        src, names = resize_design(signed, l, r, targets)
        designs.append((src, "W"))
        info.append((signed, l, r, names, src))
    pool2 = [(s, a, b) for s in (True, False) for a in fmts for b in fmts if a[0] - a[1] + b[0] - b[1] + 2 <= 7]
    arith = rng.sample(pool2, min(n_arith, len(pool2)))
    for (signed, (l1, r1), (l2, r2)) in arith:
        T, RT = ("SFixed", "Signed") if signed else ("UFixed", "Unsigned")
        w1, w2 = l1 - r1 + 1, l2 - r2 + 1
        wa = max(l1, l2) + 1 - min(r1, r2) + 1
        designs.append((ARITH_SRC.format(T=T, RT=RT, w1=w1, w2=w2, wa=wa, wm=w1 + w2, l1=l1, r1=r1, l2=l2, r2=r2), "W"))
    compiled = compile_many(designs)
    n_res = len(info)
    # designs with a rejected output are recompiled per output so that the other outputs are still checked
    sims, sim_meta = [], []
    bad = n = 0
    worst = {}

    def fail(sig, size, inf, text):
        if sig not in worst or size < worst[sig][0]:
            worst[sig] = (size, inf, text)

    retry, retry_meta = [], []
    for (signed, l, r, names, src), c in zip(info, compiled[:n_res]):
        if c["ok"]:
            sims.append((c["vhdl"], signed, l - r + 1, [x[0] for x in names]))
            sim_meta.append((signed, l, r, names, src))
        else:
            for nm in names:
                s1, n1 = resize_design(signed, l, r, [(nm[1], nm[2])])
                keep = [x for x in n1 if (x[3], x[4]) == (nm[3], nm[4])]
                lines = s1.split("\n")
                others = [x[0] for x in n1 if x not in keep]
                s1 = "\n".join(ln for ln in lines if not any(f" {o} =" in ln or f"self.{o} <<=" in ln for o in others))
                retry.append((s1, "W"))
                retry_meta.append((signed, l, r, keep, s1))
    for (signed, l, r, names, src), c in zip(retry_meta, compile_many(retry) if retry else []):
        if c["ok"]:
            sims.append((c["vhdl"], signed, l - r + 1, [x[0] for x in names]))
            sim_meta.append((signed, l, r, names, src))
        else:
            (nm, tl, tr, rs, os) = names[0]
            n += 1
            bad += 1
            sg = "S" if signed else "U"
            fail(f"vhdl:resize:{sg}:{relation(l, r, tl, tr)}:{RNAME[rs]}:{ONAME[os]}:rejected", (l - r + tl - tr,),
                 dict(kind="vhdl-resize", signed=signed, l=l, r=r, tl=tl, tr=tr, rs=rs, os=os, source=src, error=c),
                 f"a design resizing {sg}Fixed[{l}:{r}] to [{tl}:{tr}] ({RNAME[rs]}, {ONAME[os]}) is rejected by the compiler: {c['errtype']}: {c['err'][-160:]}")
    asims, ameta = [], []
    for (signed, (l1, r1), (l2, r2)), c, d in zip(arith, compiled[n_res:], designs[n_res:]):
        sg = "S" if signed else "U"
        if not c["ok"]:
            n += 1
            bad += 1
            fail(f"vhdl:arith:{sg}:rejected", (l1 - r1 + l2 - r2,), dict(kind="vhdl-arith", signed=signed, l1=l1, r1=r1, l2=l2, r2=r2, source=d[0], error=c),
                 f"a design computing + - * on {sg}Fixed[{l1}:{r1}] and [{l2}:{r2}] is rejected: {c['errtype']}: {c['err'][-160:]}")
            continue
        asims.append((c["vhdl"], signed, l1 - r1 + 1, l2 - r2 + 1))
        ameta.append((signed, l1, r1, l2, r2, d[0]))
    allres = fork_map(sim_task, [("resize", x) for x in sims] + [("arith", x) for x in asims], fresh=False, chunk=2)
    res, ares = allres[: len(sims)], allres[len(sims):]
    for (signed, l, r, names, src), out in zip(sim_meta, res):
        sg = "S" if signed else "U"
        for (nm, tl, tr, rs, os) in names:
            n += 1
            rel = relation(l, r, tl, tr)
            ctx.case(key=("vhdl", sg, l, r, tl, tr, rs, os), nontrivial=(rel != "same"), kind=f"vhdl-resize:{sg}:{rs}{os}")
            base = dict(kind="vhdl-resize", signed=signed, l=l, r=r, tl=tl, tr=tr, rs=rs, os=os, source=src, port=nm)
            if out[0] != "ok":
                bad += 1
                fail(f"vhdl:resize:{sg}:{rel}:{RNAME[rs]}:{ONAME[os]}:not-executable", (l - r + tl - tr,), {**base, "error": out[1]},
                     f"the VHDL emitted for resizing {sg}Fixed[{l}:{r}] to [{tl}:{tr}] cannot be executed: {out[1][:200]}")
                continue
            got = out[1][nm].split(" ")
            for v, g in zip(raw_values(signed, l - r + 1), got):
                want = oracle_resize(signed, r, v, tl, tr, rs, os)
                if g != str(want):
                    bad += 1
                    fail(f"vhdl:resize:{sg}:{rel}:{RNAME[rs]}:{ONAME[os]}:wrong-value", (l - r + tl - tr, abs(v)),
                         {**base, "v": v, "expected": want, "observed": g},
                         f"compiled design: {sg}Fixed[{l}:{r}] raw {v} resized to [{tl}:{tr}] ({RNAME[rs]}, {ONAME[os]}) gives {g}, exact {want}")
                    break
    # --- arithmetic
    for (signed, l1, r1, l2, r2, src), out in zip(ameta, ares):
        sg = "S" if signed else "U"
        n += 1
        ctx.case(key=("vhdl-arith", sg, l1, r1, l2, r2), kind=f"vhdl-arith:{sg}")
        base = dict(kind="vhdl-arith", signed=signed, l1=l1, r1=r1, l2=l2, r2=r2, source=src)
        if out[0] != "ok":
            bad += 1
            fail(f"vhdl:arith:{sg}:not-executable", (l1 - r1 + l2 - r2,), {**base, "error": out[1]},
                 f"the VHDL emitted for + - * on {sg}Fixed[{l1}:{r1}] and [{l2}:{r2}] cannot be executed: {out[1][:200]}")
            continue
        e = min(r1, r2)
        wa = max(l1, l2) + 1 - e + 1
        for (v1, v2, ga, gs, gm) in out[1]:
            ea = exact_arith("add", r1, v1, r2, v2) / F(2) ** e
            es = exact_arith("sub", r1, v1, r2, v2) / F(2) ** e
            if not signed:
                es = es % (1 << wa)
            em = v1 * v2
            for op, g, want in (("add", ga, ea), ("sub", gs, es), ("mul", gm, em)):
                if g is None or F(g) != want:
                    bad += 1
                    fail(f"vhdl:arith:{sg}:{op}:inexact", (l1 - r1 + l2 - r2, abs(v1) + abs(v2)), {**base, "v1": v1, "v2": v2, "op": op, "expected": str(want), "observed": g},
                         f"compiled design: {sg}Fixed[{l1}:{r1}] raw {v1} {op} {sg}Fixed[{l2}:{r2}] raw {v2} gives raw {g}, exact raw {want}")
    for sig, (_, inf, text) in sorted(worst.items()):
        ctx.report(sig, text, inf)
    ctx.obligation("property through the compiler: emitted VHDL of resize / + - * wrappers = exact result for every input value", bad == 0,
                   detail=f"{n} outputs / designs, {bad} differences")


def run(ctx: Ctx):
    ctx.rule = ("complete grids: all formats [l:r] with |l|,|r| <= B and width <= W as source and as target x 4 style pairs x "
                "every raw value (python level SFixed/UFixed objects vs Lean spec, Lean mirror and an independent Fraction oracle); "
                "+ - * on all format pairs of a smaller grid x all value pairs; constructors / __eq__ on numbers around the range and "
                "granularity of every format; compiled wrapper entities for a seeded sample of formats covering every format-relation "
                "class, executed for every input value.  One case = one (type, source format, target format, styles) tuple evaluated on "
                "all raw values; non-trivial = the two formats differ; distinct = distinct tuples.")
    big = formats(*ctx.scale((3, 5), (4, 6)))
    small = formats(*ctx.scale((2, 3), (3, 3)))
    ctx.extra["grid"] = {"resize_formats": len(big), "arith_formats": len(small)}
    import time

    t0 = time.time()
    phases = [check_resize_python(ctx, big), check_arith_python(ctx, small), check_ctor_python(ctx, formats(*ctx.scale((2, 3), (3, 4))))]
    tasks = [t for ph in phases for t in ph[0]]
    lines = [ln for ph in phases for ln in ph[1]]
    model = lean_io.query("C19", lines)
    t1 = time.time()
    impl = fork_map(py_task, tasks, fresh=False, chunk=1)
    t2 = time.time()
    ti = li = 0
    for (tk, ln, finish) in phases:
        finish(model[li:li + len(ln)], impl[ti:ti + len(tk)])
        ti += len(tk)
        li += len(ln)
    t3 = time.time()
    ctx.extra["timing_s"] = {"lean_model": round(t1 - t0, 1), "python_level": round(t2 - t1, 1), "evaluate": round(t3 - t2, 1)}
    check_vhdl(ctx, formats(*ctx.scale((3, 4), (4, 5))), n_src=ctx.scale(16, 100), n_tgt=ctx.scale(8, 12), n_arith=ctx.scale(16, 100))
    ctx.exhaustive = True


# ---------------------------------------------------------------------------------------------------
# replay
# ---------------------------------------------------------------------------------------------------

def replay(ctx, data):
    r = data["replay"]
    kind = r.get("kind")
    if kind == "resize":
        signed, l, rr, v, tl, tr, rs, os = r["signed"], r["l"], r["r"], r["v"], r["tl"], r["tr"], r["rs"], r["os"]
        res = fork_map(py_resize_task, [(signed, l, rr, [(tl, tr)])], fresh=True)[0]
        got = res[1][f"{tl} {tr} {rs} {os}"].split(" ")[raw_values(signed, l - rr + 1).index(v)] if res[0] == "ok" else "E"
        m = lean_io.query("C19", [f"resize {'S' if signed else 'U'} {l} {rr} {tl} {tr} {rs} {os}"])[0].split(" ")[raw_values(signed, l - rr + 1).index(v)]
        mirror, spec = m.split("/")
        print(f"{'S' if signed else 'U'}Fixed[{l}:{rr}](raw={v}).resize({tl}, {tr}, {RNAME[rs]}, {ONAME[os]})")
        print("expected (Lean spec)  :", spec, " oracle:", oracle_resize(signed, rr, v, tl, tr, rs, os))
        print("Lean mirror           :", mirror)
        print("observed              :", got)
        return 0 if got == spec else 1
    if kind == "arith":
        signed = r["signed"]
        res = fork_map(py_arith_task, [(signed, r["l1"], r["r1"], [(r["l2"], r["r2"])])], fresh=True)[0]
        got = res[1][f"{r['l2']} {r['r2']} {r['op']} {r['v1']} {r['v2']}"] if res[0] == "ok" else "E"
        m = lean_io.query("C19", [f"arith {'S' if signed else 'U'} {r['op']} {r['l1']} {r['r1']} {r['v1']} {r['l2']} {r['r2']} {r['v2']}"])[0]
        print("request :", r)
        print("mirror / spec (numerator exponent):", m)
        print("observed (left right raw):", got)
        return 0 if got == m.split("/")[0].strip() else 1
    if kind == "ctor":
        q = tuple(r["request"])
        res = fork_map(py_ctor_task, [(r["signed"], r["l"], r["r"], [q])], fresh=True)[0]
        got = res[1][0] if res[0] == "ok" else "E"
        print("request :", r["signed"] and "SFixed" or "UFixed", [r["l"], r["r"]], q)
        print("expected:", r.get("expected"), " Lean mirror:", r.get("mirror"))
        print("observed:", got)
        return 0 if str(r.get("expected", r.get("mirror"))) == got else 1
    if kind in ("vhdl-resize", "vhdl-arith"):
        c = compile_many([(r["source"], "W")])[0]
        if not c["ok"]:
            print("design rejected:", c["errtype"], c["err"][-300:])
            return 1
        if kind == "vhdl-resize":
            out = sim_resize_task((c["vhdl"], r["signed"], r["l"] - r["r"] + 1, [r["port"]]))
            got = out[r["port"]].split(" ")
            vals = raw_values(r["signed"], r["l"] - r["r"] + 1)
            want = [str(oracle_resize(r["signed"], r["r"], v, r["tl"], r["tr"], r["rs"], r["os"])) for v in vals]
            print("inputs  :", vals)
            print("expected:", want)
            print("observed:", got)
            return 0 if got == want else 1
        out = sim_arith_task((c["vhdl"], r["signed"], r["l1"] - r["r1"] + 1, r["l2"] - r["r2"] + 1))
        e = min(r["r1"], r["r2"])
        wa = max(r["l1"], r["l2"]) + 1 - e + 1
        bad = 0
        for (v1, v2, ga, gs, gm) in out:
            ea = exact_arith("add", r["r1"], v1, r["r2"], v2) / F(2) ** e
            es = exact_arith("sub", r["r1"], v1, r["r2"], v2) / F(2) ** e
            if not r["signed"]:
                es = es % (1 << wa)
            for op, g, want in (("add", ga, ea), ("sub", gs, es), ("mul", gm, v1 * v2)):
                if g is None or F(g) != want:
                    bad += 1
                    if bad <= 5:
                        print(f"inputs raw {v1} {v2}: {op} expected raw {want} observed {g}")
        return 1 if bad else 0
    print("nothing to replay for", kind)
    return 1
