"""C14 - std.Fifo / std.Stack keep order, content and occupancy exact.

Tie: wrapper entities around the real std.Fifo / std.Stack are compiled by /repo's compiler, the emitted
VHDL is executed by harness/vhdl_sim.py clock by clock on generated operation sequences that respect the
documented preconditions, and every observable (empty, full, size, front, popped data) is compared with
the Lean model `CohdlVerif.C14.{Fifo,Stack}.step`, which is proved (Props/C14.lean) to refine an abstract
queue / list for every capacity and every legal sequence.
"""

import itertools

from .common import Ctx, compile_many, fork_map
from . import lean_io
from .vhdl_sim import Design

FIFO_SRC = '''
import cohdl
from cohdl import std, Bit, BitVector, Unsigned, Port

class W(cohdl.Entity):
    clk = Port.input(Bit)
    data_in = Port.input(Unsigned[{W}])
    push = Port.input(Bit)
    pop = Port.input(Bit)
    data_out = Port.output(Unsigned[{W}])
    front = Port.output(Unsigned[{W}])
    empty = Port.output(Bit)
    full = Port.output(Bit)

    def architecture(self):
        ctx = std.SequentialContext(std.Clock(self.clk))
        fifo = std.Fifo[Unsigned[{W}], {N}]({ARGS})

        @std.concurrent
        def logic():
            self.front <<= fifo.front()
            self.empty <<= fifo.empty()
            self.full <<= fifo.full()

        @ctx
        def data_receiver():
            if self.push:
                fifo.push(self.data_in)

        @ctx
        def data_transmitter():
            if self.pop:
                self.data_out <<= fifo.pop()
'''

STACK_SRC = '''
import cohdl
from cohdl import std, Bit, BitVector, Unsigned, Port

class W(cohdl.Entity):
    clk = Port.input(Bit)
    data_in = Port.input(Unsigned[{W}])
    push = Port.input(Bit)
    pop = Port.input(Bit)
    rst = Port.input(Bit)
    data_out = Port.output(Unsigned[{W}])
    front = Port.output(Unsigned[{W}])
    empty = Port.output(Bit)
    full = Port.output(Bit)
    size = Port.output(Unsigned[8])

    def architecture(self):
        ctx = std.SequentialContext(std.Clock(self.clk))
        stack = std.Stack[Unsigned[{W}], {N}](mode=std.StackMode.{MODE})

        @std.concurrent
        def logic():
            self.empty <<= stack.empty()
            self.full <<= stack.full()
            self.size <<= stack.size()

        @ctx
        def proc():
            if not stack.empty():
                self.front <<= stack.front()
            else:
                self.front <<= 0
            if self.push:
                stack.push(self.data_in)
            if self.pop:
                self.data_out <<= stack.pop()
            if self.rst:
                stack.reset()
'''


def fmt(v):
    return "-" if v is None else str(v)


def gen_fifo_ops(rng, N, W, length):
    """legal sequences: abstract queue tracks occupancy; biased towards full/empty boundaries"""
    q = 0
    ops = []
    mode = rng.choice(["mixed", "fill", "drain", "both"])
    for _ in range(length):
        choices = ["i"]
        if q + 1 < N:
            choices += ["p"] * (4 if mode == "fill" else 2)
        if q > 0:
            choices += ["o"] * (4 if mode == "drain" else 2)
        if q > 0 and q + 1 < N:
            choices += ["b"] * (4 if mode == "both" else 1)
        c = rng.choice(choices)
        if rng.random() < 0.05:
            mode = rng.choice(["mixed", "fill", "drain", "both"])
        if c == "p":
            ops.append(f"p{rng.randrange(1 << W)}")
            q += 1
        elif c == "o":
            ops.append("o")
            q -= 1
        elif c == "b":
            ops.append(f"b{rng.randrange(1 << W)}")
        else:
            ops.append("i")
    return ops


def gen_stack_ops(rng, N, W, drop, length):
    n = 0
    ops = []
    mode = rng.choice(["mixed", "fill", "drain"])
    for _ in range(length):
        choices = ["i"]
        if drop or n < N:
            choices += ["p"] * (5 if mode == "fill" else 2)
        if n > 0:
            choices += ["o"] * (5 if mode == "drain" else 2)
        if rng.random() < 0.06:
            choices += ["r"]
        if rng.random() < 0.05:
            mode = rng.choice(["mixed", "fill", "drain"])
        c = rng.choice(choices)
        if c == "p":
            ops.append(f"p{rng.randrange(1 << W)}")
            n = min(N, n + 1)
        elif c == "o":
            ops.append("o")
            n -= 1
        elif c == "r":
            ops.append("r")
            n = 0
        else:
            ops.append("i")
    return ops


def sim_fifo(task):
    vhdl, ops = task
    d = Design(vhdl)
    for p in ("clk", "push", "pop", "data_in"):
        d.set(p, 0)
    d.initialise()
    out = []
    for op in ops:
        k = op[0]
        d.set("push", 1 if k in "pb" else 0)
        d.set("pop", 1 if k in "ob" else 0)
        if k in "pb":
            d.set("data_in", int(op[1:]))
        d.settle()
        d.clock()
        out.append(f"{fmt(d.get('empty'))} {fmt(d.get('full'))} {fmt(d.get('front'))} {fmt(d.get('data_out'))}")
    return ";".join(out)


def sim_stack(task):
    vhdl, ops = task
    d = Design(vhdl)
    for p in ("clk", "push", "pop", "rst", "data_in"):
        d.set(p, 0)
    d.initialise()
    out = []
    for op in ops:
        k = op[0]
        d.set("push", 1 if k == "p" else 0)
        d.set("pop", 1 if k == "o" else 0)
        d.set("rst", 1 if k == "r" else 0)
        if k == "p":
            d.set("data_in", int(op[1:]))
        d.settle()
        d.clock()
        empty = d.get("empty")
        front = d.get("front")
        out.append(f"{fmt(empty)} {fmt(d.get('full'))} {fmt(d.get('size'))} {fmt(front)} {fmt(d.get('data_out'))}")
    return ";".join(out)


def canon_stack_model(line):
    """the wrapper registers `front` (guarded read inside the clocked process, as in the upstream test, because
    an unguarded read of an empty NO_OVERFLOW stack indexes the memory out of range): after clock k the
    port shows front of the state after clock k-1, and 0 when that state was empty"""
    out = []
    prev_empty, prev_front = "1", "0"
    for c in line.split(";"):
        f = c.split(" ")
        cur_empty, cur_front = f[0], f[3]
        f[3] = "0" if prev_empty == "1" else prev_front
        prev_empty, prev_front = cur_empty, cur_front
        out.append(" ".join(f))
    return ";".join(out)


def first_diff(a, b):
    xa, xb = a.split(";"), b.split(";")
    for i, (x, y) in enumerate(zip(xa, xb)):
        if x != y:
            return i, x, y
    return min(len(xa), len(xb)), None, None


def shrink_ops(ops, fails):
    """delta-debugging on the operation list; `fails(ops)` re-runs model and implementation"""
    ops = list(ops)
    n = 2
    while len(ops) >= 2:
        chunk = max(1, len(ops) // n)
        reduced = False
        for i in range(0, len(ops), chunk):
            cand = ops[:i] + ops[i + chunk :]
            if cand and fails(cand):
                ops = cand
                n = max(n - 1, 2)
                reduced = True
                break
        if not reduced:
            if chunk == 1:
                break
            n = min(len(ops), n * 2)
    return ops


def legal_fifo(ops, N):
    q = 0
    for op in ops:
        k = op[0]
        if k == "p":
            if q + 1 >= N:
                return False
            q += 1
        elif k == "o":
            if q == 0:
                return False
            q -= 1
        elif k == "b":
            if q == 0 or q + 1 >= N:
                return False
    return True


def legal_stack(ops, N, drop):
    n = 0
    for op in ops:
        k = op[0]
        if k == "p":
            if not drop and n >= N:
                return False
            n = min(N, n + 1)
        elif k == "o":
            if n == 0:
                return False
            n -= 1
        elif k == "r":
            n = 0
    return True


def spec_fifo(ops):
    """the abstract queue (independent of the Lean mirror): used as oracle by the failing-input search"""
    q, out, res = [], None, []
    for op in ops:
        k = op[0]
        if k in "ob":
            out = q.pop(0)
        if k in "pb":
            q.append(int(op[1:]))
        res.append((len(q) == 0, q[0] if q else None, out))
    return res


def run(ctx: Ctx):
    rng = ctx.rng
    ctx.rule = ("wrapper entities around the real std.Fifo/std.Stack for capacities N (power of two and not), "
                "element widths, stack modes; operation sequences generated from the abstract occupancy so that the "
                "documented preconditions hold (biased to full/empty boundaries); non-trivial = sequence reaches "
                "both the full and the empty indication at least once; distinct = distinct (config, op sequence)")
    fifo_cfgs = [(N, W) for N in (2, 3, 4, 5, 7, 8) for W in (1, 3)] if ctx.quick else \
        [(N, W) for N in (2, 3, 4, 5, 6, 7, 8, 9, 12, 16, 17) for W in (1, 2, 4)]
    stack_cfgs = [(N, W, m) for N in (1, 2, 3, 4, 5, 8) for W in (1, 3) for m in ("NO_OVERFLOW", "DROP_OLD")] if ctx.quick else \
        [(N, W, m) for N in (1, 2, 3, 4, 5, 6, 7, 8, 9, 15, 16) for W in (1, 2, 4) for m in ("NO_OVERFLOW", "DROP_OLD")]
    n_seq = ctx.scale(6, 40)
    seq_len = ctx.scale(120, 600)

    srcs = [(FIFO_SRC.format(N=N, W=W, ARGS=""), "W") for N, W in fifo_cfgs] + \
           [(STACK_SRC.format(N=N, W=W, MODE=m), "W") for N, W, m in stack_cfgs]
    compiled = compile_many(srcs)
    for (cfg, r) in zip(fifo_cfgs + stack_cfgs, compiled):
        if not r["ok"]:
            ctx.report(f"compile:{cfg}", f"wrapper for {cfg} is rejected by the compiler: {r['errtype']}: {r['err'][-200:]}",
                       {"config": cfg, "error": r}, no_failing_input=False)
    tasks, reqs, meta = [], [], []
    exhaustive_len = ctx.scale(5, 7)
    for (N, W), r in zip(fifo_cfgs, compiled[: len(fifo_cfgs)]):
        if not r["ok"]:
            continue
        seqs = [gen_fifo_ops(rng, N, W, seq_len) for _ in range(n_seq)]
        if N <= 3 and W == 1:
            # exhaustive short sequences over {idle, push0, push1, pop, both0, both1}
            alpha = ["i", "p0", "p1", "o", "b0", "b1"]
            seqs += [list(s) for s in itertools.product(alpha, repeat=exhaustive_len) if legal_fifo(s, N)]
        for ops in seqs:
            tasks.append(("fifo", r["vhdl"], ops))
            reqs.append(f"fifo {N} " + " ".join(ops))
            meta.append(("fifo", N, W, None, ops))
    for (N, W, m), r in zip(stack_cfgs, compiled[len(fifo_cfgs):]):
        if not r["ok"]:
            continue
        drop = m == "DROP_OLD"
        seqs = [gen_stack_ops(rng, N, W, drop, seq_len) for _ in range(n_seq)]
        if N <= 2 and W == 1:
            alpha = ["i", "p0", "p1", "o", "r"]
            seqs += [list(s) for s in itertools.product(alpha, repeat=exhaustive_len) if legal_stack(s, N, drop)]
        for ops in seqs:
            tasks.append(("stack", r["vhdl"], ops))
            reqs.append(f"stack {'drop' if drop else 'noov'} {N} " + " ".join(ops))
            meta.append(("stack", N, W, m, ops))

    model = lean_io.query("C14", reqs)
    impl = fork_map(_sim_task, tasks, fresh=False, chunk=8)
    mismatches = 0
    for (kind, N, W, m, ops), mo, im, task, req in zip(meta, model, impl, tasks, reqs):
        if im[0] != "ok":
            ctx.report(f"sim-error:{kind}:{N}:{m}", f"emitted VHDL of {kind} N={N} mode={m} cannot be executed: {im[1]}",
                       {"kind": kind, "N": N, "W": W, "mode": m, "ops": ops, "error": im[1]})
            mismatches += 1
            continue
        im = mask(kind, im[1])
        mo = mask(kind, canon_stack_model(mo) if kind == "stack" else mo)
        cells = im.split(";")
        nontrivial = any(c.startswith("1 ") for c in cells) and any(c.split(" ")[1] == "1" for c in cells)
        ctx.case(key=(kind, N, W, m, " ".join(ops)), nontrivial=nontrivial, kind=f"{kind}:N={N}",
                 sample={"kind": kind, "N": N, "W": W, "mode": m, "ops": ops[:12], "impl": cells[:12]})
        for op in ops:
            ctx.dist["op:" + op[0]] += 1
        if mo != im:
            mismatches += 1
            if mismatches > 5:
                continue  # enough replays; the count is still reported
            # failing-input search: the model is proved equal to the abstract queue/list on legal sequences and only
            # spec-defined observables are compared, so a differing sequence is a failing input; minimise it
            head = req.split(" ")[: (2 if kind == "fifo" else 3)]
            legal = (lambda o: legal_fifo(o, N)) if kind == "fifo" else (lambda o: legal_stack(o, N, m == "DROP_OLD"))

            def fails(cand):
                if not legal(cand):
                    return False
                mo2 = lean_io.query("C14", [" ".join(head + list(cand))])[0]
                try:
                    im2 = _sim_task((kind, task[1], list(cand)))
                except Exception:
                    return True
                return mask(kind, canon_stack_model(mo2) if kind == "stack" else mo2) != mask(kind, im2)

            small = shrink_ops(ops[: first_diff(mo, im)[0] + 1], fails)
            mo2 = lean_io.query("C14", [" ".join(head + small)])[0]
            mo2 = mask(kind, canon_stack_model(mo2) if kind == "stack" else mo2)
            im2 = mask(kind, _sim_task((kind, task[1], small)))
            i, x, y = first_diff(mo2, im2)
            ctx.report(f"{kind}:N={N}:W={W}:mode={m}:{' '.join(small)}",
                       f"std.{kind} N={N} W={W} mode={m}: after the legal sequence {' '.join(small)} the emitted design shows `{y}` where the queue/list semantics gives `{x}` (fields: empty full [size] front dout; clock {i})",
                       {"kind": kind, "N": N, "W": W, "mode": m, "ops": small, "clock": i, "expected": x, "observed": y,
                        "wrapper_source": (FIFO_SRC.format(N=N, W=W, ARGS="") if kind == "fifo" else STACK_SRC.format(N=N, W=W, MODE=m))})
    ctx.obligation("correspondence: emitted Fifo/Stack designs = Lean step functions on all generated sequences (spec-defined observables)",
                   mismatches == 0, detail=f"{len(tasks)} sequences, {mismatches} mismatches")
    run_delayed(ctx)
    run_structured(ctx)


def mask(kind, line):
    """compare only what the specification defines: front while empty and the output register before the
    first pop are unspecified"""
    out = []
    for c in line.split(";"):
        f = c.split(" ")
        fi = 2 if kind == "fifo" else 3
        if f[0] == "1" and kind == "fifo":
            f[fi] = "*"
        out.append(" ".join(f))
    return ";".join(out)


def replay(ctx, data):
    r = data["replay"]
    if r.get("kind") == "dfifo":
        return replay_delayed(ctx, r)
    if r.get("kind") == "struct":
        return replay_structured(ctx, r)
    kind, N, W, m, ops = r["kind"], r["N"], r["W"], r["mode"], r["ops"]
    src = FIFO_SRC.format(N=N, W=W, ARGS="") if kind == "fifo" else STACK_SRC.format(N=N, W=W, MODE=m)
    c = compile_many([(src, "W")])[0]
    if not c["ok"]:
        print("wrapper rejected:", c)
        return 1
    im = _sim_task((kind, c["vhdl"], ops))
    head = f"fifo {N} " if kind == "fifo" else f"stack {'drop' if m == 'DROP_OLD' else 'noov'} {N} "
    mo = lean_io.query("C14", [head + " ".join(ops)])[0]
    mo = mask(kind, canon_stack_model(mo) if kind == "stack" else mo)
    im = mask(kind, im)
    print("ops     :", " ".join(ops))
    print("expected:", mo)
    print("observed:", im)
    return 0 if mo == im else 1


def _sim_task(t):
    kind, vhdl, ops = t
    return sim_fifo((vhdl, ops)) if kind == "fifo" else sim_stack((vhdl, ops))


# ===================================================================================================
# C14 extension: DELAYED Fifo (tx_delay / rx_delay != 0): producer and consumer in different contexts
# ===================================================================================================

from collections import deque

DFIFO_SRC = '''
import cohdl
from cohdl import std, Bit, BitVector, Unsigned, Port
from cohdl.std._context import at_end_of_context

class W(cohdl.Entity):
    clk = Port.input(Bit)
    en_p = Port.input(Bit)
    en_c = Port.input(Bit)
    push = Port.input(Bit)
    pop = Port.input(Bit)
    data_in = Port.input(Unsigned[{W}])
    full_s = Port.output(Bit)
    empty_s = Port.output(Bit)
    full_r = Port.output(Bit)
    empty_r = Port.output(Bit)
    full_o = Port.output(Bit)
    empty_o = Port.output(Bit)
    front = Port.output(Unsigned[{W}])
    data_out = Port.output(Unsigned[{W}])

    def architecture(self):
        ctx_p = std.SequentialContext(std.Clock(self.clk), step_cond=lambda: self.en_p)
        ctx_c = std.SequentialContext(std.Clock(self.clk), step_cond=lambda: self.en_c)
        fifo = std.Fifo[Unsigned[{W}], {N}](tx_delay={TXD}, rx_delay={RXD})

        @std.concurrent
        def logic():
            self.full_o <<= fifo.full()
            self.empty_o <<= fifo.empty()
            self.front <<= fifo.front()

{BODY}
'''

# the occupancy is queried once before the first push / pop of the context (resolved through the *_indirect
# signal) and afterwards again (resolved directly)
DFIFO_BODY = {
    "act-first": '''
        @ctx_p
        def prod():
            if self.push:
                if not fifo.full():
                    fifo.push(self.data_in)
            with cohdl.always:
                self.full_s <<= fifo.full()
                self.empty_s <<= fifo.empty()

        @ctx_c
        def cons():
            if self.pop:
                if not fifo.empty():
                    self.data_out <<= fifo.pop()
            with cohdl.always:
                self.full_r <<= fifo.full()
                self.empty_r <<= fifo.empty()
''',
    # full() / empty() queried TWICE before the first push / pop of the context
    "check-first": '''
        @ctx_p
        def prod():
            with cohdl.always:
                self.full_s <<= fifo.full()
                self.empty_s <<= fifo.empty()
            if self.push:
                if not fifo.full():
                    fifo.push(self.data_in)

        @ctx_c
        def cons():
            with cohdl.always:
                self.full_r <<= fifo.full()
                self.empty_r <<= fifo.empty()
            if self.pop:
                if not fifo.empty():
                    self.data_out <<= fifo.pop()
''',
}

# WHERE push / pop are issued from (same per-activation timing as the process body, so DFifo.step applies unchanged):
# an at_end_of_context callback, a callback registered by another callback, independent before / after executors
_PUSH = ["if self.push:", "    if not fifo.full():", "        fifo.push(self.data_in)",
         "with cohdl.always:", "    self.full_s <<= fifo.full()", "    self.empty_s <<= fifo.empty()"]
_POP = ["if self.pop:", "    if not fifo.empty():", "        self.data_out <<= fifo.pop()",
        "with cohdl.always:", "    self.full_r <<= fifo.full()", "    self.empty_r <<= fifo.empty()"]


def _dind(lines, n):
    return "".join(" " * n + l + "\n" for l in lines)


def _dsite(site):
    if site == "end":
        return (f"\n        async def p_end():\n{_dind(_PUSH, 12)}\n        async def c_end():\n{_dind(_POP, 12)}\n"
                "        @ctx_p\n        def prod():\n            at_end_of_context(p_end)\n\n"
                "        @ctx_c\n        def cons():\n            at_end_of_context(c_end)\n")
    if site == "nested":
        return (f"\n        def p_ops():\n{_dind(_PUSH, 12)}\n        def c_ops():\n{_dind(_POP, 12)}\n"
                "        async def p_in():\n            p_ops()\n\n        async def c_in():\n            c_ops()\n\n"
                "        async def p_out():\n            at_end_of_context(p_in)\n\n        async def c_out():\n            at_end_of_context(c_in)\n\n"
                "        @ctx_p\n        def prod():\n            at_end_of_context(p_out)\n\n"
                "        @ctx_c\n        def cons():\n            at_end_of_context(c_out)\n")
    pm, cm = {"after": ("make_independent_after", "make_independent_before"),
              "before": ("make_independent_before", "make_independent_after")}[site]
    return (f"\n        async def p_run():\n{_dind(_PUSH, 12)}\n        async def c_run():\n{_dind(_POP, 12)}\n"
            f"        p_ex = std.Executor.{pm}(p_run, None)\n        c_ex = std.Executor.{cm}(c_run, None)\n\n"
            "        @ctx_p(executors=[p_ex])\n        def prod():\n            pass\n\n"
            "        @ctx_c(executors=[c_ex])\n        def cons():\n            pass\n")


for _s in ("end", "nested", "after", "before"):
    DFIFO_BODY[_s] = _dsite(_s)

DOBS = ("full_s", "empty_s", "full_r", "empty_r", "full_o", "empty_o", "front", "data_out")


def d_apply(d, tok):
    p, c = tok.split(":")
    d.set("en_p", 1 if p[0] in "ip" else 0)
    d.set("push", 1 if p[0] == "p" else 0)
    d.set("data_in", int(p[1:]) if p[0] == "p" else 0)
    d.set("en_c", 1 if c in "uo" else 0)
    d.set("pop", 1 if c == "o" else 0)


def d_new(vhdl):
    d = Design(vhdl)
    for p in ("clk", "en_p", "en_c", "push", "pop", "data_in"):
        d.set(p, 0)
    d.initialise()
    return d


def d_obs(d):
    return tuple(d.get(p) for p in DOBS) + (len(d.asserts_failed),)


def d_explore_task(task):
    from .c15 import _snapshot, _restore, _key
    vhdl, toks, limit = task
    d = d_new(vhdl)
    ids = {_key(d): 0}
    snaps, obs, edges = [_snapshot(d)], [d_obs(d)], [{}]
    queue = deque([0])
    hit = False
    while queue:
        n = queue.popleft()
        for tok in toks:
            _restore(d, snaps[n])
            d.asserts_failed = []
            d_apply(d, tok)
            d.settle()
            d.clock()
            k = _key(d) + (len(d.asserts_failed),)
            m = ids.get(k)
            if m is None:
                if len(ids) >= limit:
                    hit = True
                    continue
                m = len(ids)
                ids[k] = m
                snaps.append(_snapshot(d))
                obs.append(d_obs(d))
                edges.append({})
                queue.append(m)
            edges[n][tok] = m
    return {"obs": obs, "edges": edges, "limit": hit}


def d_trace_task(task):
    vhdl, toks = task
    d = d_new(vhdl)
    out = [d_obs(d)]
    for tok in toks:
        d.asserts_failed = []
        d_apply(d, tok)
        d.settle()
        d.clock()
        out.append(d_obs(d))
    return out


def d_monitor(queue, N, o0, o1, tok):
    """abstract queue (independent of the Lean mirror).  -> (queue', pushed, popped, violation | None)"""
    p, c = tok.split(":")
    if None in o1[:6]:
        return queue, False, False, "an occupancy indication is undefined ('U')"
    if o1[8]:
        return queue, False, False, "an assertion of the emitted design fired (writing to full / reading from empty fifo)"
    pushed = p[0] == "p" and not o0[0]
    popped = c == "o" and not o0[3]
    if popped:
        if not queue:
            return queue, pushed, popped, "pop accepted (receiver saw not-empty) although the fifo holds no element (underflow)"
        if o1[7] != queue[0]:
            return queue, pushed, popped, f"popped {o1[7]} where {queue[0]} is the oldest element"
        queue = queue[1:]
    if pushed:
        queue = queue + (int(p[1:]),)
        if len(queue) > N - 1:
            return queue, pushed, popped, "push accepted (sender saw not-full) although the fifo holds N-1 elements (overflow)"
    if queue and o1[6] != queue[0]:
        return queue, pushed, popped, f"front shows {o1[6]} where {queue[0]} is the oldest element"
    if not o1[0] and len(queue) >= N - 1:
        return queue, pushed, popped, "sender sees not-full although the fifo is full (not conservative)"
    if not o1[3] and not queue:
        return queue, pushed, popped, "receiver sees not-empty although the fifo is empty (not conservative)"
    return queue, pushed, popped, None


def d_fmt(v):
    return "-" if v is None else str(int(v))


def d_check_property(graph, N, toks, cfg=None):
    from .c15 import path_to
    obs, edges = graph["obs"], graph["edges"]
    if None in obs[0][:6]:
        return [], "an occupancy indication is undefined ('U') at power-up"
    start = (0, ())
    prev = {start: None}
    q = deque([start])
    while q:
        cur = q.popleft()
        n, fq = cur
        for tok in toks:
            m = edges[n].get(tok)
            if m is None:
                continue
            fq2, _, _, viol = d_monitor(fq, N, obs[n], obs[m], tok)
            if viol:
                return path_to(prev, cur) + [tok], viol
            nxt = (m, fq2)
            if nxt not in prev:
                prev[nxt] = (cur, tok)
                q.append(nxt)
    # liveness: with both contexts ticking and no further push / pop the two views converge to the true occupancy
    # within two rounds of the index ping-pong
    if cfg is not None:
        bound = 2 * (cfg[2] + cfg[3] + 2) + 2
        for cur in list(prev):
            n, fq = cur
            for _ in range(bound):
                n = edges[n].get("i:u")
                if n is None:
                    break
            if n is None:
                continue  # truncated graph
            o = obs[n]
            if bool(o[3]) != (len(fq) == 0) or bool(o[0]) != (len(fq) == N - 1) or (fq and o[6] != fq[0]):
                return path_to(prev, cur) + ["i:u"] * bound, \
                    f"after {bound} idle activations of both contexts the views have not converged to the true occupancy {len(fq)} (liveness of the index ping-pong)"
    return None


def d_check_corr(graphs, cfgs, tokss):
    from .c15 import path_to
    frontier, seen, prev, bad, pairs = [], set(), {}, {}, 0
    for cfg in cfgs:
        N, t, r = cfg[0], cfg[2], cfg[3]
        init = f"{'0' * (t + 1)} {'0' * (r + 1)} 0 0 0 0 0 0 - {','.join(['-'] * N)}"
        node = (cfg, 0, init)
        seen.add(node)
        prev[node] = None
        frontier.append(node)
    while frontier:
        reqs, meta = [], []
        for node in frontier:
            cfg, n, ms = node
            if cfg in bad:
                continue
            for tok in tokss[cfg]:
                m = graphs[cfg]["edges"][n].get(tok)
                if m is not None:
                    reqs.append(f"dstep {cfg[0]} {ms} {tok}")
                    meta.append((node, tok, m))
        ans = lean_io.query("C14", reqs)
        frontier = []
        for (node, tok, m), a in zip(meta, ans):
            cfg, n, ms = node
            if cfg in bad:
                continue
            pairs += 1
            o1 = graphs[cfg]["obs"][m]
            if a == "bad-op":
                bad[cfg] = (path_to(prev, node) + [tok], "bad-op", str(o1))
                continue
            st, out = a.split(" | ")
            f = out.split(" ")
            exp = f[:7] + [st.split(" ")[8]]
            got = [d_fmt(x) for x in o1[:8]]
            if exp != got:
                bad[cfg] = (path_to(prev, node) + [tok], " ".join(exp), " ".join(got))
                continue
            nxt = (cfg, m, st)
            if nxt not in seen:
                seen.add(nxt)
                prev[nxt] = (node, tok)
                frontier.append(nxt)
    return bad, pairs


def d_gen(rng, length, W):
    rp, rc = rng.choice([(1.0, 1.0), (0.5, 0.5), (0.9, 0.25), (0.25, 0.9), (0.1, 1.0), (1.0, 0.1)])
    pp, po = rng.choice([(0.5, 0.5), (0.9, 0.3), (0.3, 0.9), (1.0, 1.0), (0.8, 0.8)])
    k = rng.randrange(1 << W)
    toks = []
    for _ in range(length):
        if rng.random() < 0.02:
            rp, rc = rng.choice([(1.0, 1.0), (0.5, 0.5), (0.9, 0.25), (0.25, 0.9), (0.05, 1.0), (1.0, 0.05)])
            pp, po = rng.choice([(0.5, 0.5), (0.9, 0.3), (0.3, 0.9), (1.0, 1.0)])
        if rng.random() < rp:
            if rng.random() < pp:
                p = f"p{k}"
                k = (k + 1) % (1 << W)   # consecutive pushes carry consecutive values
            else:
                p = "i"
        else:
            p = "-"
        c = ("o" if rng.random() < po else "u") if rng.random() < rc else "-"
        toks.append(f"{p}:{c}")
    return toks


def d_check_trace(N, toks, trace, model_line):
    """-> (clock, message, is_property_violation) | None"""
    fq = ()
    cells = model_line.split(";")
    for k, tok in enumerate(toks):
        fq, pushed, popped, viol = d_monitor(fq, N, trace[k], trace[k + 1], tok)
        if viol:
            return k, viol, True
        exp = cells[k].split(" ")[:8]
        got = [d_fmt(x) for x in trace[k + 1][:8]]
        if exp != got:
            return k, f"model `{' '.join(exp)}` design `{' '.join(got)}` (fullS emptyS fullR emptyR fullO emptyO front dout)", False
    return None


def d_variant(cfg):
    return cfg[4] if len(cfg) > 4 else "act-first"


def d_name(cfg):
    return f"dfifo:N={cfg[0]}:W={cfg[1]}:tx={cfg[2]}:rx={cfg[3]}" + ("" if d_variant(cfg) == "act-first" else ":" + d_variant(cfg))


def d_src(cfg):
    return DFIFO_SRC.format(N=cfg[0], W=cfg[1], TXD=cfg[2], RXD=cfg[3], BODY=DFIFO_BODY[d_variant(cfg)])


def run_delayed(ctx):
    from .c15 import shrink
    rng = ctx.rng
    ex_cfgs = [(N, 1, t, r) for N in (2, 3) for (t, r) in ((1, 1), (1, 2), (2, 1), (0, 1), (1, 0))]
    ex_cfgs += [(2, 1, 1, 1, "check-first"), (3, 1, 2, 1, "check-first")]
    ex_cfgs += [(2, 1, t, r, v) for v, (t, r) in zip(("end", "nested", "after", "before"), ((1, 1), (2, 1), (1, 2), (0, 1)))]
    if not ctx.quick:
        ex_cfgs += [(N, 1, t, r) for N in (2, 3) for (t, r) in ((2, 2), (3, 1), (1, 3), (3, 3))] + [(4, 1, 1, 1)]
    rnd_cfgs = [(N, 3, t, r) for N in (2, 3, 4, 5, 8) for t in (1, 2, 3) for r in (1, 2, 3)]
    if ctx.quick:
        rnd_cfgs = [c for c in rnd_cfgs if (c[0] + c[2] + c[3]) % 2 == 0 or c[0] == 8]
    rnd_cfgs += [(4, 3, 0, 2), (5, 3, 2, 0)]
    rnd_cfgs += [(N, 3, t, r, v) for v, (N, t, r) in zip(("end", "nested", "after", "before", "end", "after"),
                                                         ((3, 2, 2), (4, 1, 3), (5, 3, 1), (3, 1, 1), (8, 1, 0), (2, 0, 3)))]
    allc = ex_cfgs + rnd_cfgs
    compiled = dict(zip(allc, compile_many([(d_src(c), "W") for c in allc])))
    ok = []
    for c in allc:
        if not compiled[c]["ok"]:
            r = compiled[c]
            ctx.report(f"compile:{d_name(c)}", f"delayed Fifo wrapper {d_name(c)} is rejected: {r['errtype']}: {r['err'][-200:]}",
                       {"kind": "dfifo", "config": list(c), "schedule": [], "wrapper_source": d_src(c), "error": r})
        else:
            ok.append(c)
    limit = ctx.scale(1500, 12000)
    ex = [c for c in ex_cfgs if c in ok]
    toks = [f"{p}:{c}" for p in ("-", "i", "p0", "p1") for c in ("-", "u", "o")]
    tokss = {c: toks for c in ex}
    res = fork_map(d_explore_task, [(compiled[c]["vhdl"], toks, limit) for c in ex], fresh=False, chunk=1)
    graphs, prop_bad = {}, {}
    for c, r in zip(ex, res):
        if r[0] != "ok":
            ctx.report(f"sim-error:{d_name(c)}", f"emitted VHDL of {d_name(c)} cannot be executed: {r[1]}",
                       {"kind": "dfifo", "config": list(c), "schedule": [], "wrapper_source": d_src(c), "error": r[1]})
            continue
        graphs[c] = r[1]
        for n, e in enumerate(r[1]["edges"]):
            for tok in e:
                ctx.case(key=("dfifo", c, n, tok), nontrivial=tok[0] == "p" or tok.endswith("o"), kind=f"dfifo-graph:N={c[0]}")
        v = d_check_property(r[1], c[0], toks, c)
        if v:
            prop_bad[c] = v
            sched, msg = v
            sig = f"{d_name(c)}:{' '.join(sched)}"
            if "undefined" in msg:
                sig = "dfifo:occupancy-indication-undefined"
            ctx.report(sig, f"{d_name(c)}: after `{' '.join(sched)}` (P:C per clock; P = - no tick | i idle | p<v> push, C = - | u no pop | o pop): {msg}",
                       {"kind": "dfifo", "config": list(c), "schedule": sched, "message": msg, "wrapper_source": d_src(c)})
    ns = sum(len(g["obs"]) for g in graphs.values())
    ne = sum(len(e) for g in graphs.values() for e in g["edges"])
    trunc = [d_name(c) for c, g in graphs.items() if g["limit"]]
    ctx.obligation("delayed Fifo: queue monitor (order, content, no overflow / underflow, conservative occupancy) holds on the explored state graph of every small configuration",
                   not prop_bad, detail=f"{len(graphs)} designs, {ns} states, {ne} transitions; breadth-first prefix only (limit {limit} states) for {trunc}")
    bad, pairs = d_check_corr(graphs, [c for c in ex if c in graphs], tokss)
    for c, (sched, exp, got) in bad.items():
        if c in prop_bad:
            continue
        ctx.report(f"corr:{d_name(c)}:{' '.join(sched)}",
                   f"{d_name(c)}: after `{' '.join(sched)}` the design shows `{got}` where CohdlVerif.C14.DFifo.step gives `{exp}` "
                   "(fullS emptyS fullR emptyR fullO emptyO front dout); the queue monitor found no failing schedule",
                   {"kind": "dfifo", "config": list(c), "schedule": sched, "expected": exp, "observed": got, "wrapper_source": d_src(c),
                    "correspondence": "emitted delayed Fifo = CohdlVerif.C14.DFifo.step (C14.fifo_delayed_* speak about that model)"},
                   no_failing_input=True)
    ctx.obligation("delayed Fifo correspondence: every explored (design state, model state) transition agrees with CohdlVerif.C14.DFifo.step",
                   not bad, detail=f"{pairs} transitions of the product, {len(bad)} designs disagree")

    n_seq = ctx.scale(2, 6)
    length = ctx.scale(400, 1500)
    tasks, reqs, meta = [], [], []
    for c in [c for c in rnd_cfgs if c in ok]:
        for _ in range(n_seq):
            sched = d_gen(rng, length, c[1])
            tasks.append((compiled[c]["vhdl"], sched))
            reqs.append(f"dfifo {c[0]} {c[2]} {c[3]} " + " ".join(sched))
            meta.append((c, sched))
    model = lean_io.query("C14", reqs)
    impl = fork_map(d_trace_task, tasks, fresh=False, chunk=4)
    rbad = 0
    for (c, sched), mo, im, task in zip(meta, model, impl, tasks):
        if im[0] != "ok":
            ctx.report(f"sim-error:{d_name(c)}", f"emitted VHDL of {d_name(c)} cannot be executed: {im[1]}",
                       {"kind": "dfifo", "config": list(c), "schedule": [], "wrapper_source": d_src(c), "error": im[1]})
            rbad += 1
            continue
        trace = im[1]
        npop = sum(1 for k, t in enumerate(sched) if t.endswith("o") and not trace[k][3])
        ctx.case(key=("dfifo", c, " ".join(sched)), nontrivial=npop >= 5, kind=f"dfifo-random:N={c[0]}",
                 sample={"config": d_name(c), "schedule": sched[:14], "pops": npop})
        r = d_check_trace(c[0], sched, trace, mo)
        if r is None:
            continue
        rbad += 1
        if rbad > 3:
            continue
        k, msg, is_prop = r

        def fails(cand, c=c, vhdl=task[0], is_prop=is_prop):
            tr = d_trace_task((vhdl, cand))
            mo2 = lean_io.query("C14", [f"dfifo {c[0]} {c[2]} {c[3]} " + " ".join(cand)])[0]
            r2 = d_check_trace(c[0], cand, tr, mo2)
            return r2 is not None and r2[2] == is_prop

        small = shrink(sched[: k + 1], fails)
        tr = d_trace_task((task[0], small))
        mo2 = lean_io.query("C14", [f"dfifo {c[0]} {c[2]} {c[3]} " + " ".join(small)])[0]
        k2, msg2, _ = d_check_trace(c[0], small, tr, mo2)
        sig = f"{'dfifo' if is_prop else 'corr'}:{d_name(c)}:{' '.join(small)}"
        if "undefined" in msg2:
            sig = "dfifo:occupancy-indication-undefined"
        ctx.report(sig, f"{d_name(c)}: after `{' '.join(small)}` at clock {k2}: {msg2}",
                   {"kind": "dfifo", "config": list(c), "schedule": small, "message": msg2, "wrapper_source": d_src(c),
                    **({} if is_prop else {"correspondence": "emitted delayed Fifo = CohdlVerif.C14.DFifo.run"})},
                   no_failing_input=not is_prop)
    ctx.obligation("delayed Fifo, random schedules (N in 2,3,4,5,8; delays 1..3 and mixed 0): traces = CohdlVerif.C14.DFifo.run and the queue monitor holds",
                   rbad == 0, detail=f"{len(tasks)} schedules of {length} steps, {rbad} failing")
    ctx.extra["delayed_fifo"] = {"graph_designs": len(graphs), "states": ns, "transitions": ne, "product_transitions": pairs,
                                 "random_schedules": len(tasks)}


def replay_delayed(ctx, r):
    cfg = tuple(r["config"])
    sched = r["schedule"]
    c = compile_many([(d_src(cfg), "W")])[0]
    if not c["ok"]:
        print("wrapper rejected:", c["errtype"], c["err"][-200:])
        return 1
    trace = d_trace_task((c["vhdl"], sched))
    mo = lean_io.query("C14", [f"dfifo {cfg[0]} {cfg[2]} {cfg[3]} " + " ".join(sched)])[0] if sched else ""
    print("schedule:", " ".join(sched))
    print("columns : " + " ".join(DOBS) + " asserts")
    for k, o in enumerate(trace):
        print(f"  clock {k:3d} {sched[k - 1] if k else 'init':8s}", " ".join(d_fmt(x) for x in o))
    print("model   :", mo)
    res = d_check_trace(cfg[0], sched, trace, mo) if sched else None
    print("result  :", res)
    return 0 if res is None else 1


# ===================================================================================================
# C14 extension: STRUCTURED element types (the abstract queue / list of the Lean model is element-type agnostic):
# a std.Record with a scalar field, a flat std.Array and a nested std.Array[std.Array[Unsigned[2],2],2], and the
# nested array itself as element.  An element is packed field by field into one number, pushed values are random
# (non-palindromic), popped values are compared field by field (= packed number) with `Fifo.step` / `Stack.step`.
# ===================================================================================================

STRUCT_SRC = '''from __future__ import annotations
import cohdl
from cohdl import std, Bit, BitVector, Unsigned, Port

class Elem(std.Record):
    tag: Unsigned[3]
    flat: std.Array[Unsigned[2], 2]
    cells: std.Array[std.Array[Unsigned[2], 2], 2]

class W(cohdl.Entity):
    clk = Port.input(Bit)
    push = Port.input(Bit)
    pop = Port.input(Bit)
    in_tag = Port.input(Unsigned[3])
    in_f0 = Port.input(Unsigned[2])
    in_f1 = Port.input(Unsigned[2])
    in_c00 = Port.input(Unsigned[2])
    in_c01 = Port.input(Unsigned[2])
    in_c10 = Port.input(Unsigned[2])
    in_c11 = Port.input(Unsigned[2])
    out_tag = Port.output(Unsigned[3])
    out_f0 = Port.output(Unsigned[2])
    out_f1 = Port.output(Unsigned[2])
    out_c00 = Port.output(Unsigned[2])
    out_c01 = Port.output(Unsigned[2])
    out_c10 = Port.output(Unsigned[2])
    out_c11 = Port.output(Unsigned[2])
    empty = Port.output(Bit)
    full = Port.output(Bit)

    def architecture(self):
        ctx = std.SequentialContext(std.Clock(self.clk))
        box = {BOX}
        flat = std.Array[Unsigned[2], 2]()
        cells = std.Array[std.Array[Unsigned[2], 2], 2]()

        @std.concurrent
        def logic():
            self.empty <<= box.empty()
            self.full <<= box.full()
            flat[0] <<= self.in_f0
            flat[1] <<= self.in_f1
            cells[0][0] <<= self.in_c00
            cells[0][1] <<= self.in_c01
            cells[1][0] <<= self.in_c10
            cells[1][1] <<= self.in_c11

        @ctx
        def proc():
            if self.push:
                box.push({PUSHVAL})
            if self.pop:
                e = box.pop()
{READ}
'''
READ_REC = '''                self.out_tag <<= e.tag
                self.out_f0 <<= e.flat[0]
                self.out_f1 <<= e.flat[1]
                self.out_c00 <<= e.cells[0][0]
                self.out_c01 <<= e.cells[0][1]
                self.out_c10 <<= e.cells[1][0]
                self.out_c11 <<= e.cells[1][1]
'''
READ_ARR = '''                self.out_c00 <<= e[0][0]
                self.out_c01 <<= e[0][1]
                self.out_c10 <<= e[1][0]
                self.out_c11 <<= e[1][1]
'''
def struct_src(kind, elem, N):
    et = "Elem" if elem == "rec" else "std.Array[std.Array[Unsigned[2], 2], 2]"
    box = f"std.Fifo[{et}, {N}]()" if kind == "fifo" else f"std.Stack[{et}, {N}]()"
    return STRUCT_SRC.format(BOX=box, PUSHVAL=("Elem(tag=self.in_tag, flat=flat, cells=cells)" if elem == "rec" else "cells"),
                          READ=(READ_REC if elem == "rec" else READ_ARR))


S_FIELDS = {"rec": (("tag", 3), ("f0", 2), ("f1", 2), ("c00", 2), ("c01", 2), ("c10", 2), ("c11", 2)),
            "arr": (("c00", 2), ("c01", 2), ("c10", 2), ("c11", 2))}


def s_unpack(elem, v):
    out = {}
    for name, w in S_FIELDS[elem]:
        out[name] = v & ((1 << w) - 1)
        v >>= w
    return out


def s_pack(elem, get):
    v, sh = 0, 0
    for name, w in S_FIELDS[elem]:
        x = get(name)
        if x is None:
            return None
        v |= int(x) << sh
        sh += w
    return v


def sim_struct(task):
    vhdl, elem, ops = task
    d = Design(vhdl)
    for p, dr, _ in d.ports():
        if dr == "in":
            d.set(p, 0)
    d.initialise()
    out = []
    for op in ops:
        d.set("push", 1 if op[0] == "p" else 0)
        d.set("pop", 1 if op[0] == "o" else 0)
        if op[0] == "p":
            for name, x in s_unpack(elem, int(op[1:])).items():
                d.set("in_" + name, x)
        d.settle()
        d.clock()
        out.append(f"{fmt(d.get('empty'))} {fmt(d.get('full'))} {fmt(s_pack(elem, lambda n: d.get('out_' + n)))}")
    return ";".join(out)


def s_gen_ops(rng, kind, elem, N, length):
    bits = sum(w for _, w in S_FIELDS[elem])
    cap = N - 1 if kind == "fifo" else N
    n, ops = 0, []
    fixed = [0b01_10_11_00_10_01_101, 0b00_11_01_10_01_10_011] if elem == "rec" else [0b00_11_10_01, 0b10_01_00_11]
    for k in range(length):
        ch = ["i"] + (["p"] * 3 if n < cap else []) + (["o"] * 2 if n > 0 else [])
        c = rng.choice(ch)
        if c == "p":
            v = fixed[k % 2] & ((1 << bits) - 1) if k < 4 else rng.randrange(1 << bits)
            ops.append(f"p{v}")
            n += 1
        elif c == "o":
            ops.append("o")
            n -= 1
        else:
            ops.append("i")
    return ops


def s_model(kind, N, ops):
    line = lean_io.query("C14", [(f"fifo {N} " if kind == "fifo" else f"stack noov {N} ") + " ".join(ops)])[0]
    return s_canon(kind, line)


def s_canon(kind, line):
    out = []
    for c in line.split(";"):
        f = c.split(" ")
        out.append(f"{f[0]} {f[1]} {f[3] if kind == 'fifo' else f[4]}")
    return ";".join(out)


def s_mask(line):
    # the output registers before the first pop are unspecified
    seen, out = False, []
    for c in line.split(";"):
        f = c.split(" ")
        out.append(c)
    return ";".join(out)


def run_structured(ctx):
    rng = ctx.rng
    cfgs = [(k, e, N) for k in ("fifo", "stack") for e in ("rec", "arr") for N in ((3, 4) if k == "fifo" else (2, 4))]
    compiled = compile_many([(struct_src(*c), "W") for c in cfgs])
    n_seq, length = ctx.scale(3, 10), ctx.scale(80, 300)
    tasks, reqs, meta = [], [], []
    for c, r in zip(cfgs, compiled):
        if not r["ok"]:
            ctx.report(f"compile:struct:{c}", f"Fifo/Stack with a structured element type {c} is rejected: {r['errtype']}: {r['err'][-200:]}",
                       {"kind": "struct", "config": list(c), "ops": [], "error": r})
            continue
        for _ in range(n_seq):
            ops = s_gen_ops(rng, c[0], c[1], c[2], length)
            tasks.append((r["vhdl"], c[1], ops))
            reqs.append((f"fifo {c[2]} " if c[0] == "fifo" else f"stack noov {c[2]} ") + " ".join(ops))
            meta.append((c, ops))
    model = lean_io.query("C14", reqs)
    impl = fork_map(sim_struct, tasks, fresh=False, chunk=4)
    bad = 0
    for (c, ops), mo, im, task in zip(meta, model, impl, tasks):
        ctx.case(key=("struct", c, " ".join(ops)), nontrivial=sum(1 for o in ops if o == "o") >= 3, kind=f"struct:{c[0]}:{c[1]}")
        if im[0] != "ok":
            bad += 1
            ctx.report(f"sim-error:struct:{c}", f"emitted VHDL of {c} cannot be executed: {im[1]}",
                       {"kind": "struct", "config": list(c), "ops": ops, "error": im[1]})
            continue
        mo = s_canon(c[0], mo)
        if mo == im[1]:
            continue
        bad += 1
        if bad > 3:
            continue

        def fails(cand, c=c, vhdl=task[0]):
            n, cap = 0, (c[2] - 1 if c[0] == "fifo" else c[2])
            for o in cand:
                n += (o[0] == "p") - (o[0] == "o")
                if n < 0 or n > cap:
                    return False
            return s_model(c[0], c[2], cand) != sim_struct((vhdl, c[1], list(cand)))

        small = shrink_ops(ops[: first_diff(mo, im[1])[0] + 1], fails)
        mo2, im2 = s_model(c[0], c[2], small), sim_struct((task[0], c[1], small))
        i, x, y = first_diff(mo2, im2)
        pv = [int(o[1:]) for o in small if o[0] == "p"]
        ctx.report(f"struct:{c[0]}:{c[1]}:N={c[2]}:{' '.join(small)}",
                   f"std.{c[0]} with element type {c[1]} (record with scalar + flat array + nested array / nested array), N={c[2]}: after "
                   f"{' '.join(small)} the design shows `{y}` where the queue/list gives `{x}` (empty full popped-element, fields packed "
                   f"{[n for n, _ in S_FIELDS[c[1]]]} lsb first; pushed {[s_unpack(c[1], v) for v in pv]}, popped {s_unpack(c[1], int(y.split(' ')[2])) if y and y.split(' ')[2] != '-' else y})",
                   {"kind": "struct", "config": list(c), "ops": small, "clock": i, "expected": x, "observed": y,
                    "wrapper_source": struct_src(*c)})
    ctx.obligation("structured element types (record with nested arrays, nested array): popped elements = pushed elements field by field, flags exact (vs Fifo.step / Stack.step)",
                   bad == 0, detail=f"{len(tasks)} sequences, {bad} mismatches")


def replay_structured(ctx, r):
    c = tuple(r["config"])
    ops = r["ops"]
    cc = compile_many([(struct_src(*c), "W")])[0]
    if not cc["ok"]:
        print("wrapper rejected:", cc)
        return 1
    mo, im = s_model(c[0], c[2], ops), sim_struct((cc["vhdl"], c[1], ops))
    print("ops     :", " ".join(ops))
    print("expected:", mo)
    print("observed:", im)
    return 0 if mo == im else 1
