"""C14 - std.Fifo / std.Stack keep order, content and occupancy exact.

Tie: wrapper entities around the real std.Fifo / std.Stack are compiled by /repo's compiler, the emitted
VHDL is executed by harness/vhdl_sim.py clock by clock on generated operation sequences that respect the
documented preconditions, and every observable (empty, full, size, front, popped data) is compared with
the Lean model `CohdlVerif.C14.{Fifo,Stack}.step`, which is proved (Props/C14.lean) to refine an abstract
queue / list for every capacity and every legal sequence.
"""

import itertools

from .common import Ctx, compile_many, fork_map
from . import lean_io
from .vhdl_sim import Design

FIFO_SRC = '''
import cohdl
from cohdl import std, Bit, BitVector, Unsigned, Port

class W(cohdl.Entity):
    clk = Port.input(Bit)
    data_in = Port.input(Unsigned[{W}])
    push = Port.input(Bit)
    pop = Port.input(Bit)
    data_out = Port.output(Unsigned[{W}])
    front = Port.output(Unsigned[{W}])
    empty = Port.output(Bit)
    full = Port.output(Bit)

    def architecture(self):
        ctx = std.SequentialContext(std.Clock(self.clk))
        fifo = std.Fifo[Unsigned[{W}], {N}]({ARGS})

        @std.concurrent
        def logic():
            self.front <<= fifo.front()
            self.empty <<= fifo.empty()
            self.full <<= fifo.full()

        @ctx
        def data_receiver():
            if self.push:
                fifo.push(self.data_in)

        @ctx
        def data_transmitter():
            if self.pop:
                self.data_out <<= fifo.pop()
'''

STACK_SRC = '''
import cohdl
from cohdl import std, Bit, BitVector, Unsigned, Port

class W(cohdl.Entity):
    clk = Port.input(Bit)
    data_in = Port.input(Unsigned[{W}])
    push = Port.input(Bit)
    pop = Port.input(Bit)
    rst = Port.input(Bit)
    data_out = Port.output(Unsigned[{W}])
    front = Port.output(Unsigned[{W}])
    empty = Port.output(Bit)
    full = Port.output(Bit)
    size = Port.output(Unsigned[8])

    def architecture(self):
        ctx = std.SequentialContext(std.Clock(self.clk))
        stack = std.Stack[Unsigned[{W}], {N}](mode=std.StackMode.{MODE})

        @std.concurrent
        def logic():
            self.empty <<= stack.empty()
            self.full <<= stack.full()
            self.size <<= stack.size()

        @ctx
        def proc():
            if not stack.empty():
                self.front <<= stack.front()
            else:
                self.front <<= 0
            if self.push:
                stack.push(self.data_in)
            if self.pop:
                self.data_out <<= stack.pop()
            if self.rst:
                stack.reset()
'''


def fmt(v):
    return "-" if v is None else str(v)


def gen_fifo_ops(rng, N, W, length):
    """legal sequences: abstract queue tracks occupancy; biased towards full/empty boundaries"""
    q = 0
    ops = []
    mode = rng.choice(["mixed", "fill", "drain", "both"])
    for _ in range(length):
        choices = ["i"]
        if q + 1 < N:
            choices += ["p"] * (4 if mode == "fill" else 2)
        if q > 0:
            choices += ["o"] * (4 if mode == "drain" else 2)
        if q > 0 and q + 1 < N:
            choices += ["b"] * (4 if mode == "both" else 1)
        c = rng.choice(choices)
        if rng.random() < 0.05:
            mode = rng.choice(["mixed", "fill", "drain", "both"])
        if c == "p":
            ops.append(f"p{rng.randrange(1 << W)}")
            q += 1
        elif c == "o":
            ops.append("o")
            q -= 1
        elif c == "b":
            ops.append(f"b{rng.randrange(1 << W)}")
        else:
            ops.append("i")
    return ops


def gen_stack_ops(rng, N, W, drop, length):
    n = 0
    ops = []
    mode = rng.choice(["mixed", "fill", "drain"])
    for _ in range(length):
        choices = ["i"]
        if drop or n < N:
            choices += ["p"] * (5 if mode == "fill" else 2)
        if n > 0:
            choices += ["o"] * (5 if mode == "drain" else 2)
        if rng.random() < 0.06:
            choices += ["r"]
        if rng.random() < 0.05:
            mode = rng.choice(["mixed", "fill", "drain"])
        c = rng.choice(choices)
        if c == "p":
            ops.append(f"p{rng.randrange(1 << W)}")
            n = min(N, n + 1)
        elif c == "o":
            ops.append("o")
            n -= 1
        elif c == "r":
            ops.append("r")
            n = 0
        else:
            ops.append("i")
    return ops


def sim_fifo(task):
    vhdl, ops = task
    d = Design(vhdl)
    for p in ("clk", "push", "pop", "data_in"):
        d.set(p, 0)
    d.initialise()
    out = []
    for op in ops:
        k = op[0]
        d.set("push", 1 if k in "pb" else 0)
        d.set("pop", 1 if k in "ob" else 0)
        if k in "pb":
            d.set("data_in", int(op[1:]))
        d.settle()
        d.clock()
        out.append(f"{fmt(d.get('empty'))} {fmt(d.get('full'))} {fmt(d.get('front'))} {fmt(d.get('data_out'))}")
    return ";".join(out)


def sim_stack(task):
    vhdl, ops = task
    d = Design(vhdl)
    for p in ("clk", "push", "pop", "rst", "data_in"):
        d.set(p, 0)
    d.initialise()
    out = []
    for op in ops:
        k = op[0]
        d.set("push", 1 if k == "p" else 0)
        d.set("pop", 1 if k == "o" else 0)
        d.set("rst", 1 if k == "r" else 0)
        if k == "p":
            d.set("data_in", int(op[1:]))
        d.settle()
        d.clock()
        empty = d.get("empty")
        front = d.get("front")
        out.append(f"{fmt(empty)} {fmt(d.get('full'))} {fmt(d.get('size'))} {fmt(front)} {fmt(d.get('data_out'))}")
    return ";".join(out)


def canon_stack_model(line):
    """the wrapper registers `front` (guarded read inside the clocked process, as in the upstream test, because
    an unguarded read of an empty NO_OVERFLOW stack indexes the memory out of range): after clock k the
    port shows front of the state after clock k-1, and 0 when that state was empty"""
    out = []
    prev_empty, prev_front = "1", "0"
    for c in line.split(";"):
        f = c.split(" ")
        cur_empty, cur_front = f[0], f[3]
        f[3] = "0" if prev_empty == "1" else prev_front
        prev_empty, prev_front = cur_empty, cur_front
        out.append(" ".join(f))
    return ";".join(out)


def first_diff(a, b):
    xa, xb = a.split(";"), b.split(";")
    for i, (x, y) in enumerate(zip(xa, xb)):
        if x != y:
            return i, x, y
    return min(len(xa), len(xb)), None, None


def shrink_ops(ops, fails):
    """delta-debugging on the operation list; `fails(ops)` re-runs model and implementation"""
    ops = list(ops)
    n = 2
    while len(ops) >= 2:
        chunk = max(1, len(ops) // n)
        reduced = False
        for i in range(0, len(ops), chunk):
            cand = ops[:i] + ops[i + chunk :]
            if cand and fails(cand):
                ops = cand
                n = max(n - 1, 2)
                reduced = True
                break
        if not reduced:
            if chunk == 1:
                break
            n = min(len(ops), n * 2)
    return ops


def legal_fifo(ops, N):
    q = 0
    for op in ops:
        k = op[0]
        if k == "p":
            if q + 1 >= N:
                return False
            q += 1
        elif k == "o":
            if q == 0:
                return False
            q -= 1
        elif k == "b":
            if q == 0 or q + 1 >= N:
                return False
    return True


def legal_stack(ops, N, drop):
    n = 0
    for op in ops:
        k = op[0]
        if k == "p":
            if not drop and n >= N:
                return False
            n = min(N, n + 1)
        elif k == "o":
            if n == 0:
                return False
            n -= 1
        elif k == "r":
            n = 0
    return True


def spec_fifo(ops):
    """the abstract queue (independent of the Lean mirror): used as oracle by the failing-input search"""
    q, out, res = [], None, []
    for op in ops:
        k = op[0]
        if k in "ob":
            out = q.pop(0)
        if k in "pb":
            q.append(int(op[1:]))
        res.append((len(q) == 0, q[0] if q else None, out))
    return res


def run(ctx: Ctx):
    rng = ctx.rng
    ctx.rule = ("wrapper entities around the real std.Fifo/std.Stack for capacities N (power of two and not), "
                "element widths, stack modes; operation sequences generated from the abstract occupancy so that the "
                "documented preconditions hold (biased to full/empty boundaries); non-trivial = sequence reaches "
                "both the full and the empty indication at least once; distinct = distinct (config, op sequence)")
    fifo_cfgs = [(N, W) for N in (2, 3, 4, 5, 7, 8) for W in (1, 3)] if ctx.quick else \
        [(N, W) for N in (2, 3, 4, 5, 6, 7, 8, 9, 12, 16, 17) for W in (1, 2, 4)]
    stack_cfgs = [(N, W, m) for N in (1, 2, 3, 4, 5, 8) for W in (1, 3) for m in ("NO_OVERFLOW", "DROP_OLD")] if ctx.quick else \
        [(N, W, m) for N in (1, 2, 3, 4, 5, 6, 7, 8, 9, 15, 16) for W in (1, 2, 4) for m in ("NO_OVERFLOW", "DROP_OLD")]
    n_seq = ctx.scale(6, 40)
    seq_len = ctx.scale(120, 600)

    srcs = [(FIFO_SRC.format(N=N, W=W, ARGS=""), "W") for N, W in fifo_cfgs] + \
           [(STACK_SRC.format(N=N, W=W, MODE=m), "W") for N, W, m in stack_cfgs]
    compiled = compile_many(srcs)
    for (cfg, r) in zip(fifo_cfgs + stack_cfgs, compiled):
        if not r["ok"]:
            ctx.report(f"compile:{cfg}", f"wrapper for {cfg} is rejected by the compiler: {r['errtype']}: {r['err'][-200:]}",
                       {"config": cfg, "error": r}, no_failing_input=False)
    tasks, reqs, meta = [], [], []
    exhaustive_len = ctx.scale(5, 7)
    for (N, W), r in zip(fifo_cfgs, compiled[: len(fifo_cfgs)]):
        if not r["ok"]:
            continue
        seqs = [gen_fifo_ops(rng, N, W, seq_len) for _ in range(n_seq)]
        if N <= 3 and W == 1:
            # exhaustive short sequences over {idle, push0, push1, pop, both0, both1}
            alpha = ["i", "p0", "p1", "o", "b0", "b1"]
            seqs += [list(s) for s in itertools.product(alpha, repeat=exhaustive_len) if legal_fifo(s, N)]
        for ops in seqs:
            tasks.append(("fifo", r["vhdl"], ops))
            reqs.append(f"fifo {N} " + " ".join(ops))
            meta.append(("fifo", N, W, None, ops))
    for (N, W, m), r in zip(stack_cfgs, compiled[len(fifo_cfgs):]):
        if not r["ok"]:
            continue
        drop = m == "DROP_OLD"
        seqs = [gen_stack_ops(rng, N, W, drop, seq_len) for _ in range(n_seq)]
        if N <= 2 and W == 1:
            alpha = ["i", "p0", "p1", "o", "r"]
            seqs += [list(s) for s in itertools.product(alpha, repeat=exhaustive_len) if legal_stack(s, N, drop)]
        for ops in seqs:
            tasks.append(("stack", r["vhdl"], ops))
            reqs.append(f"stack {'drop' if drop else 'noov'} {N} " + " ".join(ops))
            meta.append(("stack", N, W, m, ops))

    model = lean_io.query("C14", reqs)
    impl = fork_map(_sim_task, tasks, fresh=False, chunk=8)
    mismatches = 0
    for (kind, N, W, m, ops), mo, im, task, req in zip(meta, model, impl, tasks, reqs):
        if im[0] != "ok":
            ctx.report(f"sim-error:{kind}:{N}:{m}", f"emitted VHDL of {kind} N={N} mode={m} cannot be executed: {im[1]}",
                       {"kind": kind, "N": N, "W": W, "mode": m, "ops": ops, "error": im[1]})
            mismatches += 1
            continue
        im = mask(kind, im[1])
        mo = mask(kind, canon_stack_model(mo) if kind == "stack" else mo)
        cells = im.split(";")
        nontrivial = any(c.startswith("1 ") for c in cells) and any(c.split(" ")[1] == "1" for c in cells)
        ctx.case(key=(kind, N, W, m, " ".join(ops)), nontrivial=nontrivial, kind=f"{kind}:N={N}",
                 sample={"kind": kind, "N": N, "W": W, "mode": m, "ops": ops[:12], "impl": cells[:12]})
        for op in ops:
            ctx.dist["op:" + op[0]] += 1
        if mo != im:
            mismatches += 1
            if mismatches > 5:
                continue  # enough replays; the count is still reported
            # failing-input search: the model is proved equal to the abstract queue/list on legal sequences and only
            # spec-defined observables are compared, so a differing sequence is a failing input; minimise it
            head = req.split(" ")[: (2 if kind == "fifo" else 3)]
            legal = (lambda o: legal_fifo(o, N)) if kind == "fifo" else (lambda o: legal_stack(o, N, m == "DROP_OLD"))

            def fails(cand):
                if not legal(cand):
                    return False
                mo2 = lean_io.query("C14", [" ".join(head + list(cand))])[0]
                try:
                    im2 = _sim_task((kind, task[1], list(cand)))
                except Exception:
                    return True
                return mask(kind, canon_stack_model(mo2) if kind == "stack" else mo2) != mask(kind, im2)

            small = shrink_ops(ops[: first_diff(mo, im)[0] + 1], fails)
            mo2 = lean_io.query("C14", [" ".join(head + small)])[0]
            mo2 = mask(kind, canon_stack_model(mo2) if kind == "stack" else mo2)
            im2 = mask(kind, _sim_task((kind, task[1], small)))
            i, x, y = first_diff(mo2, im2)
            ctx.report(f"{kind}:N={N}:W={W}:mode={m}:{' '.join(small)}",
                       f"std.{kind} N={N} W={W} mode={m}: after the legal sequence {' '.join(small)} the emitted design shows `{y}` where the queue/list semantics gives `{x}` (fields: empty full [size] front dout; clock {i})",
                       {"kind": kind, "N": N, "W": W, "mode": m, "ops": small, "clock": i, "expected": x, "observed": y,
                        "wrapper_source": (FIFO_SRC.format(N=N, W=W, ARGS="") if kind == "fifo" else STACK_SRC.format(N=N, W=W, MODE=m))})
    ctx.obligation("correspondence: emitted Fifo/Stack designs = Lean step functions on all generated sequences (spec-defined observables)",
                   mismatches == 0, detail=f"{len(tasks)} sequences, {mismatches} mismatches")


def mask(kind, line):
    """compare only what the specification defines: front while empty and the output register before the
    first pop are unspecified"""
    out = []
    for c in line.split(";"):
        f = c.split(" ")
        fi = 2 if kind == "fifo" else 3
        if f[0] == "1" and kind == "fifo":
            f[fi] = "*"
        out.append(" ".join(f))
    return ";".join(out)


def replay(ctx, data):
    r = data["replay"]
    kind, N, W, m, ops = r["kind"], r["N"], r["W"], r["mode"], r["ops"]
    src = FIFO_SRC.format(N=N, W=W, ARGS="") if kind == "fifo" else STACK_SRC.format(N=N, W=W, MODE=m)
    c = compile_many([(src, "W")])[0]
    if not c["ok"]:
        print("wrapper rejected:", c)
        return 1
    im = _sim_task((kind, c["vhdl"], ops))
    head = f"fifo {N} " if kind == "fifo" else f"stack {'drop' if m == 'DROP_OLD' else 'noov'} {N} "
    mo = lean_io.query("C14", [head + " ".join(ops)])[0]
    mo = mask(kind, canon_stack_model(mo) if kind == "stack" else mo)
    im = mask(kind, im)
    print("ops     :", " ".join(ops))
    print("expected:", mo)
    print("observed:", im)
    return 0 if mo == im else 1


def _sim_task(t):
    kind, vhdl, ops = t
    return sim_fifo((vhdl, ops)) if kind == "fifo" else sim_stack((vhdl, ops))
