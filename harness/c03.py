"""C03 - sequential and concurrent contexts obey hardware assignment semantics.

Tie: a generator produces bodies of sequential contexts (signal / variable / push assignments to whole objects,
slices and array elements with constant and run-time index, if/elif/else, match with/without default,
for-break / for-return chains with else, plain unrolled for loops, helper functions returning from nested
branches, local names, references with captured index, locally declared signals, `cohdl.always` expressions
and assignments) plus a concurrent context.  Each body is rendered (a) to a real cohdl design file, compiled
by /repo's compiler and executed by harness/vhdl_sim.py on generated input sequences and (b) to an
s-expression evaluated by the Lean driver with the SOURCE-level semantics `Seq.activate` (Model/C03.lean;
the documented laws are proved about it in Props/C03.lean).  Every output port (and the internal signals /
variables that can be found by name) is compared after every clock.  THE PROPERTY: any difference is a
violation; the replay holds the (shrunk) design and the (shrunk) input sequence.

Values are marker constants and order-sensitive updates (x := x + x, x := x + k) so that a trace identifies
which statements ran in which order.  Every object has a default, so no 'U' appears.
"""

import json
import time

from .common import Ctx, fork_map, load_design_module, import_cohdl, InfraError
from . import lean_io
from .vhdl_sim import Design, to_py

# ---------------------------------------------------------------------------------------------------
# objects
# ---------------------------------------------------------------------------------------------------

# name -> (id, kind, space, nelem, width)
OBJS = {
    "c0": (0, "in", "s", 1, 1), "c1": (1, "in", "s", 1, 1), "c2": (2, "in", "s", 1, 1), "c3": (3, "in", "s", 1, 1),
    "x": (4, "in", "s", 1, 8), "y": (5, "in", "s", 1, 8), "idx": (6, "in", "s", 1, 2),
    "o0": (7, "out", "s", 1, 8), "o1": (8, "out", "s", 1, 8), "o2": (9, "out", "s", 1, 8), "o3": (10, "out", "s", 1, 8),
    "s0": (11, "sig", "s", 1, 8),
    "p0": (12, "push", "s", 1, 8), "p1": (13, "push", "s", 1, 8),
    "v0": (14, "var", "v", 1, 8), "v1": (15, "var", "v", 1, 8), "vi": (16, "var", "v", 1, 2),
    "arr": (17, "sigarr", "s", 4, 8), "va": (18, "vararr", "v", 4, 8),
    "q0": (19, "conc", "s", 1, 8), "q1": (20, "conc", "s", 1, 8),
    # ids 21, 22: locally declared signals.  One-bit objects (bool / Bit typed):
    "f0": (23, "var", "v", 1, 1), "f1": (24, "var", "v", 1, 1), "g0": (25, "var", "v", 1, 1),
    "sb": (26, "sig", "s", 1, 1), "b0": (27, "out", "s", 1, 1), "b1": (28, "out", "s", 1, 1), "b2": (29, "out", "s", 1, 1),
    # push targets with every declaration option: port noreset, signal, signal noreset, std.NoresetSignal, Bit port noreset
    "p2": (30, "push", "s", 1, 8), "ps": (31, "push", "s", 1, 8), "pn": (32, "push", "s", 1, 8), "pr": (33, "push", "s", 1, 8),
    "pb": (34, "push", "s", 1, 1),
    # receivers of captured values of other types / widths, Signed variable
    "w0": (35, "out", "s", 1, 12), "ws": (36, "out", "s", 1, 12), "sg": (37, "out", "s", 1, 8), "bv": (38, "out", "s", 1, 8),
    "vs": (39, "var", "v", 1, 8),
    "q2": (40, "conc", "s", 1, 8),
}
HOIST_BASE = 41   # ids 41..48: signals of hoisted `always` expressions (model-internal, see prog_sexp(hoist=True))
SIGNED = {"ws": 12, "sg": 8, "vs": 8}     # reported by the simulator as two's complement integers
LOC_BASE = 21  # ids of locally declared signals
INPUTS = ["c0", "c1", "c2", "c3", "x", "y", "idx"]
PORT_OBS = ["o0", "o1", "o2", "o3", "p0", "p1", "q0", "q1", "q2", "b0", "b1", "b2", "p2", "pb", "w0", "ws", "sg", "bv"]
INNER_OBS = ["s0", "v0", "v1", "vi", "arr", "va", "sb", "f0", "f1", "g0", "ps", "pn", "pr", "vs"]
PRE_OBS = ["q0", "q1", "q2"]
ALL_OBS = ["q0@pre", "q1@pre", "q2@pre"] + PORT_OBS + INNER_OBS
SIG8 = ["o0", "o1", "o2", "o3", "s0"]       # assignable 8-bit signals
RD_SIG8 = ["x", "y", "o0", "o1", "o2", "o3", "s0", "q0", "pn", "p2", "q2"]
VAR8 = ["v0", "v1"]
PUSH8 = ["p0", "p1", "p2", "ps", "pn", "pr"]
ALL_PUSHED = PUSH8 + ["pb"]
BIT_RD = ["c0", "c1", "c2", "c3", "g0", "b0", "b1"]      # Bit typed
BOOL_RD = ["f0", "f1", "sb", "b2"]                       # bool typed
ONE_SIG = ["b0", "b1", "b2", "sb"]                       # assignable one-bit signals
ONE_VAR = ["f0", "f1", "g0"]                             # one-bit variables
PYTYPE = {"f0": "bool", "f1": "bool", "g0": "Bit", "v0": "Unsigned[8]", "v1": "Unsigned[8]"}
CHAINS_OK = [False]   # bool(<bool temporary>) is generated only when the tree handles cast chains (see run)


def oid(name):
    return OBJS[name][0]


# ---------------------------------------------------------------------------------------------------
# generator.  AST = nested tuples / lists (json-able), see render_* for the node kinds
# ---------------------------------------------------------------------------------------------------


class Gen:
    def __init__(self, rng, size, depth):
        self.rng = rng
        self.budget = size
        self.depth = depth
        self.marker = 10
        self.funcs = []
        self.nsplit = 0      # ifs with a return in only some branches (the continuation is duplicated)
        self.ncalls = 0
        self.nloc = 0
        self.ntmp = 0
        self.conc = []       # concurrent context: [(qname, expr)]
        self.alwq = False
        self.stats = {}

    def stat(self, k):
        self.stats[k] = self.stats.get(k, 0) + 1

    def mark(self):
        self.marker += 1
        if self.marker > 250:
            self.marker = 11
        return self.marker

    # ---- expressions
    def idx_expr(self, sc):
        r = self.rng.random()
        if sc.get("lv") and r < 0.25:
            return ["lv", 0]
        if r < 0.45:
            return ["obj", "idx"]
        if r < 0.75 and not sc.get("sigonly"):
            return ["obj", "vi"]
        return ["c", self.rng.randrange(4), 2]

    def atom8(self, sc, sigonly=False):
        rng = self.rng
        sigonly = sigonly or sc.get("sigonly")
        r = rng.random()
        names = [n for n, k in sc["names"].items() if k in ("tmp", "arg", "locsig", "ref", "refv", "alias8", "alias8x")]
        if names and not sigonly and r < 0.25:
            n = rng.choice(names)
            if sc["names"][n] == "locsig" and rng.random() < 0.4:
                self.stat("local-signal-read-through-view")
                return ["nview", n, "unsigned"]
            return ["name", n]
        if r < 0.55:
            pool = [n for n in RD_SIG8 if not (n == "q2" and sigonly)]
            return ["obj", rng.choice(pool if not sc.get("noq") else [n for n in pool if n != "q0"])]
        if r < 0.75 and not sigonly:
            return ["obj", rng.choice(VAR8)]
        if r < 0.85:
            i = self.idx_expr(sc) if not sigonly else rng.choice([["obj", "idx"], ["c", rng.randrange(4), 2]])
            return ["el", "arr", i]
        if r < 0.92 and not sigonly:
            return ["el", "va", self.idx_expr(sc)]
        return ["obj", rng.choice(["x", "y"])]

    def expr8(self, sc, depth=2, sigonly=False, allow_const=True):
        rng = self.rng
        r = rng.random()
        if allow_const and r < 0.22:
            if sc.get("lv") and rng.random() < 0.4:
                return ["lv", self.mark()]
            return ["c", self.mark(), 8]
        if r < 0.50 or depth == 0:
            return self.atom8(sc, sigonly)
        if r < 0.75:
            return ["add", self.atom8(sc, sigonly), ["c", rng.choice([1, 2, 3, 5, 16, 100]), 8]]
        if r < 0.90:
            return ["add", self.expr8(sc, depth - 1, sigonly, False), self.atom8(sc, sigonly)]
        if rng.random() < 0.4:
            self.stat("select-with")
            subj = ["obj", rng.choice(["x", "y", "o0", "s0"] + ([] if (sigonly or sc.get("sigonly")) else ["v0"]))]
            pats = rng.sample(range(6), rng.choice([1, 2, 3]))
            return ["selw", subj, [[p, self.expr8(sc, depth - 1, sigonly, False)] for p in pats], self.expr8(sc, depth - 1, sigonly, False)]
        self.stat("ifexpr")
        return ["ife", self.cond(sc, sigonly), self.expr8(sc, depth - 1, sigonly, False), self.expr8(sc, depth - 1, sigonly, False)]

    def binop8(self, sc, sigonly=False):
        """an expression that certainly creates a temporary (not a bare object)"""
        rng = self.rng
        if rng.random() < 0.6:
            return ["add", self.atom8(sc, sigonly), ["c", rng.choice([1, 2, 3, 7, 32]), 8]]
        return ["add", self.atom8(sc, sigonly), self.atom8(sc, sigonly)]

    def expr4(self, sc):
        rng = self.rng
        r = rng.random()
        if r < 0.4:
            return ["c", rng.randrange(16), 4]
        names = [n for n, k in sc["names"].items() if k == "locsig"]
        if names and r < 0.55:
            return ["nsl", rng.choice(names), rng.choice([0, 4]), 4]
        pool = RD_SIG8 + ([] if sc.get("sigonly") else VAR8)
        return ["sl", rng.choice(pool), rng.choice([0, 4]), 4]

    def bitc(self, sc, sigonly=False):
        rng = self.rng
        r = rng.random()
        if sc.get("lv") and r < 0.3:
            return ["bitlv", rng.choice(["x", "y"])]
        locs = [n for n, k in sc["names"].items() if k == "locsig"]
        if locs and not (sigonly or sc.get("sigonly")) and rng.random() < 0.3:
            self.stat("local-signal-read-through-index")
            return ["nsl", rng.choice(locs), rng.randrange(8), 1]
        if r < 0.6:
            return ["obj", rng.choice(["c0", "c1", "c2", "c3"])]
        pool = ["x", "y", "o0", "s0"] + ([] if (sigonly or sc.get("sigonly")) else ["v0"])
        return ["sl", rng.choice(pool), rng.randrange(4), 1]

    def cond(self, sc, sigonly=False):
        rng = self.rng
        if rng.random() < 0.35:
            return self.bexpr(dict(sc, sigonly=True) if sigonly else sc)[0]
        r = rng.random()
        if r < 0.45:
            return self.bitc(sc, sigonly)
        if r < 0.55:
            return ["nb", self.bitc(sc, sigonly)]
        if r < 0.65:
            return ["andb", self.bitc(sc, sigonly), self.bitc(sc, sigonly)]
        if r < 0.75:
            return ["orb", self.bitc(sc, sigonly), self.bitc(sc, sigonly)]
        a = self.atom8(sc, sigonly)
        if a[0] == "name":
            a = ["obj", "x"]
        if r < 0.9:
            if sc.get("lv") and rng.random() < 0.5:
                return ["eq", a, ["lv", rng.randrange(3)]]
            return ["eq", a, ["c", rng.randrange(6), 8]]
        b = self.atom8(sc, sigonly)
        if b[0] == "name":
            b = ["obj", "y"]
        return ["eq", a, b]

    # ---- one-bit expressions: returns (expr, type) with type in bit | bool | any
    def batom(self, sc, want=None):
        rng = self.rng
        sigonly = sc.get("sigonly")
        kinds = {"tmpbit": "bit", "aliasbit": "bit", "tmpbool": "bool", "aliasbool": "bool", "tmpany": "any"}
        names = [(n, kinds[k]) for n, k in sc["names"].items() if k in kinds and (want is None or kinds[k] == want)]
        if names and not sigonly and rng.random() < 0.3:
            n, t = rng.choice(names)
            return ["name", n], t
        bits = [n for n in BIT_RD if not (sigonly and n == "g0")]
        bools = [n for n in BOOL_RD if not (sigonly and n in ("f0", "f1"))]
        if want == "bit" or (want is None and rng.random() < 0.5):
            if rng.random() < 0.2:
                return ["sl", rng.choice(["x", "y", "o0"] + ([] if sigonly else ["v0"])), rng.randrange(4), 1], "bit"
            return ["obj", rng.choice(bits)], "bit"
        return ["obj", rng.choice(bools)], "bool"

    def bexpr(self, sc, depth=2, want=None):
        rng = self.rng
        r = rng.random()
        if depth == 0 or r < 0.35:
            return self.batom(sc, want)
        if want == "bit" or r < 0.55:
            if rng.random() < 0.4:
                return ["nb", self.bexpr(sc, depth - 1, "bit")[0]], "bit"
            return [rng.choice(["andb", "orb"]), self.bexpr(sc, depth - 1, "bit")[0], self.bexpr(sc, depth - 1, "bit")[0]], "bit"
        if r < 0.68:
            return ["lnot", self.bexpr(sc, depth - 1)[0]], "bool"
        if r < 0.86:
            return [rng.choice(["land", "lor"]), self.bexpr(sc, depth - 1)[0], self.bexpr(sc, depth - 1)[0]], "bool"
        if r < 0.93:
            e, t = self.bexpr(sc, depth - 1)
            if t == "bit" or (e[0] == "obj" and t == "bool") or CHAINS_OK[0]:
                self.stat("bool-cast")
                return ["boolc", e], "bool"
            return ["lnot", e], "bool"
        a = self.atom8(sc)
        return ["eq", a if a[0] != "name" else ["obj", "x"], ["c", rng.randrange(6), 8]], "bool"

    def fresh_one(self, sc):
        """a one-bit expression that certainly is a fresh temporary (never a bare object / name)"""
        e, t = self.bexpr(sc, 2)
        if e[0] in ("obj", "name", "sl"):
            e, t = ["lnot", e], "bool"
        return e, t

    def snapshot(self, sc):
        """capture the value of a VARIABLE in a local name, reassign the variable, use the capture afterwards:
        the captured value must not change (an alias `x = v` follows the variable instead)"""
        rng = self.rng
        if rng.random() < 0.45:
            return self.snapshot_method(sc)
        v = rng.choice(["f0", "f1", "g0", "v0", "v1", "f0", "f1"])
        V = ["obj", v]
        typ = {"f0": "bool", "f1": "bool", "g0": "bit"}.get(v, "8")
        self.ntmp += 1
        nm = f"k{self.ntmp}"
        r = rng.random()
        out = []
        if r < 0.12:
            out.append(["alias", nm, v])
            kind = {"bool": "aliasbool", "bit": "aliasbit", "8": "alias8"}[typ]
            self.stat("alias-of-variable")
        else:
            if typ == "8":
                e, kind = rng.choice([(["copy", V], "tmp"), (["valc", PYTYPE[v], V], "tmp"), (["add", V, ["c", rng.choice([1, 2, 5]), 8]], "tmp"),
                                      (["eq", V, rng.choice([["obj", "x"], ["c", rng.randrange(4), 8]])], "tmpbool"),
                                      (["ife", self.cond(sc), V, ["obj", "x"]], "tmp")])
            elif typ == "bool":
                o = self.batom(sc)[0]
                e, kind = rng.choice([(["boolc", V], "tmpbool"), (["boolc", V], "tmpbool"), (["copy", V], "tmpbool"), (["valc", "bool", V], "tmpbool"),
                                      (["lnot", V], "tmpbool"), (["land", V, o], "tmpbool"), (["lor", o, V], "tmpbool")])
            else:
                o = self.batom(sc, "bit")[0]
                e, kind = rng.choice([(["boolc", V], "tmpbool"), (["copy", V], "tmpbit"), (["valc", "Bit", V], "tmpbit"), (["nb", V], "tmpbit"),
                                      (["andb", V, o], "tmpbit"), (["lnot", V], "tmpbool"), (["lor", V, o], "tmpbool")])
            out.append(["let", nm, e])
            self.stat("snapshot-" + e[0] + "-" + typ)
        sc["names"][nm] = kind
        if rng.random() < 0.3:
            out.append(self.assign(sc))
        # reassign the variable
        form = rng.choice(["op", "prop"])
        if typ == "8":
            out.append(["as", "v", V, rng.choice([["add", V, V], ["add", V, ["c", rng.choice([1, 3]), 8]], self.expr8(sc)]), form])
        elif typ == "bool":
            out.append(["as", "v", V, rng.choice([["lnot", V], ["obj", rng.choice(["c0", "c1", "c2"])], self.bexpr(sc)[0]]), form])
        else:
            out.append(["as", "v", V, rng.choice([["nb", V], ["obj", rng.choice(["c0", "c1", "c2"])], self.bexpr(sc, 2, "bit")[0]]), form])
        # use the capture
        N = ["name", nm]
        k8 = kind in ("tmp", "alias8")
        r = rng.random()
        if r < 0.45:
            out.append(["as", "n", ["obj", rng.choice(SIG8 if k8 else ONE_SIG)], N, "op"])
        elif r < 0.6 and not k8:
            out.append(["as", "v", ["obj", rng.choice([x for x in ONE_VAR if x != v] or ["f1"])], N, "op"])
        elif r < 0.8 and not k8:
            out.append(["if", [[N, [self.assign(sc)]]], [self.assign(sc)]])
        elif k8:
            out.append(["as", "n", ["obj", rng.choice(SIG8)], ["add", N, ["obj", v]], "op"])
        else:
            out.append(["as", "n", ["obj", rng.choice(ONE_SIG)], [rng.choice(["land", "lor"]), N, V], "op"])
        return out

    def snapshot_method(self, sc):
        """capture through the methods / views of a vector object: resize (equal / larger width, zeros), copy, + 0,
        concat produce a VALUE (Temporary); .unsigned / .signed / .bitvector and slices are views (ALIASES) of the
        object.  Source: Variable (reassigned with @=) or Signal (reassigned with <<=, reads stay old-valued)."""
        rng = self.rng
        v = rng.choice(["v0", "v1", "vs", "v0", "vs", "s0", "o0"])
        V = ["obj", v]
        signed = v == "vs"
        isvar = v in ("v0", "v1", "vs")
        self.ntmp += 1
        nm = f"m{self.ntmp}"
        # (expression, is_alias, type of the captured value)
        forms = [(["rsz", V, 8, 0], False, "s8" if signed else "u8"), (["rsz", V, 8, 0], False, "s8" if signed else "u8"),
                 (["rsz", V, 12, 0], False, "s12" if signed else "u12"), (["copy", V], False, "s8" if signed else "u8"),
                 (["add", V, ["c", 0, 8]], False, "s8" if signed else "u8"),
                 (["view", "unsigned", V], True, "u8"), (["view", "signed", V], True, "s8"), (["view", "bitvector", V], True, "bv8"),
                 (["sl", v, rng.choice([0, 4]), 4], True, "bv4")]
        if not signed:
            forms += [(["rsz", V, None, 4], False, "u12"), (["rsz", V, 12, 2], False, "u12"),
                      (["view", "unsigned", ["catx", V, ["sl", rng.choice(["x", "y"]), rng.choice([0, 4]), 4]]], False, "u12")]
        e, is_alias, typ = rng.choice(forms)
        out = [["aliasx" if is_alias else "let", nm, e]]
        self.stat(("alias-view-" if is_alias else "snapshot-method-") + (e[0] if e[0] != "view" else e[1]) + ("-var" if isvar else "-sig"))
        if typ == "u8":
            sc["names"][nm] = "alias8x" if is_alias else "tmp"
        if rng.random() < 0.25:
            out.append(self.assign(sc))
        form = rng.choice(["op", "prop"])
        new = rng.choice([["add", V, V], ["add", V, ["c", rng.choice([1, 3, 16]), 8]]] + ([] if signed else [self.expr8(sc)]))
        out.append(["as", "v" if isvar else "n", V, new, form])
        N = ["name", nm]
        tgt = {"u8": ["obj", rng.choice(["o1", "o2", "o3"])], "s8": ["obj", "sg"], "u12": ["obj", "w0"], "s12": ["obj", "ws"],
               "bv8": ["obj", "bv"], "bv4": ["sl", rng.choice(["o1", "o2", "o3"]), rng.choice([0, 4]), 4]}[typ]
        out.append(["as", "n", tgt, N, "op"])
        return out

    # ---- statements
    def assign(self, sc):
        rng = self.rng
        r = rng.random()
        form = rng.choice(["op", "prop"])
        if rng.random() < 0.22:
            e, t = self.bexpr(sc)
            if rng.random() < 0.12:
                e = ["cb", rng.randrange(2)]
            if rng.random() < 0.1:
                self.stat("push-one-bit")
                return ["as", "p", ["obj", "pb"], e, form]
            if rng.random() < 0.55:
                self.stat("one-bit-signal")
                return ["as", "n", ["obj", rng.choice(ONE_SIG)], e, form]
            self.stat("one-bit-variable")
            return ["as", "v", ["obj", rng.choice(ONE_VAR)], e, form]
        refs = [n for n, k in sc["names"].items() if k in ("ref", "refv", "locsig")]
        if refs and r < 0.12:
            n = rng.choice(refs)
            k = sc["names"][n]
            self.stat("assign-via-" + k)
            return ["as", "v" if k == "refv" else "n", ["name", n], self.expr8(sc), "op"]
        if r < 0.34:
            self.stat("sig-whole")
            return ["as", "n", ["obj", rng.choice(SIG8)], self.expr8(sc), form]
        if r < 0.44:
            self.stat("sig-slice")
            return ["as", "n", ["sl", rng.choice(SIG8), rng.choice([0, 4]), 4], self.expr4(sc), form]
        if r < 0.54:
            self.stat("sig-elem")
            return ["as", "n", ["el", "arr", self.idx_expr(sc)], self.expr8(sc), form]
        if r < 0.70:
            self.stat("var-whole")
            tgt = rng.choice(VAR8)
            e = rng.choice([["add", ["obj", tgt], ["obj", tgt]], ["add", ["obj", tgt], ["c", rng.choice([1, 3, 7]), 8]],
                            self.expr8(sc), self.expr8(sc)])
            return ["as", "v", ["obj", tgt], e, form]
        if r < 0.75:
            self.stat("var-slice")
            return ["as", "v", ["sl", rng.choice(VAR8), rng.choice([0, 4]), 4], self.expr4(sc), form]
        if r < 0.81:
            self.stat("var-elem")
            return ["as", "v", ["el", "va", self.idx_expr(sc)], self.expr8(sc), form]
        if r < 0.87:
            self.stat("var-index")
            e = rng.choice([["add", ["obj", "vi"], ["c", 1, 2]], ["obj", "idx"], ["c", rng.randrange(4), 2]])
            return ["as", "v", ["obj", "vi"], e, form]
        if r < 0.95:
            self.stat("push-whole")
            return ["as", "p", ["obj", rng.choice(PUSH8)], self.expr8(sc), form]
        self.stat("push-slice")
        return ["as", "p", ["sl", rng.choice(PUSH8), rng.choice([0, 4]), 4], self.expr4(sc), form]

    def sub(self, sc):
        return dict(sc, names=dict(sc["names"]))

    def block(self, sc, depth, top=False, n=None):
        """a list of statements; never ends in a return (the caller appends those)"""
        rng = self.rng
        out = []
        n = n if n is not None else (rng.choice([3, 4, 5, 6, 7]) if top else rng.choice([1, 1, 2, 2, 3]))
        for _ in range(n):
            if self.budget <= 0:
                break
            self.budget -= 1
            r = rng.random()
            if r < 0.42 or depth == 0:
                out.append(self.assign(sc))
            elif r < 0.55:
                out.append(self.gen_if(sc, depth))
            elif r < 0.63:
                out.append(self.gen_match(sc, depth))
            elif r < 0.71:
                out.append(self.gen_forbrk(sc, depth))
            elif r < 0.75:
                self.stat("for-plain")
                s2 = self.sub(sc)
                s2["lv"] = True
                out.append(["for", rng.choice([2, 3]), self.block(s2, 0, n=rng.choice([1, 2]))])
            elif r < 0.79 and sc["scope_top"]:
                self.ntmp += 1
                nm = f"t{self.ntmp}"
                if rng.random() < 0.5:
                    self.stat("local-name")
                    out.append(["let", nm, self.binop8(sc)])
                    sc["names"][nm] = "tmp"
                else:
                    self.stat("local-name-one-bit")
                    e, t = self.fresh_one(sc)
                    out.append(["let", nm, e])
                    sc["names"][nm] = "tmpbit" if t == "bit" else "tmpbool"
            elif r < 0.87 and sc["scope_top"]:
                out += self.snapshot(sc)
            elif r < 0.90 and sc["scope_top"]:
                self.ntmp += 1
                nm = f"r{self.ntmp}"
                a = rng.choice(["arr", "va"])
                self.stat("ref-bind")
                ix = self.idx_expr(sc)
                out.append(["bind", nm, a, ix])
                sc["names"][nm] = "ref" if a == "arr" else "refv"
                if ix == ["obj", "vi"] and rng.random() < 0.7:
                    # change the index operand between access and use: the captured index must be used
                    out.append(["as", "v", ["obj", "vi"], ["add", ["obj", "vi"], ["c", rng.choice([1, 2, 3]), 2]], rng.choice(["op", "prop"])])
                    out.append(["as", "v" if a == "va" else "n", ["name", nm], self.expr8(sc), "op"])
                    self.stat("index-operand-changed-after-access")
            elif r < 0.915 and sc["scope_top"] and sc["main"] and self.nloc < 2:
                nm = f"loc{self.nloc}"
                self.stat("local-signal")
                out.append(["decl", nm, LOC_BASE + self.nloc, self.expr8(sc, allow_const=False)])
                self.nloc += 1
                sc["names"][nm] = "locsig"
                if rng.random() < 0.6:
                    # read the local signal through a derived reference (slice / view / bit) in the same activation
                    self.stat("local-signal-derived-read")
                    out.append(rng.choice([
                        ["as", "n", ["sl", rng.choice(SIG8), rng.choice([0, 4]), 4], ["nsl", nm, rng.choice([0, 4]), 4], "op"],
                        ["as", "n", ["obj", rng.choice(SIG8)], ["add", ["nview", nm, "unsigned"], ["c", 1, 8]], "op"],
                        ["if", [[["nsl", nm, rng.randrange(8), 1], [self.assign(sc)]]], [self.assign(sc)]]]))
            elif r < 0.935 and sc["scope_top"] and sc["main"]:
                self.ntmp += 1
                nm = f"a{self.ntmp}"
                if rng.random() < 0.6 or self.alwq:
                    self.stat("always-expr")
                    out.append(["alw", nm, self.binop8(dict(sc, sigonly=True, noq=True, names={}), True)])
                    sc["names"][nm] = "tmp"
                else:
                    self.stat("always-assign")
                    self.alwq = True
                    out.append(["alwq", "q1", self.expr8(dict(sc, sigonly=True, noq=True, names={}), 1, True, False)])
            elif r < 0.955 and sc["main"] and sc["scope_top"] and self.nsplit < 3 and not sc.get("lv"):
                # `return` in the process function: the rest of the activation is skipped
                self.nsplit += 1
                s2 = self.sub(sc)
                s2["scope_top"] = False
                if rng.random() < 0.5:
                    self.stat("main-if-return")
                    out.append(["if", [[self.cond(sc), self.block(s2, 0, n=rng.choice([0, 1])) + [["ret", None]]]], None])
                else:
                    self.stat("main-for-return-no-else")
                    s2["lv"] = True
                    out.append(["forret", rng.choice([2, 3]), self.lv_cond(sc), self.block(s2, 0, n=rng.choice([0, 1])) + [["ret", None]], None])
            elif self.ncalls < 3 and sc["calldepth"] < 2:
                out.append(self.gen_call(sc, depth))
            else:
                out.append(self.assign(sc))
        return out

    def arm(self, sc, depth, what):
        """body of one arm of a conditional construct: statements assigning some of the targets, or nothing at all
        (`pass`), or statements removed / kept by a compile-time option of the design (`if OPT_F:` / `if OPT_T:`)"""
        rng = self.rng
        s2 = self.sub(sc)
        s2["scope_top"] = False
        r = rng.random()
        if r < 0.16:
            self.stat(f"empty-arm-pass:{what}")
            return [["pass"]]
        body = self.block(s2, depth) or [self.assign(s2)]
        if r < 0.28:
            self.stat(f"empty-arm-compile-time-false:{what}")
            return [["cif", False, body]]
        if r < 0.34:
            self.stat(f"arm-compile-time-true:{what}")
            return [["cif", True, body]]
        if r < 0.40:
            # part of the arm removed at compile time, the rest stays
            return [["cif", False, body], self.assign(s2)]
        return body

    def gen_if(self, sc, depth, fn=None):
        rng = self.rng
        nbr = rng.choice([1, 1, 2, 2, 3])
        brs = []
        for _ in range(nbr):
            brs.append([self.cond(sc), self.arm(sc, depth - 1, "if")])
        els = None
        if rng.random() < 0.6:
            els = self.arm(sc, depth - 1, "else")
        self.stat("if" if nbr == 1 else "if-elif")
        return ["if", brs, els]

    def gen_match(self, sc, depth):
        rng = self.rng
        if rng.random() < 0.3:
            subj, pats = ["obj", rng.choice(["idx", "vi"])], rng.sample(range(4), rng.choice([1, 2, 3]))
        else:
            subj, pats = ["obj", rng.choice(["x", "y", "v0", "o0", "s0"])], rng.sample(range(6), rng.choice([1, 2, 3]))
        cases = []
        for p in pats:
            if rng.random() < 0.22:
                # guard: the case is selected only when the pattern matches AND the guard holds (run-time or constant guard);
                # the same pattern may follow without guard
                g = rng.choice([self.cond(sc), self.cond(sc), ["optc", 0], ["optc", 1]])
                self.stat("match-guard-" + ("constant" if g[0] == "optc" else "run-time"))
                cases.append([p, self.arm(sc, depth - 1, "case"), g])
                if rng.random() < 0.4:
                    cases.append([p, self.arm(sc, depth - 1, "case")])
            else:
                cases.append([p, self.arm(sc, depth - 1, "case")])
        if rng.random() < 0.1:
            self.stat("match-guard-wildcard")
            cases.append([None, self.arm(sc, depth - 1, "case"), self.cond(sc)])
        d = None
        if rng.random() < 0.6:
            d = self.arm(sc, depth - 1, "default")
        self.stat("match-default" if d else "match-nodefault")
        return ["match", subj, cases, d]

    def lv_cond(self, sc):
        rng = self.rng
        r = rng.random()
        if r < 0.5:
            return ["bitlv", rng.choice(["x", "y", "o0", "v0"])]
        if r < 0.75:
            return ["eq", ["obj", rng.choice(["x", "v0", "s0", "y"])], ["lv", rng.randrange(3)]]
        if r < 0.9:
            return ["andb", ["bitlv", rng.choice(["x", "y"])], self.bitc(sc)]
        return ["eq", ["obj", rng.choice(["idx", "vi"])], ["lv", 0]]

    def gen_forbrk(self, sc, depth):
        rng = self.rng
        s2 = self.sub(sc)
        s2["scope_top"] = False
        s2["lv"] = True
        body = self.arm(s2, max(depth - 1, 0), "for-break")
        els = None
        if rng.random() < 0.6:
            els = self.arm(sc, max(depth - 1, 0), "for-else")
        self.stat("for-break-else" if els else "for-break")
        return ["forbrk", rng.choice([2, 3, 4]), self.lv_cond(sc), body, els]

    # ---- helper functions
    def ret_expr(self, sc, value=True):
        """a returned value is always a fresh temporary: a function whose returns all name the same Variable object
        returns the object itself (alias, as in Python) - not a value; keep that out of the value semantics"""
        if value is None or value is False:
            return None
        if value == "b":
            # one-bit result: Bit or bool typed per branch (the compiler muxes them); arguments may be returned as they are
            e, t = self.bexpr(sc, 1)
            if e[0] == "name" and sc["names"].get(e[1]) in ("tmpbool", "tmpbit", "tmpany"):
                return e
            if e[0] in ("obj", "sl", "name"):
                e = ["boolc", e] if (t == "bit" or e[0] == "obj") else ["lnot", e]
            return e
        e = self.expr8(sc, 1, allow_const=False)
        if e[0] in ("obj", "el", "name"):
            e = ["add", e, ["c", self.rng.choice([1, 2, 4]), 8]]
        return e

    def fn_block(self, sc, depth, value, must_return):
        """a function block: statements, possibly `if` with returns in some branches; ends in a return when must_return"""
        rng = self.rng
        out = []
        n = rng.choice([1, 2, 3])
        for _ in range(n):
            r = rng.random()
            if r < 0.35 and depth > 0 and self.nsplit < 3:
                # if / elif / else with returns in some branches
                self.nsplit += 1
                self.stat("if-partial-return")
                brs = []
                for _ in range(rng.choice([1, 2])):
                    s2 = self.sub(sc)
                    s2["scope_top"] = False
                    brs.append([self.cond(sc), self.fn_block(s2, depth - 1, value, rng.random() < 0.7)])
                els = None
                if rng.random() < 0.4:
                    s2 = self.sub(sc)
                    s2["scope_top"] = False
                    els = self.fn_block(s2, depth - 1, value, rng.random() < 0.5)
                out.append(["if", brs, els])
            elif r < 0.45 and depth > 0:
                # match in which every case returns
                self.stat("match-all-return")
                cases = []
                for p in rng.sample(range(5), rng.choice([1, 2])):
                    s2 = self.sub(sc)
                    s2["scope_top"] = False
                    cases.append([p, self.fn_block(s2, 0, value, True)])
                s2 = self.sub(sc)
                s2["scope_top"] = False
                out.append(["match", ["obj", rng.choice(["x", "y", "v0"])], cases, self.fn_block(s2, 0, value, True)])
                return out
            elif r < 0.55 and depth > 0:
                self.stat("for-return")
                s2 = self.sub(sc)
                s2["scope_top"] = False
                s2["lv"] = True
                body = self.block(s2, 0, n=rng.choice([0, 1])) + [["ret", self.ret_expr(s2, value)]]
                if rng.random() < 0.5:
                    s3 = self.sub(sc)
                    s3["scope_top"] = False
                    out.append(["forret", rng.choice([2, 3]), self.lv_cond(sc), body, self.fn_block(s3, 0, value, True)])
                    return out
                # no for-else: the statements after the loop (and the trailing return) run when no iteration returned
                self.stat("for-return-no-else")
                out.append(["forret", rng.choice([2, 3]), self.lv_cond(sc), body, None])
                out += self.block(sc, 0, n=rng.choice([0, 1, 1]))
            else:
                out += self.block(sc, min(depth, 1), n=1)
        if must_return:
            out.append(["ret", self.ret_expr(sc, value)])
        return out

    def gen_call(self, sc, depth):
        rng = self.rng
        self.ncalls += 1
        value = rng.choice([True, True, "b", "b", False])
        nargs = rng.choice([0, 1, 2])
        # parameters: 8-bit values (`arg`) or one-bit captures (`tmpbool`)
        names = {f"a{chr(97 + j)}": rng.choice(["arg", "arg", "tmpbool"]) for j in range(nargs)}
        fsc = {"names": dict(names), "scope_top": True, "main": False, "calldepth": sc["calldepth"] + 1}
        params = list(names)
        body = self.fn_block(fsc, 2, value, bool(value))
        self.funcs.append({"params": params, "body": body, "value": value})
        fidx = len(self.funcs) - 1
        args = []
        for pn in params:
            if names[pn] == "arg":
                args.append(rng.choice([["obj", rng.choice(["x", "y", "o0", "s0"])], self.binop8(sc)]))
            else:
                # a captured one-bit value is passed into the helper (never a bare variable: that would be an alias)
                caps = [n for n, k in sc["names"].items() if k in ("tmpbool", "tmpbit", "tmpany")]
                if caps and rng.random() < 0.6:
                    args.append(["name", rng.choice(caps)])
                else:
                    args.append(rng.choice([["boolc", ["obj", rng.choice(["f0", "f1", "g0", "c0"])]], self.fresh_one(sc)[0]]))
                self.stat("one-bit-capture-into-helper")
        self.stat("call-value" if value is True else "call-one-bit" if value == "b" else "call-proc")
        if not value:
            return ["callp", fidx, args]
        if sc["scope_top"] and rng.random() < 0.4:
            self.ntmp += 1
            nm = f"t{self.ntmp}"
            sc["names"][nm] = "tmp" if value is True else "tmpany"
            return ["callv", nm, fidx, args]
        if value == "b":
            mode, tgt = rng.choice([("n", rng.choice(ONE_SIG)), ("n", rng.choice(ONE_SIG)), ("v", rng.choice(ONE_VAR))])
            return ["calla", mode, ["obj", tgt], fidx, args]
        mode, tgt = rng.choice([("n", rng.choice(SIG8)), ("n", rng.choice(SIG8)), ("v", rng.choice(VAR8)), ("p", rng.choice(PUSH8))])
        return ["calla", mode, ["obj", tgt], fidx, args]

    def gen_conc(self):
        rng = self.rng
        sc = {"names": {}, "scope_top": True, "main": False, "calldepth": 9, "sigonly": True, "noq": True}
        if rng.random() < 0.8:
            self.conc.append(["q0", self.expr8(sc, 2, True, False)])
            self.stat("concurrent-assign")
        if not self.alwq and rng.random() < 0.5:
            sc2 = dict(sc, noq=False)
            self.conc.append(["q1", self.expr8(sc2, 1, True, False)])
            self.stat("concurrent-assign")
        if rng.random() < 0.5:
            # a chain: q2 is computed from other concurrently driven signals
            drv = [q for q, _ in self.conc] + (["q1"] if self.alwq else [])
            e = self.expr8(dict(sc, noq=True), 1, True, False)
            if drv:
                e = ["add", ["obj", rng.choice(drv)], e] if rng.random() < 0.7 else ["ife", self.cond(sc, True), ["obj", rng.choice(drv)], e]
            self.conc.append(["q2", e])
            self.stat("concurrent-chain")
        rng.shuffle(self.conc)      # the listing order of the assignments is irrelevant (C03.settle_order_independent)


def gen_design(rng, size, depth):
    g = Gen(rng, size, depth)
    sc = {"names": {}, "scope_top": True, "main": True, "calldepth": 0}
    body = g.block(sc, depth, top=True)
    g.gen_conc()
    dfl = {n: rng.randrange(256) for n in SIG8 + VAR8 + PUSH8}
    dfl["vi"] = rng.randrange(4)
    for n in ONE_SIG + ONE_VAR + ["pb"]:
        dfl[n] = rng.randrange(2)
    dfl["vs"] = rng.randrange(256)
    return {"body": body, "funcs": g.funcs, "conc": g.conc, "dflt": dfl, "stats": g.stats}


# ---------------------------------------------------------------------------------------------------
# rendering to python (cohdl design)
# ---------------------------------------------------------------------------------------------------


def py_expr(e, ent, lv="i"):
    k = e[0]
    if k == "c":
        return f"Unsigned[4]({e[1]})" if e[2] == 4 else str(e[1])
    if k == "cb":
        return "True" if e[1] else "False"
    if k == "optc":
        return "OPT_T" if e[1] else "OPT_F"
    if k == "lnot":
        return f"(not {py_expr(e[1], ent, lv)})"
    if k == "land":
        return f"({py_expr(e[1], ent, lv)} and {py_expr(e[2], ent, lv)})"
    if k == "lor":
        return f"({py_expr(e[1], ent, lv)} or {py_expr(e[2], ent, lv)})"
    if k == "boolc":
        return f"bool({py_expr(e[1], ent, lv)})"
    if k == "copy":
        return f"{py_expr(e[1], ent, lv)}.copy()"
    if k == "rsz":
        args = ([str(e[2])] if e[2] is not None else []) + ([f"zeros={e[3]}"] if e[3] else [])
        return f"{py_expr(e[1], ent, lv)}.resize({', '.join(args)})"
    if k == "view":
        return f"{py_expr(e[2], ent, lv)}.{e[1]}"
    if k == "catx":
        return f"({py_expr(e[1], ent, lv)} @ {py_expr(e[2], ent, lv)})"
    if k == "valc":
        return f"std.Value[{e[1]}]({py_expr(e[2], ent, lv)})"
    if k == "lv":
        return lv if e[1] == 0 else f"({lv} + {e[1]})"
    if k == "obj":
        return f"{ent}.{e[1]}"
    if k == "sl":
        return f"{ent}.{e[1]}[{e[2]}]" if e[3] == 1 else f"{ent}.{e[1]}[{e[2] + e[3] - 1}:{e[2]}]"
    if k == "bitlv":
        return f"{ent}.{e[1]}[{lv}]"
    if k == "el":
        return f"{ent}.{e[1]}[{py_expr(e[2], ent, lv)}]"
    if k == "name":
        return e[1]
    if k == "nsl":
        return f"{e[1]}[{e[2]}]" if e[3] == 1 else f"{e[1]}[{e[2] + e[3] - 1}:{e[2]}]"
    if k == "nview":
        return f"{e[1]}.{e[2]}"
    if k == "add":
        return f"({py_expr(e[1], ent, lv)} + {py_expr(e[2], ent, lv)})"
    if k == "ife":
        return f"({py_expr(e[2], ent, lv)} if {py_expr(e[1], ent, lv)} else {py_expr(e[3], ent, lv)})"
    if k == "selw":
        brs = ", ".join(f"{p}: {py_expr(v, ent, lv)}" for p, v in e[2])
        return f"cohdl.select_with({py_expr(e[1], ent, lv)}, {{{brs}}}, default={py_expr(e[3], ent, lv)})"
    if k == "nb":
        return f"(~{py_expr(e[1], ent, lv)})"
    if k == "andb":
        return f"({py_expr(e[1], ent, lv)} & {py_expr(e[2], ent, lv)})"
    if k == "orb":
        return f"({py_expr(e[1], ent, lv)} | {py_expr(e[2], ent, lv)})"
    if k == "eq":
        return f"({py_expr(e[1], ent, lv)} == {py_expr(e[2], ent, lv)})"
    raise AssertionError(e)


OPS = {"n": ("<<=", "next"), "v": ("@=", "value"), "p": ("^=", "push")}


_LOOPS = []


def py_block(stmts, ind, ent, lv="i"):
    pad = "    " * ind
    out = []
    for s in stmts:
        k = s[0]
        if k == "as":
            _, mode, tgt, e, form = s
            t = py_expr(tgt, ent, lv)
            if form == "prop" and tgt[0] == "obj":
                out.append(f"{pad}{t}.{OPS[mode][1]} = {py_expr(e, ent, lv)}")
            else:
                out.append(f"{pad}{t} {OPS[mode][0]} {py_expr(e, ent, lv)}")
        elif k == "if":
            for j, (c, b) in enumerate(s[1]):
                out.append(f"{pad}{'if' if j == 0 else 'elif'} {py_expr(c, ent, lv)}:")
                out += py_block(b, ind + 1, ent, lv) or [f"{pad}    pass"]
            if s[2] is not None:
                out.append(f"{pad}else:")
                out += py_block(s[2], ind + 1, ent, lv) or [f"{pad}    pass"]
        elif k == "match":
            out.append(f"{pad}match {py_expr(s[1], ent, lv)}:")
            for c in s[2]:
                guard = f" if {py_expr(c[2], ent, lv)}" if len(c) > 2 else ""
                out.append(f"{pad}    case {'_' if c[0] is None else c[0]}{guard}:")
                out += py_block(c[1], ind + 2, ent, lv) or [f"{pad}        pass"]
            if s[3] is not None:
                out.append(f"{pad}    case _:")
                out += py_block(s[3], ind + 2, ent, lv) or [f"{pad}        pass"]
        elif k in ("forbrk", "forret"):
            lv2 = lv + "i" if f"for {lv} " in "".join(_LOOPS) else lv
            _LOOPS.append(f"for {lv2} ")
            out.append(f"{pad}for {lv2} in range({s[1]}):")
            out.append(f"{pad}    if {py_expr(s[2], ent, lv2)}:")
            out += py_block(s[3], ind + 2, ent, lv2)
            _LOOPS.pop()
            if k == "forbrk":
                out.append(f"{pad}        break")
            if s[4] is not None:
                out.append(f"{pad}else:")
                out += py_block(s[4], ind + 1, ent, lv) or [f"{pad}    pass"]
        elif k == "for":
            lv2 = lv + "i" if f"for {lv} " in "".join(_LOOPS) else lv
            _LOOPS.append(f"for {lv2} ")
            out.append(f"{pad}for {lv2} in range({s[1]}):")
            out += py_block(s[2], ind + 1, ent, lv2) or [f"{pad}    pass"]
            _LOOPS.pop()
        elif k == "pass":
            out.append(f"{pad}pass")
        elif k == "cif":
            out.append(f"{pad}if {'OPT_T' if s[1] else 'OPT_F'}:")
            out += py_block(s[2], ind + 1, ent, lv) or [f"{pad}    pass"]
        elif k == "let":
            out.append(f"{pad}{s[1]} = {py_expr(s[2], ent, lv)}")
        elif k == "alias":
            out.append(f"{pad}{s[1]} = {ent}.{s[2]}")
        elif k == "aliasx":
            out.append(f"{pad}{s[1]} = {py_expr(s[2], ent, lv)}")
        elif k == "bind":
            out.append(f"{pad}{s[1]} = {ent}.{s[2]}[{py_expr(s[3], ent, lv)}]")
        elif k == "decl":
            out.append(f"{pad}{s[1]} = Signal[Unsigned[8]]({py_expr(s[3], ent, lv)})")
        elif k == "alw":
            out.append(f"{pad}with cohdl.always:")
            out.append(f"{pad}    {s[1]} = {py_expr(s[2], ent, lv)}")
        elif k == "alwq":
            out.append(f"{pad}with cohdl.always:")
            out.append(f"{pad}    {ent}.{s[1]} <<= {py_expr(s[2], ent, lv)}")
        elif k == "ret":
            out.append(f"{pad}return" if s[1] is None else f"{pad}return {py_expr(s[1], ent, lv)}")
        elif k in ("callv", "callp", "calla"):
            fidx, args = (s[2], s[3]) if k == "callv" else (s[1], s[2]) if k == "callp" else (s[3], s[4])
            call = f"h{fidx}({', '.join([ent] + [py_expr(a, ent, lv) for a in args])})"
            if k == "callv":
                out.append(f"{pad}{s[1]} = {call}")
            elif k == "callp":
                out.append(f"{pad}{call}")
            else:
                out.append(f"{pad}{py_expr(s[2], ent, lv)} {OPS[s[1]][0]} {call}")
        else:
            raise AssertionError(s)
    return out


def render_source(d):
    out = ["import cohdl", "from cohdl import Bit, BitVector, Unsigned, Signed, Port, Signal, Variable, Array, Null", "from cohdl import std", "",
           "OPT_T = True      # build-time options of the design", "OPT_F = False", ""]
    for j, f in enumerate(d["funcs"]):
        out.append(f"def h{j}({', '.join(['e'] + f['params'])}):")
        out += py_block(f["body"], 1, "e") or ["    pass"]
        out.append("")
    dfl = d["dflt"]
    out.append("class W(cohdl.Entity):")
    out.append("    clk = Port.input(Bit)")
    for n in ("c0", "c1", "c2", "c3"):
        out.append(f"    {n} = Port.input(Bit)")
    out.append("    x = Port.input(Unsigned[8])")
    out.append("    y = Port.input(Unsigned[8])")
    out.append("    idx = Port.input(Unsigned[2])")
    for n in ("o0", "o1", "o2", "o3", "p0", "p1"):
        out.append(f"    {n} = Port.output(Unsigned[8], default={dfl[n]})")
    out.append(f"    p2 = Port.output(Unsigned[8], default={dfl.get('p2', 0)}, noreset=True)")
    out.append(f"    pb = Port.output(Bit, default={bool(dfl.get('pb', 0))}, noreset=True)")
    out.append("    w0 = Port.output(Unsigned[12], default=Null)")
    out.append("    ws = Port.output(Signed[12], default=Null)")
    out.append("    sg = Port.output(Signed[8], default=Null)")
    out.append("    bv = Port.output(BitVector[8], default=Null)")
    for n in ("b0", "b1"):
        out.append(f"    {n} = Port.output(Bit, default={bool(dfl.get(n, 0))})")
    out.append(f"    b2 = Port.output(bool, default={bool(dfl.get('b2', 0))})")
    out.append("    q0 = Port.output(Unsigned[8], default=Null)")
    out.append("    q1 = Port.output(Unsigned[8], default=Null)")
    out.append("    q2 = Port.output(Unsigned[8], default=Null)")
    out.append("")
    out.append("    def architecture(self):")
    out.append(f"        self.s0 = Signal[Unsigned[8]]({dfl['s0']}, name='s0')")
    out.append(f"        self.v0 = Variable[Unsigned[8]]({dfl['v0']}, name='v0')")
    out.append(f"        self.v1 = Variable[Unsigned[8]]({dfl['v1']}, name='v1')")
    out.append(f"        self.vi = Variable[Unsigned[2]]({dfl['vi']}, name='vi')")
    out.append(f"        self.ps = Signal[Unsigned[8]]({dfl.get('ps', 0)}, name='ps')")
    out.append(f"        self.pn = Signal[Unsigned[8]]({dfl.get('pn', 0)}, name='pn', noreset=True)")
    out.append(f"        self.pr = std.NoresetSignal[Unsigned[8]]({dfl.get('pr', 0)}, name='pr')")
    out.append(f"        self.vs = Variable[Signed[8]]({dfl.get('vs', 0) - 256 if dfl.get('vs', 0) > 127 else dfl.get('vs', 0)}, name='vs')")
    out.append(f"        self.f0 = Variable[bool]({bool(dfl.get('f0', 0))}, name='f0')")
    out.append(f"        self.f1 = Variable[bool]({bool(dfl.get('f1', 0))}, name='f1')")
    out.append(f"        self.g0 = Variable[Bit]({bool(dfl.get('g0', 0))}, name='g0')")
    out.append(f"        self.sb = Signal[bool]({bool(dfl.get('sb', 0))}, name='sb')")
    out.append("        self.arr = Signal[Array[Unsigned[8], 4]](Null, name='arr')")
    out.append("        self.va = Variable[Array[Unsigned[8], 4]](Null, name='va')")
    out.append("")
    if d["conc"]:
        out.append("        @std.concurrent")
        out.append("        def conc():")
        for q, e in d["conc"]:
            out.append(f"            self.{q} <<= {py_expr(e, 'self')}")
        out.append("")
    out.append("        @std.sequential(std.Clock(self.clk))")
    out.append("        def proc():")
    out += py_block(d["body"], 3, "self") or ["            pass"]
    return "\n".join(out) + "\n"


# ---------------------------------------------------------------------------------------------------
# rendering to the Lean s-expression (source-level semantics)
# ---------------------------------------------------------------------------------------------------


class Sx:
    def __init__(self, d, hoist=False):
        self.d = d
        self.hoist = hoist      # render `with cohdl.always: t = e` as a concurrent assignment to a signal of its own
        self.nhoist = 0
        self.k = 0
        self.conc = []

    def fresh(self):
        self.k += 1
        return self.k

    def expr(self, e, env):
        k = e[0]
        if k in ("c", "cb", "optc"):
            return f"(c {e[1]})"
        if k == "lnot":
            return f"(not {self.expr(e[1], env)})"
        if k == "land":
            return f"(and {self.expr(e[1], env)} {self.expr(e[2], env)})"
        if k == "lor":
            return f"(or {self.expr(e[1], env)} {self.expr(e[2], env)})"
        if k == "boolc":
            return f"(not (not {self.expr(e[1], env)}))"
        if k == "copy":
            return self.expr(e[1], env)
        if k == "view":
            return self.expr(e[2], env)          # a view shows the same bits
        if k == "catx":
            return f"(cat {self.expr(e[1], env)} {e[2][3]} {self.expr(e[2], env)})"
        if k == "rsz":
            src = self.expr(e[1], env)
            wsrc = 8
            padded = f"(cat {src} {e[3]} (c 0))" if e[3] else src
            wpad = wsrc + e[3]
            wres = e[2] if e[2] is not None else wpad
            if e[1] == ["obj", "vs"] and wres > wpad:      # Signed: sign extension
                ext = ((1 << wres) - 1) ^ ((1 << wpad) - 1)
                return f"(add {wres} {padded} (sel (rd v {oid('vs')} (c 0) 7 1) (c {ext}) (c 0)))"
            return padded
        if k == "valc":
            return self.expr(e[2], env)
        if k == "lv":
            return f"(c {env['__lv'] + e[1]})"
        if k == "obj":
            _, kind, sp, _, w = OBJS[e[1]]
            return f"(rd {sp} {oid(e[1])} (c 0) 0 {w})"
        if k == "sl":
            return f"(rd {OBJS[e[1]][2]} {oid(e[1])} (c 0) {e[2]} {e[3]})"
        if k == "bitlv":
            return f"(rd {OBJS[e[1]][2]} {oid(e[1])} (c 0) {env['__lv']} 1)"
        if k == "el":
            return f"(rd {OBJS[e[1]][2]} {oid(e[1])} {self.expr(e[2], env)} 0 8)"
        if k == "name":
            b = env[e[1]]
            if b[0] in ("tmp", "locsig"):
                return f"(t {b[1]})"
            if b[0] == "hoist":
                return f"(rd s {b[1]} (c 0) 0 8)"
            if b[0] == "alias":      # `x = self.v`: the name denotes the object itself
                return self.expr(["obj", b[1]], env)
            if b[0] == "aliasx":     # view / slice of an object: evaluated when it is used
                return self.expr(b[1], env)
            return f"(rd {OBJS[b[2]][2]} {oid(b[2])} (t {b[1]}) 0 8)"     # reference with captured index
        if k == "nsl":
            return f"(sl (t {env[e[1]][1]}) {e[2]} {e[3]})"
        if k == "nview":
            return f"(t {env[e[1]][1]})"
        if k == "add":
            w = 2 if (e[1][0] == "obj" and e[1][1] in ("vi", "idx")) else 8
            return f"(add {w} {self.expr(e[1], env)} {self.expr(e[2], env)})"
        if k == "ife":
            return f"(sel {self.expr(e[1], env)} {self.expr(e[2], env)} {self.expr(e[3], env)})"
        if k == "selw":
            r = self.expr(e[3], env)
            subj = self.expr(e[1], env)
            for p, v in reversed(e[2]):
                r = f"(sel (eq {subj} (c {p})) {self.expr(v, env)} {r})"
            return r
        if k == "nb":
            return f"(not {self.expr(e[1], env)})"
        if k == "andb":
            return f"(and {self.expr(e[1], env)} {self.expr(e[2], env)})"
        if k == "orb":
            return f"(or {self.expr(e[1], env)} {self.expr(e[2], env)})"
        if k == "eq":
            return f"(eq {self.expr(e[1], env)} {self.expr(e[2], env)})"
        raise AssertionError(e)

    def target(self, t, env):
        k = t[0]
        if k == "obj":
            return f"(tg {oid(t[1])} (c 0) 0 {OBJS[t[1]][4]})"
        if k == "sl":
            return f"(tg {oid(t[1])} (c 0) {t[2]} {t[3]})"
        if k == "el":
            return f"(tg {oid(t[1])} {self.expr(t[2], env)} 0 8)"
        if k == "name":
            b = env[t[1]]
            if b[0] == "locsig":
                return f"(tg {b[2]} (c 0) 0 8)"
            return f"(tg {oid(b[2])} (t {b[1]}) 0 8)"
        raise AssertionError(t)

    def seq(self, xs):
        xs = [x for x in xs if x != "skip"]
        if not xs:
            return "skip"
        r = xs[-1]
        for x in reversed(xs[:-1]):
            r = f"(seq {x} {r})"
        return r

    def call(self, fidx, args, env):
        f = self.d["funcs"][fidx]
        pre = []
        fenv = {"__res": self.fresh()}
        for p, a in zip(f["params"], args):
            kk = self.fresh()
            pre.append(f"(cap {kk} {self.expr(a, env)})")
            fenv[p] = ("tmp", kk)
        body = self.block(f["body"], fenv)
        return self.seq(pre + [f"(call {body})"]), fenv["__res"]

    def block(self, stmts, env):
        out = []
        for s in stmts:
            k = s[0]
            if k == "as":
                out.append(f"(as {s[1]} {self.target(s[2], env)} {self.expr(s[3], env)})")
            elif k == "if":
                r = self.block(s[2], dict(env)) if s[2] is not None else "skip"
                for c, b in reversed(s[1]):
                    r = f"(ite {self.expr(c, env)} {self.block(b, dict(env))} {r})"
                out.append(r)
            elif k == "match":
                r = self.block(s[3], dict(env)) if s[3] is not None else "skip"
                subj = self.expr(s[1], env)
                for c in reversed(s[2]):
                    b = self.block(c[1], dict(env))
                    if len(c) == 2:
                        r = f"(mc {subj} {c[0]} {b} {r})"
                    elif c[0] is None:
                        r = f"(ite {self.expr(c[2], env)} {b} {r})"
                    else:
                        r = f"(ite (and (eq {subj} (c {c[0]})) {self.expr(c[2], env)}) {b} {r})"
                out.append(r)
            elif k in ("forbrk", "forret"):
                r = self.block(s[4], dict(env)) if s[4] is not None else "skip"
                for i in reversed(range(s[1])):
                    e2 = dict(env)
                    e2["__lv"] = i
                    r = f"(ite {self.expr(s[2], e2)} {self.block(s[3], e2)} {r})"
                out.append(r)
            elif k == "for":
                for i in range(s[1]):
                    e2 = dict(env)
                    e2["__lv"] = i
                    out.append(self.block(s[2], e2))
            elif k == "pass":
                pass
            elif k == "cif":
                if s[1]:
                    out.append(self.block(s[2], env))
            elif k == "alw" and self.hoist:
                hid = HOIST_BASE + self.nhoist
                self.nhoist += 1
                self.conc.append((hid, self.expr(s[2], env)))
                env[s[1]] = ("hoist", hid)
            elif k in ("let", "alw"):
                kk = self.fresh()
                out.append(f"(cap {kk} {self.expr(s[2], env)})")
                env[s[1]] = ("tmp", kk)
            elif k == "alias":
                env[s[1]] = ("alias", s[2])
            elif k == "aliasx":
                env[s[1]] = ("aliasx", s[2])
            elif k == "bind":
                kk = self.fresh()
                out.append(f"(cap {kk} {self.expr(s[3], env)})")
                env[s[1]] = ("ref", kk, s[2])
            elif k == "decl":
                kk = self.fresh()
                out.append(f"(decl {s[2]} {kk} 8 {self.expr(s[3], env)})")
                env[s[1]] = ("locsig", kk, s[2])
            elif k == "alwq":
                self.conc.append((s[1], self.expr(s[2], env)))
            elif k == "ret":
                out.append(f"(ret {env['__res']} {self.expr(s[1], env) if s[1] is not None else '(c 0)'})")
            elif k == "callp":
                out.append(self.call(s[1], s[2], env)[0])
            elif k == "callv":
                c, res = self.call(s[2], s[3], env)
                out.append(c)
                env[s[1]] = ("tmp", res)
            elif k == "calla":
                c, res = self.call(s[3], s[4], env)
                out.append(c)
                out.append(f"(as {s[1]} {self.target(s[2], env)} (t {res}))")
            else:
                raise AssertionError(s)
        return self.seq(out)

    def prog(self):
        d = self.d
        body = self.block(d["body"], {"__res": 0})
        # any listing order: the model settles the assignments in a topological order of their dependencies
        conc = self.conc + [(q, self.expr(e, {})) for q, e in d["conc"]]
        objs = []
        for n, (i, kind, sp, nelem, w) in OBJS.items():
            dv = [d["dflt"].get(n, 0)] * 1 if nelem == 1 else [0] * nelem
            objs.append(f"(o {i} {sp} {nelem} {w} {' '.join(map(str, dv))})")
        for j in range(2):
            objs.append(f"(o {LOC_BASE + j} s 1 8 0)")
        for j in range(8):
            objs.append(f"(o {HOIST_BASE + j} s 1 8 0)")
        obs = [oid(n) for n in PORT_OBS + INNER_OBS]
        cs = " ".join(f"(ca (tg {q if isinstance(q, int) else oid(q)} (c 0) 0 8) {e})" for q, e in conc)
        return (f"(prog (objs {' '.join(objs)}) (pushed {' '.join(str(oid(n)) for n in ALL_PUSHED)}) (body {body}) "
                f"(conc {cs}) (obs {' '.join(map(str, obs))}) (pre {oid('q0')} {oid('q1')} {oid('q2')}))")


def prog_sexp(d, hoist=False):
    return Sx(d, hoist).prog()


# ---------------------------------------------------------------------------------------------------
# real compiler + simulation
# ---------------------------------------------------------------------------------------------------


def compile_task(src):
    import_cohdl()
    from cohdl import std

    try:
        mod = load_design_module(src, "c03")
        return {"ok": True, "vhdl": std.VhdlCompiler.to_string(mod.W)}
    except BaseException as e:  # noqa
        return {"ok": False, "errtype": type(e).__name__, "err": str(e)[-300:]}


def fmt(v, signed_width=None):
    if v is None:
        return "-"
    if isinstance(v, list):
        return "/".join(fmt(x) for x in v)
    return str(int(v) % (1 << signed_width) if signed_width else int(v))


def sim_one(vhdl, seq):
    d = Design(vhdl)
    d.set("clk", 0)
    for n in INPUTS:
        d.set(n, 0)
    d.initialise()
    inner = {}
    for n in INNER_OBS:
        for path in (n, f"proc.{n}"):
            try:
                inner[n] = d.find(path)
                break
            except KeyError:
                pass
    out = []
    for clk in seq:
        for n, v in zip(INPUTS, clk):
            d.set(n, v)
        d.settle()
        vals = [fmt(d.get(n)) for n in PRE_OBS]      # concurrent outputs follow the inputs without a clock edge
        d.clock("clk")
        vals += [fmt(d.get(n), SIGNED.get(n)) for n in PORT_OBS]
        vals += [fmt(to_py(inner[n].val), SIGNED.get(n)) if n in inner else "*" for n in INNER_OBS]
        out.append(",".join(vals))
    return ";".join(out)


def sim_task(task):
    vhdl, seqs = task
    return [sim_one(vhdl, s) for s in seqs]


def seq_tokens(seq):
    return " ; ".join(" ".join(f"{oid(n)}:{v}" for n, v in zip(INPUTS, clk)) for clk in seq)


def gen_inputs(rng, n_seq, length):
    seqs = []
    # a sweep: every value 0..7 of x / y and 0..3 of idx occurs, so that every arm of a match on them (and no arm) is selected
    off = rng.randrange(8)
    seqs.append([[(k * 5 + off) >> j & 1 for j in range(4)] + [(k + off) % 8, (k // 2 + off) % 8, (k + k // 4) % 4] for k in range(length)])
    for _ in range(n_seq - 1):
        p = rng.choice([0.25, 0.5, 0.75])
        small = rng.random() < 0.7
        seq = []
        for _ in range(length):
            cs = [1 if rng.random() < p else 0 for _ in range(4)]
            x = rng.randrange(8) if small and rng.random() < 0.7 else rng.randrange(256)
            y = rng.randrange(8) if small and rng.random() < 0.5 else rng.randrange(256)
            seq.append(cs + [x, y, rng.randrange(4)])
        seqs.append(seq)
    return seqs


def mask(model, impl):
    """internal objects the emitted design does not contain (never used) are not compared"""
    out = []
    for cm, ci in zip(model.split(";"), impl.split(";")):
        fm, fi = cm.split(","), ci.split(",")
        out.append(",".join("*" if b == "*" else a for a, b in zip(fm, fi)))
    return ";".join(out)


def first_diff(a, b):
    xa, xb = a.split(";"), b.split(";")
    for i, (x, y) in enumerate(zip(xa, xb)):
        if x != y:
            return i
    return None


def compare(sx, vhdl, seqs, op="run"):
    """None or (sequence prefix, clock, expected, observed)"""
    model = lean_io.query("C03", [f"{op} {sx} | {seq_tokens(s)}" for s in seqs])
    impl = sim_task((vhdl, seqs))
    for s, m, i in zip(seqs, model, impl):
        if m == "bad-op":
            raise InfraError("model driver rejected the program: " + sx[:300])
        m = mask(m, i)
        if m != i:
            k = first_diff(m, i)
            return (s[: k + 1], k, m.split(";")[k], i.split(";")[k])
    return None


def describe(exp, obs):
    names = ALL_OBS
    diffs = [f"{n}: expected {a}, observed {b}" for n, a, b in zip(names, exp.split(","), obs.split(",")) if a != b]
    return "; ".join(diffs)


# ---------------------------------------------------------------------------------------------------
# shrinking
# ---------------------------------------------------------------------------------------------------


def _variants(stmts):
    """candidate reductions of a statement list: drop one statement, replace a compound by one of its bodies, recurse"""
    for i, s in enumerate(stmts):
        yield stmts[:i] + stmts[i + 1:]
        k = s[0]
        subs = []
        if k == "if":
            subs = [b for _, b in s[1]] + ([s[2]] if s[2] is not None else [])
            if s[2] is not None:
                yield stmts[:i] + [["if", s[1], None]] + stmts[i + 1:]
            if len(s[1]) > 1:
                for j in range(len(s[1])):
                    yield stmts[:i] + [["if", s[1][:j] + s[1][j + 1:], s[2]]] + stmts[i + 1:]
            for j, (c, b) in enumerate(s[1]):
                for v in _variants(b):
                    yield stmts[:i] + [["if", s[1][:j] + [[c, v]] + s[1][j + 1:], s[2]]] + stmts[i + 1:]
            if s[2] is not None:
                for v in _variants(s[2]):
                    yield stmts[:i] + [["if", s[1], v]] + stmts[i + 1:]
        elif k == "match":
            subs = [c[1] for c in s[2]] + ([s[3]] if s[3] is not None else [])
            if len(s[2]) > 1:
                for j in range(len(s[2])):
                    yield stmts[:i] + [["match", s[1], s[2][:j] + s[2][j + 1:], s[3]]] + stmts[i + 1:]
            for j, c in enumerate(s[2]):
                if len(c) > 2 and c[0] is not None:
                    yield stmts[:i] + [["match", s[1], s[2][:j] + [c[:2]] + s[2][j + 1:], s[3]]] + stmts[i + 1:]
                for v in _variants(c[1]):
                    yield stmts[:i] + [["match", s[1], s[2][:j] + [[c[0], v] + c[2:]] + s[2][j + 1:], s[3]]] + stmts[i + 1:]
            if s[3] is not None:
                for v in _variants(s[3]):
                    yield stmts[:i] + [["match", s[1], s[2], v]] + stmts[i + 1:]
        elif k in ("forbrk", "forret"):
            if k == "forbrk":
                subs = [s[4]] if s[4] is not None else []
            if s[4] is not None:
                yield stmts[:i] + [[k, s[1], s[2], s[3], None]] + stmts[i + 1:]
            if s[1] > 1:
                yield stmts[:i] + [[k, s[1] - 1, s[2], s[3], s[4]]] + stmts[i + 1:]
            for v in _variants(s[3]):
                if v:
                    yield stmts[:i] + [[k, s[1], s[2], v, s[4]]] + stmts[i + 1:]
            if s[4] is not None:
                for v in _variants(s[4]):
                    if v or k == "forbrk":
                        yield stmts[:i] + [[k, s[1], s[2], s[3], v]] + stmts[i + 1:]
        elif k == "cif":
            if s[1]:
                subs = [s[2]]
            for v in _variants(s[2]):
                if v:
                    yield stmts[:i] + [["cif", s[1], v]] + stmts[i + 1:]
        elif k == "for":
            for v in _variants(s[2]):
                if v:
                    yield stmts[:i] + [["for", s[1], v]] + stmts[i + 1:]
        elif k == "as" and s[3][0] not in ("c", "obj"):
            yield stmts[:i] + [["as", s[1], s[2], ["c", 201, 4 if s[2][0] in ("sl",) and s[2][3] == 4 else 8], s[4]]] + stmts[i + 1:]
        for b in subs:
            yield stmts[:i] + b + stmts[i + 1:]


def design_variants(d):
    for v in _variants(d["body"]):
        yield dict(d, body=v)
    for j, f in enumerate(d["funcs"]):
        for v in _variants(f["body"]):
            fs = list(d["funcs"])
            fs[j] = dict(f, body=v)
            yield dict(d, funcs=fs)
    for j in range(len(d["conc"])):
        yield dict(d, conc=d["conc"][:j] + d["conc"][j + 1:])


def shrink(d, seq, rounds=60, width=64, budget_s=45):
    """greedy reduction of the design (candidates of one round are compiled together), then of the input sequence"""
    t_end = time.time() + budget_s
    for _ in range(rounds):
        if time.time() > t_end:
            break
        cands = []
        for c in design_variants(d):
            try:
                cands.append((c, render_source(c), prog_sexp(c)))
            except Exception:  # noqa  (a reduction that removed a definition still in use)
                continue
        found = None
        for off in range(0, len(cands), width):
            chunk = cands[off: off + width]
            comp = fork_map(compile_task, [c[1] for c in chunk])
            ok = [(c, r[1]["vhdl"]) for c, r in zip(chunk, comp) if r[0] == "ok" and r[1]["ok"]]
            if not ok:
                continue
            model = lean_io.query("C03", [f"run {c[2]} | {seq_tokens(seq)}" for c, _ in ok])
            for (c, vhdl), m in zip(ok, model):
                if m == "bad-op":
                    continue
                try:
                    i = sim_one(vhdl, seq)
                except Exception:  # noqa
                    continue
                if mask(m, i) != i:
                    found = c[0]
                    break
            if found is not None:
                break
        if found is None:
            break
        d = found
    src, sx = render_source(d), prog_sexp(d)
    vhdl = fork_map(compile_task, [src])[0][1]["vhdl"]

    def bad(s):
        return bool(s) and compare(sx, vhdl, [s]) is not None

    seq = [list(c) for c in seq]
    i = 0
    while i < len(seq):
        cand = seq[:i] + seq[i + 1:]
        if bad(cand):
            seq = cand
        else:
            i += 1
    for i in range(len(seq)):
        for j in range(len(INPUTS)):
            if time.time() > t_end + 15:
                break
            for small in (0, 1, 2, 3, 4, 5, 7, 8, 16):
                if small < seq[i][j]:
                    cand = [list(c) for c in seq]
                    cand[i][j] = small
                    if bad(cand):
                        seq = cand
                        break
    return d, seq


# ---------------------------------------------------------------------------------------------------
# hand-written designs: one per law, always checked first
# ---------------------------------------------------------------------------------------------------

def _as(mode, tgt, e, form="op"):
    return ["as", mode, tgt, e, form]


def fixed_designs():
    O = lambda n: ["obj", n]  # noqa
    C = lambda n, w=8: ["c", n, w]  # noqa
    dfl = {"o0": 1, "o1": 2, "o2": 3, "o3": 4, "s0": 5, "p0": 6, "p1": 7, "v0": 1, "v1": 2, "vi": 0,
           "p2": 8, "ps": 9, "pn": 10, "pr": 11, "pb": 1, "vs": 250}
    ds = []
    # read-after-write of a signal, two writes, last wins, unassigned holds
    ds.append(("law:signal-old/last-wins", [
        _as("n", O("s0"), ["add", O("s0"), C(1)]), _as("n", O("o0"), O("s0")), _as("n", O("s0"), ["add", O("s0"), C(2)], "prop"),
        _as("n", O("o1"), C(11)), ["if", [[O("c0"), [_as("n", O("o1"), C(12)), _as("n", O("o2"), O("o1"))]]], None],
        _as("n", ["sl", "o3", 0, 4], ["sl", "x", 4, 4]), ["if", [[O("c1"), [_as("n", O("o3"), O("x"))]]], None],
        ["if", [[O("c2"), [_as("n", ["sl", "o3", 4, 4], C(9, 4))]]], None]], [], []))
    # variable immediate
    ds.append(("law:variable-immediate", [
        _as("v", O("v0"), ["add", O("v0"), O("v0")]), _as("n", O("o0"), O("v0")), _as("v", O("v0"), ["add", O("v0"), C(1)], "prop"),
        _as("n", O("o1"), O("v0")), ["if", [[O("c0"), [_as("v", O("v1"), O("v0")), _as("v", O("v0"), C(3))]]], None],
        _as("n", O("o2"), O("v1")), _as("v", ["sl", "v1", 0, 4], ["sl", "v0", 0, 4]), _as("n", O("o3"), O("v1"))], [], []))
    # push exactly one step
    ds.append(("law:push-one-step", [
        ["if", [[O("c0"), [_as("p", O("p0"), O("x"))]]], None],
        ["if", [[O("c1"), [_as("p", ["sl", "p1", 4, 4], ["sl", "x", 0, 4])]], [O("c2"), [_as("p", O("p1"), C(99), "prop")]]], None],
        _as("n", O("o0"), O("p0")), _as("n", O("o1"), O("p1")),
        # every declaration option of a push target: port noreset, signal, signal noreset, std.NoresetSignal, Bit port noreset
        ["if", [[O("c3"), [_as("p", O("p2"), O("y")), _as("p", O("ps"), O("y")), _as("p", O("pn"), ["add", O("y"), C(1)]),
                           _as("p", O("pr"), O("y"), "prop"), _as("p", O("pb"), ["nb", O("pb")])]]], None],
        ["if", [[["andb", O("c0"), O("c3")], [_as("p", ["sl", "pn", 0, 4], ["sl", "x", 4, 4])]]], None],
        _as("n", O("o2"), O("pn")), _as("n", O("o3"), O("p2"))], [], []))
    # first true branch only: overlapping conditions in if/elif, for-break chain, match
    ds.append(("law:first-true-branch", [
        ["if", [[O("c0"), [_as("n", O("o0"), C(21))]], [O("c1"), [_as("n", O("o0"), C(22))]], [O("c2"), [_as("n", O("o0"), C(23))]]],
         [_as("n", O("o0"), C(24))]],
        ["forbrk", 4, ["bitlv", "x"], [_as("n", O("o1"), ["lv", 30]), _as("v", O("v0"), ["add", O("v0"), C(1)])],
         [_as("n", O("o1"), C(39))]],
        ["forbrk", 3, ["eq", O("y"), ["lv", 1]], [_as("n", O("o2"), ["lv", 40])], None],
        ["match", O("x"), [[1, [_as("n", O("o3"), C(51))]], [3, [_as("n", O("o3"), C(53))]]], [_as("n", O("o3"), C(59))]],
        ["match", O("idx"), [[0, [_as("n", O("s0"), C(60))]], [2, [_as("n", O("s0"), C(62))]]], None],
        # arms without statements (`pass`, body removed by a build-time option) hold their targets, the default runs only
        # when no pattern matches; arms assigning only some of the targets
        ["match", O("y"), [[0, [["pass"]]], [1, [["cif", False, [_as("n", O("o2"), C(71))]]]], [2, [_as("n", O("o2"), C(72))]],
                           [3, [["cif", True, [_as("n", O("o3"), C(73))]]]]], [_as("n", O("o2"), C(79)), _as("n", O("o3"), C(78))]],
        ["match", O("idx"), [[1, [["pass"]]], [3, [_as("v", O("v1"), ["add", O("v1"), C(1)])]]], [_as("v", O("v1"), ["add", O("v1"), O("v1")]), _as("p", O("p0"), C(77))]],
        ["match", O("x"), [[4, [["pass"]]]], None],
        ["if", [[O("c3"), [["pass"]]], [O("c1"), [["cif", False, [_as("n", O("w0"), C(81))]]]]], [_as("n", O("w0"), C(82))]],
        _as("n", O("bv"), ["selw", O("y"), [[0, O("x")], [2, C(91)]], C(92)])], [], []))
    # index captured at access time
    ds.append(("law:index-captured", [
        ["bind", "r1", "arr", O("vi")], ["bind", "r2", "va", O("vi")], _as("v", O("vi"), ["add", O("vi"), C(1, 2)]),
        _as("n", ["name", "r1"], O("x")), _as("v", ["name", "r2"], ["add", O("x"), C(1)]),
        _as("n", O("o0"), ["el", "arr", O("idx")]), _as("n", O("o1"), ["el", "va", O("idx")]),
        _as("n", O("o2"), ["name", "r2"]), _as("n", ["el", "arr", O("vi")], C(77))], [], []))
    # helper with returns in nested branches, for-return, local signal, always
    f0 = {"params": ["aa"], "value": True, "body": [
        ["if", [[O("c0"), [["ret", ["add", ["name", "aa"], C(1)]]]],
                [O("c1"), [["if", [[O("c2"), [["ret", ["add", ["name", "aa"], C(2)]]]]], None], _as("n", O("o1"), C(77))]]], None],
        _as("v", O("v0"), ["add", O("v0"), C(1)]),
        ["ret", ["add", ["name", "aa"], C(3)]]]}
    f1 = {"params": [], "value": True, "body": [
        ["forret", 3, ["bitlv", "y"], [_as("n", O("o2"), ["lv", 80]), ["ret", ["add", O("x"), ["lv", 0]]]],
         [_as("n", O("o2"), C(89)), ["ret", ["add", O("x"), C(9)]]]]]}
    f2 = {"params": [], "value": False, "body": [
        ["if", [[["andb", O("c0"), O("c3")], [["ret", None]]]], None], _as("n", O("o3"), C(90)),
        ["if", [[["nb", O("c2")], [["ret", None]]]], None], _as("n", O("o3"), C(91))]}
    ds.append(("law:return-first-wins", [
        ["calla", "n", O("o0"), 0, [O("x")]], ["callv", "t1", 1, []], _as("n", O("s0"), ["name", "t1"]), ["callp", 2, []],
        ["decl", "loc0", LOC_BASE, ["add", O("x"), C(1)]], _as("n", ["name", "loc0"], C(4)),
        _as("n", ["sl", "o1", 0, 4], ["nsl", "loc0", 0, 4]),
        ["alw", "a1", ["add", O("x"), O("s0")]], _as("p", O("p0"), ["name", "a1"]),
        ["alwq", "q1", ["add", O("s0"), C(1)]]], [f0, f1, f2], [["q0", ["ife", O("c0"), ["add", O("o0"), O("x")], O("o1")]]]))
    # a value captured from a variable does not change when the variable is reassigned later in the activation
    # (bool(v) / v.copy() / std.Value snapshots of bool, Bit and vector variables; an alias `a = self.v` follows v)
    fh = {"params": ["old"], "value": "b", "body": [["if", [[O("c0"), [["ret", O("c1")]]]], None], ["ret", ["name", "old"]]]}
    ds.append(("law:captured-value-stable", [
        ["let", "before", ["boolc", O("f0")]], ["calla", "v", O("f0"), 0, [["name", "before"]]],
        _as("n", O("b0"), ["name", "before"]), _as("n", O("b1"), O("f0")),
        ["if", [[O("f0"), [["if", [[["name", "before"], [_as("n", O("b2"), ["cb", 0])]]], [_as("n", O("b2"), ["cb", 1])]]]]],
         [_as("n", O("b2"), ["cb", 0])]],
        ["let", "kg", ["copy", O("g0")]], _as("v", O("g0"), ["nb", O("g0")]), _as("n", O("sb"), ["name", "kg"]),
        ["let", "k8", ["valc", "Unsigned[8]", O("v0")]], _as("v", O("v0"), ["add", O("v0"), O("v0")]), _as("n", O("o0"), ["name", "k8"]),
        ["let", "kn", ["land", O("f1"), ["lnot", O("g0")]]],
        ["alias", "a1", "f1"], _as("v", O("f1"), ["lnot", O("f1")], "prop"),
        ["if", [[["name", "a1"], [_as("n", O("o1"), C(71))]]], [_as("n", O("o1"), C(72))]],
        ["if", [[["name", "kn"], [_as("n", O("o2"), C(73))]]], [_as("n", O("o2"), C(74))]],
        # methods that produce a value (resize to the same / a larger width, zeros, + 0, concat) and views (aliases)
        ["let", "m1", ["rsz", O("v1"), 8, 0]], ["let", "m2", ["rsz", O("vs"), 8, 0]], ["let", "m3", ["rsz", O("vs"), 12, 0]],
        ["let", "m4", ["rsz", O("v1"), None, 4]], ["aliasx", "m5", ["view", "bitvector", O("v1")]],
        _as("v", O("v1"), ["add", O("v1"), C(3)]), _as("v", O("vs"), ["add", O("vs"), O("vs")]),
        _as("n", O("o3"), ["name", "m1"]), _as("n", O("sg"), ["name", "m2"]), _as("n", O("ws"), ["name", "m3"]),
        _as("n", O("w0"), ["name", "m4"]), _as("n", O("bv"), ["name", "m5"])], [fh], []))
    # for-return loops WITHOUT for-else: the statements / the return after the loop run when no iteration returned
    g0 = {"params": [], "value": True, "body": [["forret", 3, ["bitlv", "x"], [["ret", O("y")]], None], ["ret", O("x")]]}
    g1 = {"params": [], "value": False, "body": [["forret", 2, ["bitlv", "y"], [_as("n", O("o1"), ["lv", 20]), ["ret", None]], None],
                                                  _as("n", O("o1"), C(29))]}
    g2 = {"params": ["aa"], "value": True, "body": [
        ["forret", 2, ["eq", O("idx"), ["lv", 1]], [_as("v", O("v0"), ["add", O("v0"), C(1)]), ["ret", ["add", ["name", "aa"], ["lv", 1]]]], None],
        ["if", [[O("c2"), [["ret", ["add", ["name", "aa"], C(7)]]]]], None], _as("n", O("o3"), C(33)), ["ret", ["add", ["name", "aa"], C(9)]]]}
    ds.append(("law:for-return-trailing", [
        ["calla", "n", O("o0"), 0, []], ["callp", 1, []],
        ["if", [[O("c3"), [_as("n", O("s0"), C(41)), ["ret", None]]]], None],
        ["forret", 2, ["bitlv", "y"], [_as("n", O("s0"), ["lv", 50]), ["ret", None]], None],
        _as("n", O("s0"), C(59)), _as("v", O("v1"), ["add", O("v1"), C(1)])], [g0, g1], []))
    # the same with computed return values (before fixes/C03-for-return-trailing-return.patch the compiler rejects this one:
    # "temporary might not be initialized" - the dropped trailing return leaves the result temporary unassigned)
    ds.append(("law:for-return-trailing-value?", [["calla", "n", O("o2"), 0, [O("x")]], _as("n", O("o3"), O("v0"))], [g2], []))
    # guards of match cases: run-time guard, same pattern again without guard, constant guards, guard on the wildcard
    ds.append(("law:match-guard", [
        ["match", O("x"), [[1, [_as("n", O("o0"), C(61))], O("c0")], [1, [_as("n", O("o0"), C(62))]], [2, [_as("n", O("o0"), C(63))], ["optc", 0]],
                           [3, [_as("n", O("o0"), C(64))], ["optc", 1]], [None, [_as("n", O("o0"), C(65))], O("c1")]], [_as("n", O("o0"), C(66))]],
        ["match", O("idx"), [[0, [_as("n", O("o1"), C(71))], ["andb", O("c0"), O("c2")]], [2, [_as("v", O("v0"), ["add", O("v0"), C(1)])], ["eq", O("y"), C(3)]]], None],
        ["match", O("y"), [[1, [_as("n", O("o2"), C(81))], O("c3")]], [_as("n", O("o2"), O("x"))]],
        _as("n", O("o3"), O("v0"))], [], []))
    return [(name, {"body": b, "funcs": f, "conc": c, "dflt": dict(dfl), "stats": {}}) for name, b, f, c in ds]


CHAIN_SIGNATURE = "c03:fixed:bool-cast-chain"


def chain_design():
    """bool(...) applied to a value that already is a boolean temporary, the result used again in a boolean context /
    assigned: `cleanup_bool_cast` drops both casts but does not follow the chain of replacements"""
    O = lambda n: ["obj", n]  # noqa
    C = lambda n, w=8: ["c", n, w]  # noqa
    body = [["let", "m", ["boolc", ["eq", O("x"), O("y")]]],
            ["if", [[["name", "m"], [_as("n", O("o0"), C(61))]]], [_as("n", O("o0"), C(62))]],
            ["let", "k", ["boolc", ["boolc", ["lor", O("c0"), O("c1")]]]], _as("n", O("b2"), ["name", "k"])]
    dfl = {"o0": 1, "o1": 2, "o2": 3, "o3": 4, "s0": 5, "p0": 6, "p1": 7, "v0": 1, "v1": 2, "vi": 0}
    return {"body": body, "funcs": [], "conc": [], "dflt": dfl, "stats": {}}


# ---------------------------------------------------------------------------------------------------
# the check
# ---------------------------------------------------------------------------------------------------


def signature_of(d):
    src = render_source(d)
    body = src.split("def architecture(self):")[0].split("class W(cohdl.Entity):")[0] + src.split("def proc():")[1]
    return "c03:" + " | ".join(l.strip() for l in body.split("\n") if l.strip() and not l.startswith(("import", "from", "OPT_")))[:400]


def run(ctx: Ctx):
    rng = ctx.rng
    ctx.rule = ("bodies of one clocked sequential context + one concurrent context generated over: signal / variable / push "
                "assignment (operator and property form) to whole objects, 4-bit slices, array elements with constant, input, "
                "variable and loop-variable index; if/elif/else; match with/without default; for-break chains with/without "
                "else; unrolled for; helper functions (value / procedure) with returns in nested branches, match-all-return, "
                "for-return chains; local names; references with captured index; locally declared signals; cohdl.always "
                "expressions and assignments.  Conditions: input bits, bits of objects, ~ & |, equality with constants / objects. "
                "Values: distinct marker constants and order-sensitive updates.  Each accepted design is simulated on generated "
                "input sequences and compared per clock on all output ports + internal signals/variables with Seq.activate.  "
                "non-trivial = accepted by the compiler, >= 1 branching construct and >= 2 object kinds assigned; "
                "distinct = distinct rendered source")
    n_prog = ctx.scale(260, 3000)
    n_seq, seq_len = ctx.scale(3, 5), ctx.scale(14, 24)

    # cast chains: checked on one fixed design; the generator produces them only when that design behaves
    cd = chain_design()
    csrc, csx = render_source(cd), prog_sexp(cd)
    cc = fork_map(compile_task, [csrc])[0]
    if cc[0] != "ok" or not cc[1]["ok"]:
        raise InfraError(f"cast-chain design is rejected by the compiler: {cc[1]}")
    cseqs = [[[a, b, 0, 0, xx, yy, 0] for a, b, xx, yy in ((0, 0, 1, 2), (1, 0, 3, 3), (0, 1, 4, 4), (0, 0, 5, 6), (1, 1, 0, 0))]]
    try:
        cb = compare(csx, cc[1]["vhdl"], cseqs)
    except InfraError:
        raise
    except Exception as e:  # noqa
        cb = (cseqs[0], 0, "-", f"cannot execute: {e}")
    CHAINS_OK[0] = cb is None
    ctx.case(key=csrc, nontrivial=True, kind="law:bool-cast-chain")
    chain_known = False
    if cb is not None:
        # ctx.report returns False when the failure is a listed known finding (KNOWN-FINDING line, not a violation)
        chain_known = ctx.report(CHAIN_SIGNATURE,
                   f"`m = bool(x == y); if m:` / `k = bool(bool(c0 or c1)); b2 <<= k`: the emitted process reads a temporary that is never "
                   f"assigned (clock {cb[1]}: {describe(cb[2], cb[3]) if cb[2] != '-' else cb[3]})",
                   {"design": cd, "source": csrc, "stmt": csx, "inputs": cb[0], "clock": cb[1], "observed_objects": ALL_OBS,
                    "expected": cb[2], "observed": cb[3], "vhdl": cc[1]["vhdl"]}) is False
    ctx.obligation("cast chains: bool(bool(..)) / bool(compare) used in a boolean context behave like the captured value",
                   cb is None or chain_known,
                   detail=("holds; cast chains are part of the generated designs" if cb is None else
                           "FAILS on the fixed design - listed known finding " + CHAIN_SIGNATURE + "; cast chains are kept out of the generated designs"
                           if chain_known else "FAILS on the fixed design"))
    ctx.extra["cast_chains_generated"] = CHAINS_OK[0]

    fixed = fixed_designs()
    designs = [d for _, d in fixed]
    names = [n for n, _ in fixed]
    for _ in range(n_prog):
        designs.append(gen_design(rng, rng.choice([6, 10, 14, 20]), rng.choice([1, 2, 2, 3])))
        names.append("generated")
    srcs = [render_source(d) for d in designs]
    sxs = [prog_sexp(d) for d in designs]

    compiled = fork_map(compile_task, srcs)
    jobs = []
    n_rej = 0
    for name, d, src, sx, r in zip(names, designs, srcs, sxs, compiled):
        if r[0] != "ok":
            raise InfraError(f"compile task crashed: {r[1]}")
        r = r[1]
        if not r["ok"]:
            if name != "generated" and not name.endswith("?"):
                raise InfraError(f"hand-written design {name} is rejected by the compiler: {r['errtype']}: {r['err']}")
            n_rej += 1
            ctx.dist["rejected:" + r["errtype"]] += 1
            ctx.case(key=None, nontrivial=False, kind="rejected-by-compiler")
            continue
        seqs = gen_inputs(rng, n_seq if name == "generated" else 4 * n_seq, seq_len)
        jobs.append((name, d, src, sx, r["vhdl"], seqs))
    if n_rej > n_prog // 2:
        raise InfraError(f"generator validity too low: {n_rej}/{n_prog} rejected")

    flat = [f"run {sx} | {seq_tokens(s)}" for _, _, _, sx, _, seqs in jobs for s in seqs]
    model_flat = lean_io.query("C03", flat)
    low_flat = lean_io.query("C03", ["runlow" + l[3:] for l in flat])
    # `always` expressions: the same body with every hoisted expression rendered as a concurrent assignment to a signal of its own
    hoist_jobs = [(k, prog_sexp(j[1], hoist=True)) for k, j in enumerate(jobs) if '"alw"' in json.dumps(j[1]["body"])]
    hoist_flat = lean_io.query("C03", [f"run {sxh} | {seq_tokens(s)}" for k, sxh in hoist_jobs for s in jobs[k][5]])
    hoist_res, hp = {}, 0
    for k, sxh in hoist_jobs:
        hoist_res[k] = hoist_flat[hp: hp + len(jobs[k][5])]
        hp += len(jobs[k][5])
    sims = fork_map(sim_task, [(vhdl, seqs) for *_, vhdl, seqs in jobs], fresh=False, chunk=4)

    n_bad = n_low_bad = n_hoist_bad = n_cyclic = 0
    n_conc = sum(1 for j in jobs if j[1]["conc"] or '"alwq"' in json.dumps(j[1]["body"]))
    pos = 0
    for jk, ((name, d, src, sx, vhdl, seqs), r) in enumerate(zip(jobs, sims)):
        model = model_flat[pos: pos + len(seqs)]
        low = low_flat[pos: pos + len(seqs)]
        pos += len(seqs)
        if any(m == "bad-op" for m in model):
            raise InfraError("model driver rejected a generated program: " + sx[:300])
        if any(m == "cyclic" for m in model):
            n_cyclic += 1
            raise InfraError("generator produced a cyclic / doubly driven concurrent context: " + src[-600:])
        if jk in hoist_res and hoist_res[jk] != model:
            n_hoist_bad += 1
            ctx.report("c03:hoist:" + signature_of(d), "model-internal: the body with its `always` expressions hoisted into concurrent assignments "
                       "disagrees with the in-place evaluation (C03.always_equals_inline does not cover this body?)",
                       {"design": d, "source": src, "stmt": sx, "theorem": "C03.always_equals_inline"}, no_failing_input=True)
        st = d.get("stats", {})
        branching = sum(v for k, v in st.items() if k.startswith(("if", "match", "for-", "call")))
        kinds = len({k.split("-")[0] for k in st if k.split("-")[0] in ("sig", "var", "push")})
        ctx.case(key=src, nontrivial=(name != "generated") or (branching >= 1 and kinds >= 2), kind=name if name != "generated" else "generated",
                 sample={"source": src.split("def architecture(self):")[0][-300:] + "..." + src.split("def proc():")[1][:500]})
        for k, v in st.items():
            ctx.dist["construct:" + k] += v
        if model != low:
            n_low_bad += 1
            ctx.report("c03:lower:" + signature_of(d), "the Lean mirror lowerSeq/procStep disagrees with Seq.activate (model-internal: theorem C03.lowerSeq_correct does not cover this body?)",
                       {"design": d, "source": src, "stmt": sx, "theorem": "C03.lowerSeq_correct"}, no_failing_input=True)
        if r[0] != "ok":
            n_bad += 1
            ctx.report("c03:sim-error:" + signature_of(d), f"emitted VHDL of an accepted context cannot be executed: {r[1]}",
                       {"design": d, "source": src, "error": r[1], "inputs": seqs[0]})
            continue
        bad = None
        for sq, m, i in zip(seqs, model, r[1]):
            m = mask(m, i)
            if m != i:
                bad = sq[: first_diff(m, i) + 1]
                break
        if bad is None:
            continue
        n_bad += 1
        if n_bad > 3:
            continue
        d2, seq2 = shrink(d, bad, budget_s=ctx.scale(45, 150))
        src2, sx2 = render_source(d2), prog_sexp(d2)
        vhdl2 = fork_map(compile_task, [src2])[0][1]["vhdl"]
        b = compare(sx2, vhdl2, [seq2])
        ctx.report(signature_of(d2),
                   f"context body and emitted design disagree at clock {b[1]} of the input sequence {seq2} "
                   f"(inputs {INPUTS}): {describe(b[2], b[3])}",
                   {"design": d2, "source": src2, "stmt": sx2, "inputs": seq2, "clock": b[1], "observed_objects": ALL_OBS,
                    "expected": b[2], "observed": b[3], "vhdl": vhdl2})
    ctx.obligation("correspondence: emitted VHDL (all output ports + internal objects, per clock) = Seq.activate on generated bodies and input sequences",
                   n_bad == 0, detail=f"{len(jobs)} designs x {n_seq} sequences x {seq_len} clocks, {n_bad} differing designs")
    ctx.obligation("model-internal: procStep (lowerSeq body) = Seq.activate body evaluated on every generated body (instances of C03.lowerSeq_correct)",
                   n_low_bad == 0, detail=f"{len(flat)} traces")
    ctx.obligation("concurrent contexts: settled model state (settle: topological evaluation of the shuffled assignment list, C03.concurrent_drives_current / "
                   "C03.settle_order_independent) = simulated VHDL after settle before the clock edge and after every clock",
                   n_bad == 0 and n_cyclic == 0, detail=f"{n_conc} designs with concurrent assignments (chains q0 -> q1 -> q2, if-expressions, select_with, always assignments)")
    ctx.obligation("model-internal: `always` expressions hoisted into concurrent assignments = evaluated in place (instances of C03.always_equals_inline)",
                   n_hoist_bad == 0, detail=f"{len(hoist_jobs)} designs with always expressions")
    ctx.extra["accepted"] = len(jobs)
    ctx.extra["rejected_by_compiler"] = n_rej


def replay(ctx, data):
    r = data["replay"]
    d = r["design"]
    src, sx = render_source(d), prog_sexp(d)
    c = fork_map(compile_task, [src])[0][1]
    if not c["ok"]:
        print("rejected:", c)
        return 0
    if "inputs" not in r:
        return 1
    try:
        b = compare(sx, c["vhdl"], [r["inputs"]])
    except Exception as e:  # noqa
        print("cannot execute:", e)
        return 1
    print(src)
    print("inputs:", r["inputs"])
    if b:
        print(f"clock {b[1]}: {describe(b[2], b[3])}")
    return 1 if b else 0
