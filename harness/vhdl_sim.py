"""Event-driven interpreter for the VHDL subset emitted by cohdl (see vhdl_parse.py).

This is the part of the correspondence check that *executes the implementation's output*: cohdl compiles
a design to VHDL text, this interpreter gives that text its IEEE-1076 / numeric_std meaning, and the
result is compared with the Lean model.  It is part of the trusted base (DESIGN.md section 6).

Semantics implemented:
  * elaboration of an entity hierarchy; port associations whose actual is a name, an indexed name or a
    slice are collapsed onto the actual's storage (no delta), other actuals (conversions) get an
    implicit process;
  * every process (explicit, concurrent assignment, with/select) runs once at initialisation, then
    whenever a signal in its sensitivity list has an event; signal assignments take effect after the
    delta cycle, variables immediately and persist between activations;
  * rising_edge / falling_edge from the event set of the current delta;
  * std_logic values '0' '1' 'U' 'X' (others are mapped to 'X'); numeric_std arithmetic with any
    metavalue yields all-'X', relational operators yield false, to_integer yields 0;
  * strict dynamic typing: an operator applied to operand types numeric_std / std_logic_1164 do not
    define, a width mismatch in an assignment or a logical operator, or an out-of-range index raise
    VhdlTypeError / VhdlRuntimeError - they are never papered over.
"""

from .vhdl_parse import parse, VhdlSyntaxError, RESERVED


class VhdlTypeError(Exception):
    pass


class VhdlRuntimeError(Exception):
    pass


# ---------------------------------------------------------------------------------------------------
# values
# ---------------------------------------------------------------------------------------------------


class SL:
    """std_logic"""

    __slots__ = ("v",)

    def __init__(self, v):
        self.v = v if v in "01UX" else "X"

    def __eq__(self, o):
        return isinstance(o, SL) and o.v == self.v

    def __hash__(self):
        return hash(("SL", self.v))

    def __repr__(self):
        return f"'{self.v}'"


class Vec:
    """std_logic_vector / unsigned / signed.  bits: string, leftmost first.  kind in
    'slv','uns','sgn' or None (untyped string literal).  left/dir describe the index range."""

    __slots__ = ("kind", "bits", "left", "dir")

    def __init__(self, kind, bits, left=None, dir="downto"):
        self.kind = kind
        self.bits = bits
        self.dir = dir
        if left is None:
            left = len(bits) - 1 if dir == "downto" else 0
        self.left = left

    @property
    def width(self):
        return len(self.bits)

    def norm(self):
        return Vec(self.kind, self.bits)

    def has_meta(self):
        return any(c not in "01" for c in self.bits)

    def to_nat(self):
        return int(self.bits, 2) if self.bits else 0

    def to_int(self):
        if self.kind == "sgn":
            n = self.to_nat()
            if self.bits and self.bits[0] == "1":
                n -= 1 << len(self.bits)
            return n
        return self.to_nat()

    def pos(self, idx):
        p = self.left - idx if self.dir == "downto" else idx - self.left
        if not (0 <= p < len(self.bits)):
            raise VhdlRuntimeError(f"index {idx} out of range for vector of width {len(self.bits)}")
        return p

    def __eq__(self, o):
        return isinstance(o, Vec) and o.kind == self.kind and o.bits == self.bits

    def __hash__(self):
        return hash((self.kind, self.bits))

    def __repr__(self):
        return f"{self.kind}\"{self.bits}\""


class EnumV:
    __slots__ = ("ty", "idx", "name")

    def __init__(self, ty, idx, name):
        self.ty, self.idx, self.name = ty, idx, name

    def __eq__(self, o):
        return isinstance(o, EnumV) and o.ty == self.ty and o.idx == self.idx

    def __hash__(self):
        return hash((self.ty, self.idx))

    def __repr__(self):
        return self.name


class EnumChoice:
    """an enumeration literal overloaded by several enumeration types (e.g. `state_0` of two state
    machines in one architecture); resolved by the type of the context (LRM overload resolution)"""

    def __init__(self, alts):
        self.alts = alts

    def pick(self, tyname):
        for a in self.alts:
            if a.ty == tyname:
                return a
        raise VhdlTypeError(f"enumeration literal {self.alts[0].name} is not a literal of type {tyname}")

    def __repr__(self):
        return f"{self.alts[0].name}?"


class Arr:
    __slots__ = ("ty", "elems")

    def __init__(self, ty, elems):
        self.ty, self.elems = ty, list(elems)

    def __eq__(self, o):
        return isinstance(o, Arr) and o.ty == self.ty and o.elems == self.elems

    def __repr__(self):
        return f"{self.ty}{self.elems}"


class Agg:
    """aggregate not yet resolved against a target type"""

    def __init__(self, items):
        self.items = items


def from_nat(kind, n, w):
    if w == 0:
        return Vec(kind, "")
    return Vec(kind, format(n % (1 << w), f"0{w}b"))


def allx(kind, w):
    return Vec(kind, "X" * w)


# ---------------------------------------------------------------------------------------------------
# types
# ---------------------------------------------------------------------------------------------------


class Ty:
    """('sl',) ('bool',) ('int',) ('vec',kind,left,dir,right) ('enum',name,lits) ('arr',name,n,elemTy)"""

    def __init__(self, *t):
        self.t = t

    @property
    def tag(self):
        return self.t[0]

    def __repr__(self):
        return repr(self.t)

    def width(self):
        assert self.tag == "vec"
        return abs(self.t[2] - self.t[4]) + 1

    def default(self):
        tag = self.tag
        if tag == "sl":
            return SL("U")
        if tag == "bool":
            return False
        if tag == "int":
            return -(2**31)
        if tag == "vec":
            return Vec(self.t[1], "U" * self.width(), self.t[2], self.t[3])
        if tag == "enum":
            return EnumV(self.t[1], 0, self.t[2][0])
        if tag == "arr":
            return Arr(self.t[1], [self.t[3].default() for _ in range(self.t[2])])
        raise AssertionError(tag)


KINDS = {"std_logic_vector": "slv", "unsigned": "uns", "signed": "sgn"}


# ---------------------------------------------------------------------------------------------------
# elaborated design
# ---------------------------------------------------------------------------------------------------


class Storage:
    __slots__ = ("name", "ty", "val", "is_signal", "drivers", "port_dir")

    def __init__(self, name, ty, val, is_signal=True, port_dir=None):
        self.name, self.ty, self.val, self.is_signal = name, ty, val, is_signal
        self.drivers = {}  # process id -> set of bit/element positions (or {None} for whole)
        self.port_dir = port_dir


class _Frozen:
    """a storage look-alike holding an earlier value (for 'last_value of a part of a signal)"""

    def __init__(self, st, val):
        self.name, self.ty, self.val, self.is_signal, self.port_dir = st.name, st.ty, val, st.is_signal, st.port_dir


class Ref:
    """a name bound in a scope: storage + optional sub-selection (for collapsed slice / index actuals)"""

    __slots__ = ("st", "sel", "fty")

    def __init__(self, st, sel=None, fty=None):
        self.st = st
        self.sel = sel  # None | ('slice', l, dir, r) | ('index', i)
        self.fty = fty  # declared type of the formal port bound to a slice actual (its own index range)


class Proc:
    def __init__(self, pid, label, scope, body, sens, kind, lineno=0):
        self.pid, self.label, self.scope, self.body, self.sens, self.kind = pid, label, scope, body, sens, kind
        self.line = lineno
        self.vars = {}


class Scope:
    def __init__(self, path):
        self.path = path
        self.names = {}  # lower-case name -> Ref | ('type', Ty) | ('enumlit', EnumV) | ('func', name)
        self.decl_order = []

    def bind(self, name, obj):
        self.names[name.lower()] = obj

    def lookup(self, name):
        return self.names.get(name.lower())


def _function_kind(toks):
    """classify a declared function by the token shape of its declaration (the name is the compiler's choice):
    (p: boolean) return std_logic is begin if p then return('1'); else return('0'); end if;  ->  "bool_to_sl" """
    if not toks or len(toks) < 8 or toks[0] != "(" or toks[2] != ":":
        return None
    p = toks[1]
    flat = [t for t in toks if t not in ("(", ")")]
    want = [p, ":", "boolean", "return", "std_logic", "is", "begin", "if", p, "then", "return", "'1'", ";",
            "else", "return", "'0'", ";", "end", "if", ";"]
    norm = [t if t in (p,) else t for t in flat]
    norm = ["'" + t + "'" if t in ("0", "1") else t for t in norm]
    return "bool_to_sl" if norm == want else None


class Design:
    def __init__(self, text, top=None, strict=True):
        self.units = parse(text)
        self.entities = {}
        self.archs = {}
        self.unit_order = []
        for u in self.units:
            if u["unit"] == "entity":
                self.entities[u["name"].lower()] = u
                self.unit_order.append(("entity", u["name"]))
            else:
                self.archs.setdefault(u["entity"].lower(), u)
                self.unit_order.append(("architecture", u["name"], u["entity"]))
        if top is None:
            top = [u for u in self.units if u["unit"] == "entity"][-1]["name"]
        self.top = top
        self.strict = strict
        self.procs = []
        self.storages = []
        self.meta_warnings = 0
        self.asserts_failed = []
        self.top_scope = self._elab(top, "", None)
        self.events = set()
        self._initialised = False

    # ---- elaboration -------------------------------------------------------------------------
    def _mk_type(self, ti, scope):
        if ti[0] == "plain":
            n = ti[1].lower()
            b = scope.lookup(n)
            if isinstance(b, tuple) and b[0] == "type":
                return b[1]  # a user declaration hides the predefined type of the same name
            if n == "std_logic":
                return Ty("sl")
            if n == "boolean":
                return Ty("bool")
            if n in ("integer", "natural", "positive"):
                return Ty("int")
            b = scope.lookup(n)
            if isinstance(b, tuple) and b[0] == "type":
                return b[1]
            raise VhdlTypeError(f"unknown type {ti[1]}")
        _, n, l, d, r = ti
        kind = KINDS.get(n.lower())
        if kind is None:
            raise VhdlTypeError(f"unknown vector type {n}")
        l = self._const(l)
        r = self._const(r)
        if (d == "downto" and l < r) or (d == "to" and l > r):
            return Ty("vec", kind, l, d, l)  # null range never printed; keep width>=1 to fail loudly
        return Ty("vec", kind, l, d, r)

    def _const(self, e):
        if e[0] == "int":
            return e[1]
        if e[0] == "un" and e[1] == "-":
            return -self._const(e[2])
        raise VhdlTypeError(f"expected static integer, got {e}")

    def _declare(self, scope, decls, is_process, pid=None):
        for d in decls:
            k = d["decl"]
            if k == "function":
                scope.bind(d["name"], ("func", d["name"], _function_kind(d.get("tokens"))))
                scope.decl_order.append((d["name"], "function"))
            elif k == "enumtype":
                ty = Ty("enum", d["name"], tuple(d["lits"]))
                scope.bind(d["name"], ("type", ty))
                scope.decl_order.append((d["name"], "type"))
                for i, lit in enumerate(d["lits"]):
                    old = scope.lookup(lit)
                    prev = list(old[1]) if isinstance(old, tuple) and old[0] == "enumlit" else []
                    scope.bind(lit, ("enumlit", prev + [EnumV(d["name"], i, lit)]))
                    scope.decl_order.append((lit, "enumlit"))
            elif k == "arraytype":
                l, r = self._const(d["l"]), self._const(d["r"])
                if d["dir"] != "to" or l != 0:
                    raise VhdlTypeError("array types are printed as (0 to n)")
                ty = Ty("arr", d["name"], r - l + 1, self._mk_type(d["elem"], scope))
                scope.bind(d["name"], ("type", ty))
                scope.decl_order.append((d["name"], "type"))
            elif k == "attribute":
                pass
            elif k in ("signal", "variable", "constant"):
                if k == "signal" and is_process:
                    raise VhdlTypeError("signal declared in a process")
                if k == "variable" and not is_process:
                    raise VhdlTypeError("variable declared in an architecture")
                ty = self._mk_type(d["type"], scope)
                val = ty.default()
                st = Storage(scope.path + d["name"], ty, val, is_signal=(k == "signal"))
                if d["default"] is not None:
                    st.val = self._coerce(self._eval(d["default"], scope, None), ty, "initial value of " + d["name"])
                self.storages.append(st)
                scope.bind(d["name"], Ref(st))
                scope.decl_order.append((d["name"], k))

    def _elab(self, ent_name, path, port_binding):
        ent = self.entities.get(ent_name.lower())
        arch = self.archs.get(ent_name.lower())
        if ent is None or arch is None:
            raise VhdlTypeError(f"entity or architecture for {ent_name} not found")
        scope = Scope(path)
        scope.entity = ent
        scope.arch = arch
        scope.instances = []
        for p in ent["ports"]:
            ty = self._mk_type(p["type"], scope)
            if port_binding is not None and p["name"].lower() in port_binding:
                ref = port_binding[p["name"].lower()]
                scope.bind(p["name"], ref)
                scope.decl_order.append((p["name"], "port"))
                continue
            st = Storage(path + p["name"], ty, ty.default(), True, port_dir=p["dir"])
            if p["default"] is not None:
                st.val = self._coerce(self._eval(p["default"], scope, None), ty, "port default")
            self.storages.append(st)
            scope.bind(p["name"], Ref(st))
            scope.decl_order.append((p["name"], "port"))
        scope.port_dirs = {p["name"].lower(): p["dir"] for p in ent["ports"]}
        scope.port_types = {p["name"].lower(): self._mk_type(p["type"], scope) for p in ent["ports"]}
        self._declare(scope, arch["decls"], False)
        for s in arch["stmts"]:
            k = s["stmt"]
            pid = len(self.procs)
            if k == "cassign":
                body = [{"stmt": "sassign", "target": s["target"], "expr": s["expr"], "line": s["line"]}]
                self.procs.append(Proc(pid, None, scope, body, None, "cassign", s["line"]))
            elif k == "select":
                self.procs.append(Proc(pid, None, scope, [s], None, "select", s["line"]))
            elif k == "assert":
                self.procs.append(Proc(pid, None, scope, [s], None, "cassert", s["line"]))
            elif k == "process":
                pscope = Scope(path + (s["label"] or f"p{pid}") + ".")
                pscope.names = dict(scope.names)
                pscope.parent = scope
                pscope.local = set()
                before = set(pscope.names)
                pr = Proc(pid, s["label"], pscope, s["body"], s["sens"], "process", s["line"])
                pr.sens_all = s["sens_all"]
                pr.decls = s["decls"]
                self.procs.append(pr)
                self._declare(pscope, s["decls"], True)
                scope.decl_order.append((s["label"], "label")) if s["label"] else None
            elif k == "instance":
                scope.decl_order.append((s["label"], "label"))
                sub_ent = self.entities.get(s["entity"].lower())
                if sub_ent is None:
                    raise VhdlTypeError(f"instance of unknown entity {s['entity']}")
                binding = {}
                sub_path = path + s["label"] + "."
                formals = {p["name"].lower(): p for p in sub_ent["ports"]}
                implicit = []
                seen = set()
                out_convs = []
                for f, actual in s["ports"]:
                    conv = None
                    if isinstance(f, tuple):
                        _, conv, f = f
                    fl = f.lower()
                    if conv is not None:
                        if fl not in formals or formals[fl]["dir"] != "out":
                            raise VhdlTypeError(f"conversion on the formal side is only supported for output ports ({f})")
                        if fl in seen:
                            raise VhdlTypeError(f"formal {f} associated twice")
                        seen.add(fl)
                        fty = self._mk_type(formals[fl]["type"], scope)
                        st = Storage(sub_path + f, fty, fty.default(), True, port_dir="out")
                        self.storages.append(st)
                        binding[fl] = Ref(st)
                        out_convs.append((st, conv, actual, f))
                        continue
                    if fl not in formals:
                        raise VhdlTypeError(f"port map names unknown formal {f}")
                    if fl in seen:
                        raise VhdlTypeError(f"formal {f} associated twice")
                    seen.add(fl)
                    fty = self._mk_type(formals[fl]["type"], scope)
                    ref = self._actual_ref(actual, scope)
                    if ref is not None:
                        aty = self._ref_type(ref)
                        self._check_assoc(fty, aty, f, s)
                        if ref.sel is not None and ref.sel[0] == "slice":
                            ref = Ref(ref.st, ref.sel, fty)
                        binding[fl] = ref
                    else:
                        if formals[fl]["dir"] == "out" and actual[0] in ("slice", "index", "call"):
                            # a nested target such as rv(3)(1) or rz(0)(4 downto 3): not collapsed, driven by an
                            # implicit process  actual <= formal  (one delta later, same values)
                            st = Storage(sub_path + f, fty, fty.default(), True, port_dir="out")
                            self.storages.append(st)
                            binding[fl] = Ref(st)
                            out_convs.append((st, None, actual, f))
                            continue
                        if formals[fl]["dir"] != "in":
                            raise VhdlTypeError(f"output formal {f} associated with an expression")
                        st = Storage(sub_path + f, fty, fty.default(), True, port_dir="in")
                        self.storages.append(st)
                        binding[fl] = Ref(st)
                        implicit.append((st, actual))
                missing = [p for p in formals if p not in seen and formals[p]["dir"] == "in" and formals[p]["default"] is None]
                if missing and s["ports"]:
                    raise VhdlTypeError(f"input formals without actual: {missing}")
                for st, actual in implicit:
                    pid2 = len(self.procs)
                    body = [{"stmt": "_drive", "storage": st, "expr": actual, "line": s["line"]}]
                    self.procs.append(Proc(pid2, None, scope, body, None, "cassign", s["line"]))
                sub_scope = self._elab(s["entity"], sub_path, binding)
                scope.instances.append((s, sub_scope))
                for st, conv, actual, f in out_convs:
                    # actual <= conv(formal): an implicit process in the parent scope reading the formal's storage
                    hidden = f"cv_formal_{len(self.procs)}_{f}"
                    scope.bind(hidden, Ref(st))
                    pid2 = len(self.procs)
                    src = ("name", hidden) if conv is None else ("call", conv, [("name", hidden)])
                    body = [{"stmt": "sassign", "target": actual, "expr": src, "line": s["line"]}]
                    self.procs.append(Proc(pid2, None, scope, body, None, "cassign", s["line"]))
                # an instance output drives its actual
                for f, actual in s["ports"]:
                    if isinstance(f, tuple):
                        continue
                    if formals[f.lower()]["dir"] in ("out", "inout"):
                        ref = binding[f.lower()]
                        sub_scope_driver = ("inst", s["label"], path)
                        ref.st.drivers.setdefault(sub_scope_driver, set()).update(self._sel_positions(ref))
        return scope

    def _sel_positions(self, ref):
        ty = ref.st.ty
        if ref.sel is None:
            if ty.tag == "vec":
                return set(range(ty.width()))
            if ty.tag == "arr":
                return set(range(ty.t[2]))
            return {0}
        if ref.sel[0] == "slice":
            _, l, d, r = ref.sel
            v = ty.default()
            a, b = v.pos(l), v.pos(r)
            return set(range(min(a, b), max(a, b) + 1))
        return {ref.sel[1]}

    def _check_assoc(self, fty, aty, f, s):
        if fty.tag != aty.tag:
            raise VhdlTypeError(f"port {f}: formal {fty} associated with actual {aty}")
        if fty.tag == "vec":
            if fty.t[1] != aty.t[1]:
                raise VhdlTypeError(f"port {f}: formal {fty} associated with actual of type {aty}")
            if fty.width() != aty.width():
                raise VhdlTypeError(f"port {f}: width {fty.width()} vs {aty.width()}")
        if fty.tag in ("enum", "arr") and fty.t[1] != aty.t[1]:
            raise VhdlTypeError(f"port {f}: type {fty} vs {aty}")

    def _ref_type(self, ref):
        ty = ref.st.ty
        if ref.sel is None:
            return ty
        if ref.sel[0] == "slice":
            _, l, d, r = ref.sel
            return Ty("vec", ty.t[1], l, d, r)
        if ty.tag == "arr":
            return ty.t[3]
        return Ty("sl")

    def _actual_ref(self, e, scope):
        if e[0] == "name":
            b = scope.lookup(e[1])
            if isinstance(b, Ref):
                return b
            return None
        if e[0] == "slice" and e[1][0] == "name":
            b = scope.lookup(e[1][1])
            if isinstance(b, Ref) and b.sel is None and b.st.ty.tag == "vec":
                return Ref(b.st, ("slice", self._const(e[2]), e[3], self._const(e[4])))
            return None
        if e[0] == "call" and len(e[2]) == 1 and e[2][0][0] == "int":
            b = scope.lookup(e[1])
            if isinstance(b, Ref) and b.sel is None and b.st.ty.tag in ("vec", "arr"):
                return Ref(b.st, ("index", e[2][0][1]))
        return None

    # ---- value helpers --------------------------------------------------------------------------
    def _coerce(self, v, ty, what):
        """check that value v is assignable to type ty (VHDL strong typing) and shape it"""
        tag = ty.tag
        if isinstance(v, Agg):
            if tag != "arr":
                raise VhdlTypeError(f"aggregate assigned to non-array {what}")
            n = ty.t[2]
            elems = [None] * n
            other = None
            for c, ev in v.items:
                if c is None:
                    other = ev
                else:
                    if not isinstance(c, int) or not (0 <= c < n):
                        raise VhdlTypeError(f"aggregate choice {c} out of range in {what}")
                    if elems[c] is not None:
                        raise VhdlTypeError(f"aggregate choice {c} given twice in {what}")
                    elems[c] = ev
            for i in range(n):
                if elems[i] is None:
                    if other is None:
                        raise VhdlTypeError(f"aggregate does not cover element {i} in {what}")
                    elems[i] = other
            return Arr(ty.t[1], [self._coerce(x, ty.t[3], what) for x in elems])
        if tag == "sl":
            if isinstance(v, SL):
                return v
        elif tag == "bool":
            if isinstance(v, bool):
                return v
        elif tag == "int":
            if isinstance(v, int) and not isinstance(v, bool):
                return v
        elif tag == "vec":
            if isinstance(v, Vec):
                if v.kind is not None and v.kind != ty.t[1]:
                    raise VhdlTypeError(f"type mismatch: {v.kind} value assigned to {ty.t[1]} {what}")
                if v.width != ty.width():
                    raise VhdlTypeError(f"width mismatch: {v.width} bits assigned to {ty.width()}-bit {what}")
                return Vec(ty.t[1], v.bits, ty.t[2], ty.t[3])
        elif tag == "enum":
            if isinstance(v, EnumChoice):
                return v.pick(ty.t[1])
            if isinstance(v, EnumV) and v.ty == ty.t[1]:
                return v
        elif tag == "arr":
            if isinstance(v, Arr) and v.ty == ty.t[1]:
                return Arr(v.ty, v.elems)
        raise VhdlTypeError(f"type mismatch: {v!r} assigned to {ty} {what}")

    def _read_ref(self, ref, pr):
        st = ref.st
        v = st.val
        if ref.sel is None:
            return v
        if ref.sel[0] == "slice":
            _, l, d, r = ref.sel
            a, b = v.pos(l), v.pos(r)
            if a > b:
                raise VhdlRuntimeError("slice direction mismatch")
            if ref.fty is not None:
                return Vec(v.kind, v.bits[a : b + 1], ref.fty.t[2], ref.fty.t[3])
            return Vec(v.kind, v.bits[a : b + 1], l, d)
        i = ref.sel[1]
        if isinstance(v, Arr):
            return v.elems[i]
        return SL(v.bits[v.pos(i)])

    # ---- expression evaluation ----------------------------------------------------------------
    def _eval(self, e, scope, pr):
        k = e[0]
        if k == "int":
            return e[1]
        if k == "bool":
            return e[1]
        if k == "char":
            return SL(e[1])
        if k == "str":
            return Vec(None, "".join(c if c in "01UX" else "X" for c in e[1]))
        if k == "name":
            b = scope.lookup(e[1])
            if b is None:
                raise VhdlTypeError(f"undeclared name {e[1]}")
            if isinstance(b, Ref):
                self._note_read(b, pr)
                return self._read_ref(b, pr)
            if b[0] == "enumlit":
                return b[1][0] if len(b[1]) == 1 else EnumChoice(b[1])
            raise VhdlTypeError(f"{e[1]} is not a value")
        if k == "agg":
            return Agg([(None if c is None else self._eval(c, scope, pr), self._eval(v, scope, pr)) for c, v in e[1]])
        if k == "qual":
            v = self._eval(e[2], scope, pr)
            kind = KINDS.get(e[1].lower()) if isinstance(e[1], str) else None
            if kind is None:
                raise VhdlTypeError(f"unsupported qualified expression {e[1]}")
            if not isinstance(v, Vec):
                raise VhdlTypeError(f"qualified expression {e[1]}' applied to {v!r}")
            if v.kind is not None and v.kind != kind:
                # a qualified expression does not convert: the operand must already have that type.
                # For a slice of an object the type is the object's type.
                raise VhdlTypeError(f"qualified expression {e[1]}'(...) applied to a value of type {v.kind}")
            return Vec(kind, v.bits, v.left, v.dir)
        if k == "slice":
            base = self._eval(e[1], scope, pr)
            if not isinstance(base, Vec):
                raise VhdlTypeError("slice of a non-vector")
            l = self._eval_int(e[2], scope, pr)
            r = self._eval_int(e[4], scope, pr)
            if e[3] != base.dir:
                raise VhdlTypeError("slice direction differs from object direction")
            a, b = base.pos(l), base.pos(r)
            if a > b:
                raise VhdlRuntimeError("null slice")
            return Vec(base.kind, base.bits[a : b + 1], l, e[3])
        if k == "index":
            base = self._eval(e[1], scope, pr)
            return self._index(base, self._eval_int(e[2], scope, pr))
        if k == "call":
            return self._call(e[1], e[2], scope, pr)
        if k == "un":
            return self._unary(e[1], self._eval(e[2], scope, pr))
        if k == "bin":
            return self._binary(e[1], self._eval(e[2], scope, pr), self._eval(e[3], scope, pr))
        raise VhdlTypeError(f"cannot evaluate {e}")

    def _eval_int(self, e, scope, pr):
        v = self._eval(e, scope, pr)
        if isinstance(v, bool) or not isinstance(v, int):
            raise VhdlTypeError(f"integer expected, got {v!r}")
        return v

    def _index(self, base, i):
        if isinstance(base, Arr):
            if not (0 <= i < len(base.elems)):
                raise VhdlRuntimeError(f"array index {i} out of range 0..{len(base.elems)-1}")
            return base.elems[i]
        if isinstance(base, Vec):
            return SL(base.bits[base.pos(i)])
        raise VhdlTypeError(f"indexing a non-composite {base!r}")

    def _note_read(self, ref, pr):
        if pr is not None and self._track_reads is not None and ref.st.is_signal:
            self._track_reads.add(id(ref.st))

    _track_reads = None

    def _call(self, fname, args, scope, pr):
        f = fname.lower()
        b = scope.lookup(fname)
        if isinstance(b, Ref):
            # indexed name
            if len(args) != 1:
                raise VhdlTypeError("multi-dimensional index")
            self._note_read(b, pr)
            return self._index(self._read_ref(b, pr), self._eval_int(args[0], scope, pr))
        if b is not None and b[0] == "func":
            if len(b) < 3 or b[2] != "bool_to_sl" or len(args) != 1:
                raise VhdlTypeError(f"unknown function {fname}")
            v = self._eval(args[0], scope, pr)
            if not isinstance(v, bool):
                raise VhdlTypeError(f"{fname} applied to non-boolean")
            return SL("1" if v else "0")
        if b is not None:
            raise VhdlTypeError(f"{fname} is hidden by a user declaration and cannot be called")
        if f in ("rising_edge", "falling_edge"):
            a0 = args[0] if len(args) == 1 else None
            elem = None
            if a0 is not None and a0[0] == "call" and len(a0[2]) == 1 and a0[2][0][0] == "int":
                # edge of one element of a vector signal:  rising_edge(ctrl(0))
                elem = a0[2][0][1]
                a0 = ("name", a0[1])
            if a0 is None or a0[0] != "name":
                raise VhdlTypeError(f"{f} needs a signal name")
            rb = scope.lookup(a0[1])
            if not isinstance(rb, Ref) or not rb.st.is_signal:
                raise VhdlTypeError(f"{f} applied to a non-signal")
            self._note_read(rb, pr)
            curv = self._read_ref(rb, pr)
            lastv = self.last_values.get(id(rb.st))
            if elem is None:
                if rb.st.ty.tag != "sl" or rb.sel is not None and rb.sel[0] != "index":
                    if not isinstance(curv, SL):
                        raise VhdlTypeError(f"{f} applied to a non std_logic signal")
                cur = curv.v
                if lastv is None:
                    last = "U"
                elif isinstance(lastv, SL):
                    last = lastv.v
                else:
                    last = self._read_ref(Ref(_Frozen(rb.st, lastv), rb.sel, rb.fty), pr).v
            else:
                if not isinstance(curv, Vec):
                    raise VhdlTypeError(f"{f} applied to an element of a non-vector")
                cur = curv.bits[curv.pos(elem)]
                last = "U" if lastv is None else (lastv.bits[lastv.pos(elem)] if isinstance(lastv, Vec) else "U")
                if rb.sel is not None:
                    raise VhdlTypeError(f"{f} on an element of a collapsed port slice is not supported")
            ev = id(rb.st) in self.events and cur != last
            if f == "rising_edge":
                return ev and cur == "1" and last == "0"
            return ev and cur == "0" and last == "1"
        vals = [self._eval(a, scope, pr) for a in args]
        if f in KINDS:
            (v,) = vals
            if not isinstance(v, Vec):
                raise VhdlTypeError(f"type conversion {f}() of {v!r}")
            if v.kind is None:
                raise VhdlTypeError(f"type conversion {f}() of a string literal is ambiguous")
            return Vec(KINDS[f], v.bits)
        if f == "to_integer":
            (v,) = vals
            if not isinstance(v, Vec) or v.kind not in ("uns", "sgn"):
                raise VhdlTypeError(f"to_integer of {v!r}")
            if v.has_meta():
                self.meta_warnings += 1
                return 0
            return v.to_int()
        if f in ("to_unsigned", "to_signed"):
            n, w = vals
            if isinstance(n, bool) or not isinstance(n, int) or not isinstance(w, int):
                raise VhdlTypeError(f"{f} arguments {vals!r}")
            if f == "to_unsigned":
                if n < 0:
                    raise VhdlRuntimeError("to_unsigned of a negative integer (natural range)")
                return from_nat("uns", n, w)
            return from_nat("sgn", n, w)
        if f == "resize":
            v, w = vals
            if not isinstance(v, Vec) or v.kind not in ("uns", "sgn") or not isinstance(w, int):
                raise VhdlTypeError(f"resize arguments {vals!r}")
            return resize(v, w)
        if f in ("shift_left", "shift_right"):
            v, n = vals
            if not isinstance(v, Vec) or v.kind not in ("uns", "sgn") or isinstance(n, bool) or not isinstance(n, int):
                raise VhdlTypeError(f"{f} arguments {vals!r}")
            if n < 0:
                raise VhdlRuntimeError(f"{f} with negative count (natural range)")
            w = v.width
            if f == "shift_left":
                return Vec(v.kind, (v.bits + "0" * n)[-w:] if w else "")
            fill = v.bits[0] if (v.kind == "sgn" and w) else "0"
            return Vec(v.kind, (fill * n + v.bits)[:w])
        raise VhdlTypeError(f"unknown function or name {fname}")

    def _unary(self, op, v):
        if op == "not":
            if isinstance(v, bool):
                return not v
            if isinstance(v, SL):
                return SL({"0": "1", "1": "0"}.get(v.v, "X"))
            if isinstance(v, Vec) and v.kind is not None:
                return Vec(v.kind, "".join({"0": "1", "1": "0"}.get(c, "X") for c in v.bits))
            raise VhdlTypeError(f"not applied to {v!r}")
        if op == "-":
            if isinstance(v, int) and not isinstance(v, bool):
                return -v
            if isinstance(v, Vec) and v.kind == "sgn":
                if v.has_meta():
                    return allx("sgn", v.width)
                return from_nat("sgn", -v.to_int(), v.width)
            raise VhdlTypeError(f"unary minus applied to {v!r}")
        if op == "abs":
            if isinstance(v, int) and not isinstance(v, bool):
                return abs(v)
            if isinstance(v, Vec) and v.kind == "sgn":
                if v.has_meta():
                    return allx("sgn", v.width)
                return from_nat("sgn", abs(v.to_int()), v.width)
            raise VhdlTypeError(f"abs applied to {v!r}")
        raise VhdlTypeError(op)

    def _binary(self, op, a, b):
        if op in ("and", "or", "xor", "nand", "nor", "xnor"):
            return self._logical(op, a, b)
        if op in ("=", "/=", "<", "<=", ">", ">="):
            return self._relational(op, a, b)
        if op == "&":
            return self._concat(a, b)
        if op in ("+", "-", "*", "/", "mod", "rem"):
            return self._arith(op, a, b)
        raise VhdlTypeError(f"operator {op} not supported")

    def _logical(self, op, a, b):
        def f(x, y):
            if x not in "01" or y not in "01":
                # 0 and X = 0, 1 or X = 1 per std_logic_1164
                if op == "and" and ("0" in (x, y)):
                    return "0"
                if op == "or" and ("1" in (x, y)):
                    return "1"
                if op == "nand" and ("0" in (x, y)):
                    return "1"
                if op == "nor" and ("1" in (x, y)):
                    return "0"
                return "X"
            p, q = x == "1", y == "1"
            r = {"and": p and q, "or": p or q, "xor": p != q, "nand": not (p and q),
                 "nor": not (p or q), "xnor": p == q}[op]
            return "1" if r else "0"

        if isinstance(a, bool) and isinstance(b, bool):
            return f("1" if a else "0", "1" if b else "0") == "1"
        if isinstance(a, SL) and isinstance(b, SL):
            return SL(f(a.v, b.v))
        if isinstance(a, Vec) and isinstance(b, Vec):
            ka, kb = a.kind, b.kind
            kind = ka if ka is not None else kb
            if kind is None or (ka is not None and kb is not None and ka != kb):
                raise VhdlTypeError(f"logical {op} on {ka} and {kb}")
            if a.width != b.width:
                raise VhdlRuntimeError(f"logical {op} on vectors of width {a.width} and {b.width}")
            return Vec(kind, "".join(f(x, y) for x, y in zip(a.bits, b.bits)))
        raise VhdlTypeError(f"logical {op} on {a!r} and {b!r}")

    def _relational(self, op, a, b):
        def cmp(x, y):
            return {"=": x == y, "/=": x != y, "<": x < y, "<=": x <= y, ">": x > y, ">=": x >= y}[op]

        if isinstance(a, bool) and isinstance(b, bool):
            return cmp(a, b)
        if isinstance(a, bool) or isinstance(b, bool):
            raise VhdlTypeError(f"comparison {op} between {a!r} and {b!r}")
        if isinstance(a, int) and isinstance(b, int):
            return cmp(a, b)
        if isinstance(a, SL) and isinstance(b, SL):
            order = "UX01"
            if op in ("=", "/="):
                return cmp(a.v, b.v)
            return cmp(order.index(a.v), order.index(b.v))
        if isinstance(a, EnumChoice) and isinstance(b, EnumV):
            a = a.pick(b.ty)
        if isinstance(b, EnumChoice) and isinstance(a, EnumV):
            b = b.pick(a.ty)
        if isinstance(a, EnumV) and isinstance(b, EnumV):
            if a.ty != b.ty:
                raise VhdlTypeError("comparison of different enumeration types")
            return cmp(a.idx, b.idx)
        if isinstance(a, Arr) and isinstance(b, Arr) and op in ("=", "/="):
            return cmp(a.elems, b.elems) if op == "=" else not (a.elems == b.elems)
        # numeric_std overloads
        va, vb = isinstance(a, Vec), isinstance(b, Vec)
        if va and vb:
            ka, kb = a.kind, b.kind
            kind = ka if ka is not None else kb
            if kind is None or (ka is not None and kb is not None and ka != kb):
                raise VhdlTypeError(f"comparison {op} between {ka} and {kb}")
            if kind == "slv":
                # std_logic_1164: predefined array comparison (lexicographic; = needs equal length)
                if op == "=":
                    return a.bits == b.bits
                if op == "/=":
                    return a.bits != b.bits
                order = "UX01"
                ta = [order.index(c) for c in a.bits]
                tb = [order.index(c) for c in b.bits]
                return cmp(ta, tb)
            if a.has_meta() or b.has_meta():
                self.meta_warnings += 1
                return op == "/="
            A = Vec(kind, a.bits).to_int()
            B = Vec(kind, b.bits).to_int()
            return cmp(A, B)
        if va and isinstance(b, int):
            if a.kind not in ("uns", "sgn"):
                raise VhdlTypeError(f"comparison {op} between {a.kind} and integer")
            if a.kind == "uns" and b < 0:
                raise VhdlRuntimeError("unsigned compared with a negative integer (natural range)")
            if a.has_meta():
                self.meta_warnings += 1
                return op == "/="
            return cmp(a.to_int(), b)
        if vb and isinstance(a, int):
            if b.kind not in ("uns", "sgn"):
                raise VhdlTypeError(f"comparison {op} between integer and {b.kind}")
            if b.kind == "uns" and a < 0:
                raise VhdlRuntimeError("unsigned compared with a negative integer (natural range)")
            if b.has_meta():
                self.meta_warnings += 1
                return op == "/="
            return cmp(a, b.to_int())
        raise VhdlTypeError(f"comparison {op} between {a!r} and {b!r}")

    def _concat(self, a, b):
        def bits(x):
            if isinstance(x, SL):
                return x.v, "elem"
            if isinstance(x, Vec):
                return x.bits, x.kind
            raise VhdlTypeError(f"concatenation of {x!r}")

        ba, ka = bits(a)
        bb, kb = bits(b)
        kinds = {k for k in (ka, kb) if k not in (None, "elem")}
        if len(kinds) > 1:
            raise VhdlTypeError(f"concatenation of {ka} and {kb}")
        if not kinds:
            # std_logic & std_logic (or with a string literal): the array type comes from the context
            # (assignment target / conversion operand); keep it untyped like a string literal
            kind = None
        else:
            kind = kinds.pop()
        return Vec(kind, ba + bb)

    def _arith(self, op, a, b):
        ia = isinstance(a, int) and not isinstance(a, bool)
        ib = isinstance(b, int) and not isinstance(b, bool)
        if ia and ib:
            if op == "+":
                return a + b
            if op == "-":
                return a - b
            if op == "*":
                return a * b
            if b == 0:
                raise VhdlRuntimeError("integer division by zero")
            q = abs(a) // abs(b)
            if (a < 0) != (b < 0):
                q = -q
            if op == "/":
                return q
            if op == "rem":
                return a - q * b
            return a % b  # mod: sign of the divisor, as python
        va, vb = isinstance(a, Vec), isinstance(b, Vec)
        if not ((va or ia) and (vb or ib)):
            raise VhdlTypeError(f"arithmetic {op} on {a!r} and {b!r}")
        kinds = {x.kind for x in (a, b) if isinstance(x, Vec)}
        if len(kinds) != 1 or kinds & {None, "slv"}:
            raise VhdlTypeError(f"arithmetic {op} on {a!r} and {b!r}")
        kind = kinds.pop()
        # result / operand sizes per numeric_std
        if va and vb:
            wa, wb = a.width, b.width
            if op in ("+", "-"):
                w = max(wa, wb)
            elif op == "*":
                w = wa + wb
            elif op == "/":
                w = wa
            else:  # rem, mod: length of the right operand
                w = wb
            A = None if a.has_meta() else a.to_int()
            B = None if b.has_meta() else b.to_int()
        elif va:
            wa = a.width
            if kind == "uns" and b < 0:
                raise VhdlRuntimeError("unsigned combined with a negative integer (natural range)")
            w = wa if op in ("+", "-", "/", "rem", "mod") else wa + wa
            A = None if a.has_meta() else a.to_int()
            B = _int_as(kind, b, wa, op) if op in ("+", "-", "*") else b
        else:
            wb = b.width
            if kind == "uns" and a < 0:
                raise VhdlRuntimeError("unsigned combined with a negative integer (natural range)")
            w = wb if op in ("+", "-", "/", "rem", "mod") else wb + wb
            B = None if b.has_meta() else b.to_int()
            A = _int_as(kind, a, wb, op) if op in ("+", "-", "*") else a
        if w < 1:
            return Vec(kind, "")
        if A is None or B is None:
            self.meta_warnings += 1
            return allx(kind, w)
        if op == "+":
            r = A + B
        elif op == "-":
            r = A - B
        elif op == "*":
            r = A * B
        else:
            if B == 0:
                raise VhdlRuntimeError("division by zero")
            q = abs(A) // abs(B)
            if (A < 0) != (B < 0):
                q = -q
            if op == "/":
                r = q
            elif op == "rem":
                r = A - q * B
            else:
                r = A % B  # python: sign of divisor, like VHDL mod
        return from_nat(kind, r, w)

    # ---- statements -----------------------------------------------------------------------------
    def _resolve_target(self, t, scope, pr):
        """returns (storage, path) where path is a list of ('slice',l,dir,r)|('index',i)"""
        path = []
        node = t
        while node[0] != "name":
            if node[0] == "slice":
                path.append(("slice", self._eval_int(node[2], scope, pr), node[3], self._eval_int(node[4], scope, pr)))
                node = node[1]
            elif node[0] == "index":
                path.append(("index", self._eval_int(node[2], scope, pr)))
                node = node[1]
            elif node[0] == "call":
                if len(node[2]) != 1:
                    raise VhdlTypeError("bad target")
                path.append(("index", self._eval_int(node[2][0], scope, pr)))
                node = ("name", node[1])
            else:
                raise VhdlTypeError(f"bad assignment target {t}")
        b = scope.lookup(node[1])
        if not isinstance(b, Ref):
            raise VhdlTypeError(f"assignment to undeclared or non-object name {node[1]}")
        path.reverse()
        if b.sel is not None:
            if b.fty is not None and b.sel[0] == "slice" and path:
                # indices used inside the sub-entity refer to the formal's declared range: re-base them
                _, al, ad, ar = b.sel
                fl_, fd = b.fty.t[2], b.fty.t[3]

                def tr(i):
                    p = fl_ - i if fd == "downto" else i - fl_
                    return al - p if ad == "downto" else al + p

                head = path[0]
                if head[0] == "index":
                    path[0] = ("index", tr(head[1]))
                else:
                    if head[2] != fd:
                        raise VhdlTypeError("slice direction differs from object direction")
                    path[0] = ("slice", tr(head[1]), ad, tr(head[3]))
            path.insert(0, b.sel)
        return b.st, path

    def _update(self, cur, ty, path, v, what):
        """return new value of an object of type ty after writing v at path"""
        if not path:
            return self._coerce(v, ty, what)
        head, rest = path[0], path[1:]
        if head[0] == "index":
            i = head[1]
            if ty.tag == "arr":
                if not (0 <= i < ty.t[2]):
                    raise VhdlRuntimeError(f"array index {i} out of range in assignment to {what}")
                new = list(cur.elems)
                new[i] = self._update(cur.elems[i], ty.t[3], rest, v, what)
                return Arr(cur.ty, new)
            if ty.tag == "vec":
                if rest:
                    raise VhdlTypeError("index of a bit")
                if not isinstance(v, SL):
                    raise VhdlTypeError(f"{v!r} assigned to a single bit of {what}")
                p = cur.pos(i)
                return Vec(cur.kind, cur.bits[:p] + v.v + cur.bits[p + 1 :], cur.left, cur.dir)
            raise VhdlTypeError(f"indexed assignment to non-composite {what}")
        _, l, d, r = head
        if ty.tag != "vec":
            raise VhdlTypeError(f"slice assignment to non-vector {what}")
        if d != ty.t[3]:
            raise VhdlTypeError("slice direction differs from object direction")
        a, b = cur.pos(l), cur.pos(r)
        if a > b:
            raise VhdlRuntimeError("null slice in target")
        sub_ty = Ty("vec", ty.t[1], l, d, r)
        if rest:
            sub_cur = Vec(cur.kind, cur.bits[a : b + 1], l, d)
            nv = self._update(sub_cur, sub_ty, rest, v, what)
        else:
            nv = self._coerce(v, sub_ty, what)
        return Vec(cur.kind, cur.bits[:a] + nv.bits + cur.bits[b + 1 :], cur.left, cur.dir)

    def _exec(self, stmts, pr, pending):
        scope = pr.scope
        for s in stmts:
            k = s["stmt"]
            if k == "sassign":
                st, path = self._resolve_target(s["target"], scope, pr)
                if not st.is_signal:
                    raise VhdlTypeError(f"signal assignment '<=' to variable {st.name}")
                self._check_not_input(s["target"], scope, pr)
                v = self._eval(s["expr"], scope, pr)
                pending.append((st, path, v, s["line"]))
            elif k == "_drive":
                v = self._eval(s["expr"], scope, pr)
                pending.append((s["storage"], [], v, s["line"]))
            elif k == "vassign":
                st, path = self._resolve_target(s["target"], scope, pr)
                if st.is_signal:
                    raise VhdlTypeError(f"variable assignment ':=' to signal {st.name}")
                v = self._eval(s["expr"], scope, pr)
                st.val = self._update(st.val, st.ty, path, v, st.name)
            elif k == "if":
                c = self._eval(s["cond"], scope, pr)
                if not isinstance(c, bool):
                    raise VhdlTypeError(f"if condition is not boolean: {c!r}")
                self._exec(s["body"] if c else s["orelse"], pr, pending)
            elif k == "case":
                sel = self._eval(s["sel"], scope, pr)
                done = False
                seen = []
                for choices, body in s["branches"]:
                    for ch in choices:
                        cv = self._eval(ch, scope, pr)
                        if self._choice_eq(sel, cv) and not done:
                            done = True
                            self._exec(body, pr, pending)
                if not done:
                    if s["others"] is None:
                        if not self._case_complete(sel, s, scope, pr):
                            raise VhdlRuntimeError("case statement without matching choice")
                    else:
                        self._exec(s["others"], pr, pending)
            elif k == "select":
                sel = self._eval(s["sel"], scope, pr)
                chosen = None
                for choices, ve in s["branches"]:
                    for ch in choices:
                        if chosen is None and self._choice_eq(sel, self._eval(ch, scope, pr)):
                            chosen = ve
                if chosen is None:
                    chosen = s["default"]
                if chosen is None:
                    raise VhdlRuntimeError("selected assignment without matching choice")
                st, path = self._resolve_target(s["target"], scope, pr)
                pending.append((st, path, self._eval(chosen, scope, pr), s["line"]))
            elif k == "null":
                pass
            elif k == "assert":
                c = self._eval(s["expr"], scope, pr)
                if not isinstance(c, bool):
                    raise VhdlTypeError("assert condition is not boolean")
                if not c:
                    self.asserts_failed.append((s["line"], s["msg"]))
            else:
                raise VhdlTypeError(f"unknown statement {k}")

    def _check_not_input(self, target, scope, pr):
        node = target
        while node[0] != "name":
            node = node[1] if node[0] != "call" else ("name", node[1])
        sc = scope.parent if pr.kind == "process" else scope
        nm = node[1].lower()
        if sc.port_dirs.get(nm) == "in" and scope.lookup(nm) is sc.lookup(nm):
            raise VhdlTypeError(f"assignment to input port {node[1]}")

    def _case_complete(self, sel, s, scope, pr):
        return False

    def _choice_eq(self, sel, cv):
        if isinstance(sel, Vec):
            if not isinstance(cv, Vec):
                raise VhdlTypeError(f"case choice {cv!r} for vector selector")
            if cv.kind is not None and sel.kind is not None and cv.kind != sel.kind:
                raise VhdlTypeError(f"case choice of type {cv.kind} for selector of type {sel.kind}")
            if cv.width != sel.width:
                raise VhdlTypeError(f"case choice of width {cv.width} for selector of width {sel.width}")
            return cv.bits == sel.bits
        if isinstance(cv, EnumChoice) and isinstance(sel, EnumV):
            cv = cv.pick(sel.ty)
        if type(sel) is not type(cv):
            raise VhdlTypeError(f"case choice {cv!r} for selector {sel!r}")
        return sel == cv

    # ---- simulation kernel ---------------------------------------------------------------------
    def _sens_ids(self, pr):
        """static sensitivity: set of storage ids; entries that name one element `sig(i)` are additionally kept in
        self.elem_sens[pid] = {storage id: set of element indices} so that only an event on that element wakes the
        process (VHDL: the longest static prefix is sig(i))"""
        if pr.kind == "process" and not getattr(pr, "sens_all", False):
            ids = set()
            elems = {}
            whole = set()
            for n in pr.sens:
                node = n
                idx = None
                if node[0] == "call" and len(node[2]) == 1 and node[2][0][0] == "int":
                    idx = node[2][0][1]
                while node[0] != "name":
                    node = node[1] if node[0] != "call" else ("name", node[1])
                b = pr.scope.lookup(node[1])
                if not isinstance(b, Ref) or not b.st.is_signal:
                    raise VhdlTypeError(f"sensitivity list names non-signal {node[1]}")
                ids.add(id(b.st))
                if idx is not None and b.sel is None and b.st.ty.tag == "vec":
                    elems.setdefault(id(b.st), set()).add(idx)
                else:
                    whole.add(id(b.st))
            self.elem_sens[pr.pid] = {k: v for k, v in elems.items() if k not in whole}
            self._st_by_id = getattr(self, "_st_by_id", {})
            return ids
        return None  # dynamic: all signals read

    def _woken(self, pr, sens):
        hit = sens & self.events
        if not hit:
            return False
        es = self.elem_sens.get(pr.pid)
        if not es:
            return True
        for sid in hit:
            if sid not in es:
                return True
            st = self._storage_by_id(sid)
            last = self.last_values.get(sid)
            for i in es[sid]:
                cur = st.val.bits[st.val.pos(i)]
                old = last.bits[last.pos(i)] if isinstance(last, Vec) else "U"
                if cur != old:
                    return True
        return False

    def _storage_by_id(self, sid):
        m = getattr(self, "_stmap", None)
        if m is None or len(m) != len(self.storages):
            m = self._stmap = {id(st): st for st in self.storages}
        return m[sid]

    def initialise(self):
        self.last_values = {}
        self.elem_sens = {}
        self.static_sens = {}
        self.dyn_sens = {}
        self.events = set()
        pending_all = []
        for pr in self.procs:
            self.static_sens[pr.pid] = self._sens_ids(pr)
        for pr in self.procs:
            pending_all.append((pr, self._run_proc(pr)))
        self._apply(pending_all)
        self._initialised = True
        self.settle()

    def _run_proc(self, pr):
        pending = []
        if self.static_sens[pr.pid] is None:
            self._track_reads = set()
            try:
                self._exec(pr.body, pr, pending)
            finally:
                reads = self._track_reads
                self._track_reads = None
            self.dyn_sens[pr.pid] = reads | self.dyn_sens.get(pr.pid, set())
        else:
            self._exec(pr.body, pr, pending)
        return pending

    def _apply(self, pending_all):
        new_events = set()
        last = {}
        for pr, pending in pending_all:
            for st, path, v, line in pending:
                old = st.val
                nv = self._update(old, st.ty, path, v, st.name)
                if not _same(nv, old):
                    if id(st) not in last:
                        last[id(st)] = old
                    st.val = nv
                    new_events.add(id(st))
        self.last_values = {**self.last_values, **last}
        self.events = new_events

    def settle(self, max_deltas=1000):
        if not self._initialised:
            self.initialise()
            return
        n = 0
        while self.events:
            n += 1
            if n > max_deltas:
                raise VhdlRuntimeError("delta cycle limit exceeded (combinational loop)")
            pending_all = []
            for pr in self.procs:
                sens = self.static_sens[pr.pid]
                if sens is None:
                    sens = self.dyn_sens.get(pr.pid, set())
                if self._woken(pr, sens):
                    pending_all.append((pr, self._run_proc(pr)))
            self._apply(pending_all)

    # ---- harness API ---------------------------------------------------------------------------
    def _top_ref(self, name):
        b = self.top_scope.lookup(name)
        if not isinstance(b, Ref):
            raise KeyError(name)
        return b

    def set(self, name, value):
        """value: int (vectors: two's complement for signed), bool, str of bits, list (arrays)"""
        ref = self._top_ref(name)
        st = ref.st
        nv = self._from_py(value, st.ty)
        if not self._initialised:
            st.val = nv
            return
        if not _same(nv, st.val):
            self.last_values[id(st)] = st.val
            st.val = nv
            self.events = self.events | {id(st)}

    def _from_py(self, value, ty):
        tag = ty.tag
        if tag == "sl":
            if isinstance(value, str):
                return SL(value)
            return SL("1" if value else "0")
        if tag == "bool":
            return bool(value)
        if tag == "int":
            return int(value)
        if tag == "vec":
            if isinstance(value, str):
                assert len(value) == ty.width()
                return Vec(ty.t[1], value, ty.t[2], ty.t[3])
            v = from_nat(ty.t[1], int(value), ty.width())
            return Vec(ty.t[1], v.bits, ty.t[2], ty.t[3])
        if tag == "enum":
            if isinstance(value, str):
                i = [l.lower() for l in ty.t[2]].index(value.lower())
            else:
                i = int(value)
            return EnumV(ty.t[1], i, ty.t[2][i])
        if tag == "arr":
            return Arr(ty.t[1], [self._from_py(x, ty.t[3]) for x in value])
        raise AssertionError(tag)

    def get(self, name):
        ref = self._top_ref(name)
        return to_py(self._read_ref(ref, None))

    def get_raw(self, name):
        return self._read_ref(self._top_ref(name), None)

    def clock(self, clk="clk", cycles=1):
        for _ in range(cycles):
            self.set(clk, 1)
            self.settle()
            self.set(clk, 0)
            self.settle()

    def ports(self):
        return [(p["name"], p["dir"], self.top_scope.port_types[p["name"].lower()]) for p in self.top_scope.entity["ports"]]

    def find(self, path):
        """look up an internal object by hierarchical path 'inst.sub.name' or 'proc.var'"""
        for st in self.storages:
            if st.name.lower() == path.lower():
                return st
        raise KeyError(path)


def _int_as(kind, n, w, op):
    """numeric_std converts an integer operand to the vector operand's length; out-of-range integers are
    truncated with a warning - kept as the mathematical value here is wrong, so truncate likewise."""
    if kind == "uns":
        return n % (1 << w) if w else 0
    # signed: TO_SIGNED(n, w) truncates
    m = n % (1 << w) if w else 0
    if w and m >= (1 << (w - 1)):
        m -= 1 << w
    return m


def resize(v, w):
    if w < 1:
        return Vec(v.kind, "")
    n = v.width
    if v.kind == "uns":
        if w >= n:
            return Vec("uns", "0" * (w - n) + v.bits)
        return Vec("uns", v.bits[n - w :])
    # signed: keep sign bit and the w-1 rightmost bits
    if n == 0:
        return Vec("sgn", "0" * w)
    if w >= n:
        return Vec("sgn", v.bits[0] * (w - n) + v.bits)
    return Vec("sgn", v.bits[0] + v.bits[n - w + 1 :])


def _same(a, b):
    if isinstance(a, Vec) and isinstance(b, Vec):
        return a.bits == b.bits
    if isinstance(a, Arr) and isinstance(b, Arr):
        return all(_same(x, y) for x, y in zip(a.elems, b.elems))
    return a == b


def to_py(v):
    """canonical python value: int for vectors (None when a metavalue is present), 0/1/None for bits"""
    if isinstance(v, SL):
        return {"0": 0, "1": 1}.get(v.v)
    if isinstance(v, Vec):
        if v.has_meta():
            return None
        return v.to_int()
    if isinstance(v, EnumV):
        return v.name
    if isinstance(v, Arr):
        return [to_py(x) for x in v.elems]
    return v
