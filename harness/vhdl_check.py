"""Static legality checker for the VHDL subset emitted by cohdl (AST of vhdl_parse.py) - property C06.

Independent of simulation: all types come from declarations.  `check(text)` returns a list of `Issue`s; an
empty list means the text passed every clause below.  Each issue has a small-enum `kind`:

  syntax            the text is not in the printable subset / not parseable (a reserved word or an empty
                    identifier in a name position usually ends up here)
  ident-grammar     an identifier is not a VHDL basic identifier  letter { [_] letter|digit }
  reserved          a declared or used identifier is a VHDL-2008 reserved word
  duplicate         two declarations of one identifier (case-insensitively) in one declarative region
                    (entity ports + architecture declarations + enumeration literals + labels; process
                    declarations; design units of the library), or a process declaration hiding a name of
                    the enclosing region (the back end never renames on purpose - a hidden object is
                    a different object referred to by the same name)
  hides-predefined  a declaration hides a predefined name (type, numeric_std / std_logic_1164 function,
                    library) that the text of the same design unit uses in its predefined role
  undeclared        a used name has no declaration (includes `architecture A of E` with unknown E, `end X`
                    not repeating the unit's name, unknown instantiated entity / architecture / formal,
                    a type mark used before its declaration)
  type              an operator / function / assignment / association / choice / condition applied to
                    operand types that std_logic_1164 + numeric_std do not define
  width             statically known widths do not match (assignment, logical operator, association,
                    choice, initial value), slice / index outside the declared range or wrong direction
  range             a static integer outside the parameter subtype (negative to NATURAL)
  qualified         a qualified expression T'(e) whose operand is not of type T
  out-read          an `out` port is read (expression, sensitivity list, actual of an `in` formal)
  in-assign         an `in` port is assigned or associated with an output formal
  object-class      `<=` to a variable, `:=` to a signal, signal declared in a process, ...
  case-dup          two equal choices in one case / selected assignment
  case-others       case / selected assignment without `others` (and not covering an enumeration)
  sens-empty        process without sensitivity list
  sens-missing      a process reads a signal outside every clock-edge guarded region that is not in its
                    sensitivity list
  sens-object       a sensitivity list entry is not a readable signal
  assoc             port map problems other than typing: formal associated twice, input formal left open
"""

from .vhdl_parse import parse, VhdlSyntaxError, RESERVED, BASIC_ID

KINDS = {"std_logic_vector": "slv", "unsigned": "uns", "signed": "sgn"}
KIND_NAME = {v: k for k, v in KINDS.items()}

PREDEF_TYPES = {"std_logic", "std_ulogic", "std_logic_vector", "std_ulogic_vector", "unsigned", "signed",
                "boolean", "integer", "natural", "positive", "string", "bit", "bit_vector", "real", "time",
                "character", "severity_level"}
PREDEF_FUNCS = {"to_unsigned", "to_signed", "to_integer", "resize", "shift_left", "shift_right",
                "rotate_left", "rotate_right", "rising_edge", "falling_edge", "to_01", "std_match",
                "to_stdlogicvector", "to_bitvector", "is_x", "now"}
PREDEF_LITS = {"true", "false", "note", "warning", "error", "failure"}
PREDEF_LIBS = {"ieee", "std", "work", "std_logic_1164", "numeric_std", "standard"}
#: every predefined name the back end can rely on (hiding one of them is only an issue when the text uses it)
PREDEFINED = PREDEF_TYPES | PREDEF_FUNCS | PREDEF_LITS | PREDEF_LIBS


class Issue:
    __slots__ = ("kind", "msg", "line", "unit", "key")

    def __init__(self, kind, msg, line=None, unit=None, key=None):
        self.kind, self.msg, self.line, self.unit = kind, msg, line, unit
        #: canonical detail (stable across temp names / line numbers) used for signatures
        self.key = key if key is not None else msg

    def __repr__(self):
        where = f"{self.unit or '?'}:{self.line}" if self.line else (self.unit or "")
        return f"[{self.kind}] {where} {self.msg}"

    def as_dict(self):
        return {"kind": self.kind, "msg": self.msg, "line": self.line, "unit": self.unit}


# ---------------------------------------------------------------------------------------------------
# static types:  ('sl',) ('bool',) ('int', static_value|None) ('vec', kind, width, (left,dir,right)|None)
#                ('lit', width)  bit-string literal / sl&sl concatenation: any vector kind of that width
#                ('enum', typename) ('enumlit', [typenames]) ('arr', typename, n, elemT) ('agg', items)
#                ('str',) report string  ('err',) already reported
# ---------------------------------------------------------------------------------------------------
SL = ("sl",)
BOOL = ("bool",)
ERR = ("err",)


def INT(v=None):
    return ("int", v)


def VEC(kind, w, rng=None):
    return ("vec", kind, w, rng)


def show(t):
    tag = t[0]
    if tag == "vec":
        return f"{KIND_NAME[t[1]]}[{t[2]}]"
    if tag == "lit":
        return f"bitstring[{t[1]}]"
    if tag == "int":
        return "integer"
    if tag in ("enum", "arr"):
        return f"{tag} {t[1]}"
    if tag == "enumlit":
        return "enumeration literal of " + "/".join(t[1])
    return {"sl": "std_logic", "bool": "boolean", "agg": "aggregate", "err": "<error>", "str": "string"}.get(tag, tag)


class Obj:
    """a declared object: cls in port-in / port-out / port-inout / signal / variable / constant"""
    __slots__ = ("name", "cls", "ty", "line")

    def __init__(self, name, cls, ty, line=None):
        self.name, self.cls, self.ty, self.line = name, cls, ty, line

    @property
    def is_signal(self):
        return self.cls in ("port-in", "port-out", "port-inout", "signal")


class Region:
    """one declarative region: lower-case name -> list of entries
       ('obj', Obj) ('type', T) ('enumlit', typename) ('label', kind) ('func', name) ('attr', name) ('unit', kind)"""

    def __init__(self, parent=None, what=""):
        self.parent, self.what = parent, what
        self.names = {}

    def lookup(self, name):
        r = self
        low = name.lower()
        while r is not None:
            if low in r.names:
                return r.names[low]
            r = r.parent
        return None

    def local(self, name):
        return self.names.get(name.lower())


class Checker:
    def __init__(self, text=None, units=None):
        self.issues = []
        self.unit = None
        self.text = text
        self.units = units
        #: name -> (parameter type, result type) of the one-parameter functions declared in the text
        self.func_sigs = {}
        if text is not None:
            import re as _re

            for m in _re.finditer(r"\bfunction\s+(\w+)\s*\(\s*\w+\s*:\s*(\w+)\s*\)\s*return\s+(\w+)\s+is\b", text, flags=_re.I):
                self.func_sigs[m.group(1).lower()] = (m.group(2).lower(), m.group(3).lower())
        self.stats = {"exprs": 0, "assigns": 0, "cases": 0, "procs": 0, "assocs": 0, "decls": 0, "idents": 0}

    # ---- reporting
    def err(self, kind, msg, line=None, key=None):
        self.issues.append(Issue(kind, msg, line, self.unit, key))

    # ---- identifiers
    def ident(self, name, line, role, declared):
        """clauses on the spelling of one identifier occurrence"""
        self.stats["idents"] += 1
        if not isinstance(name, str):
            return
        if not BASIC_ID.match(name):
            self.err("ident-grammar", f"{role} {name!r} is not a basic identifier", line, f"{'decl' if declared else 'use'} {name.lower()}")
        if name.lower() in RESERVED:
            self.err("reserved", f"{role} {name!r} is a reserved word", line, f"{'decl' if declared else 'use'} {name.lower()}")

    def declare(self, region, name, entry, line, role):
        self.stats["decls"] += 1
        self.ident(name, line, role, True)
        low = name.lower()
        old = region.names.get(low)
        if old:
            overloadable = {"enumlit", "func"}
            if entry[0] in overloadable and all(o[0] in overloadable for o in old) and not (
                entry[0] == "enumlit" and any(o[0] == "enumlit" and o[1] == entry[1] for o in old)
            ):
                old.append(entry)
                return
            self.err("duplicate", f"{role} {name!r} is already declared in {region.what} (as {old[0][0]})", line, f"{low} {entry[0]}/{old[0][0]}")
            old.append(entry)
            return
        if region.parent is not None and region.what.startswith("process"):
            outer = region.parent.lookup(name)
            if outer and not (entry[0] in ("enumlit",) and all(o[0] in ("enumlit", "func") for o in outer)):
                self.err("duplicate", f"{role} {name!r} hides the {outer[0][0]} of the same name of the enclosing region", line, f"{low} hides {outer[0][0]}")
        region.names[low] = [entry]

    # ---- top level
    def run(self):
        if self.units is None:
            try:
                self.units = parse(self.text)
            except VhdlSyntaxError as e:
                import re as _re

                m = _re.search(r"line (\d+)", str(e))
                src = (self.text or "").splitlines()
                stmt = src[int(m.group(1)) - 1].strip() if m and 0 < int(m.group(1)) <= len(src) else ""
                if _re.match(r"(?i)(case|if|for|while|loop|wait|null)\b", stmt):
                    # the parser was in the architecture statement part (inside a process these are parsed)
                    self.err("syntax", f"sequential statement `{stmt[:60]}` where a concurrent statement is required ({e})",
                             int(m.group(1)), key="sequential statement in concurrent part")
                else:
                    self.err("syntax", str(e), key="parse")
                return self.issues
            except RecursionError:
                self.err("syntax", "expression nesting too deep for the parser", key="depth")
                return self.issues
        units = self.units
        self.entities = {}
        self.archs = {}
        lib = Region(None, "library work")
        for u in units:
            if u["unit"] == "entity":
                self.unit = u["name"]
                low = u["name"].lower()
                self.ident(u["name"], u["line"], "entity name", True)
                if low in self.entities:
                    self.err("duplicate", f"entity {u['name']!r} declared twice in the library", u["line"], f"entity {low}")
                else:
                    self.entities[low] = u
                if u["endname"] is not None and u["endname"].lower() != low:
                    self.err("undeclared", f"`end {u['endname']}` closes entity {u['name']}", u["line"], "entity end name")
        for u in units:
            if u["unit"] == "architecture":
                self.unit = f"{u['name']}({u['entity']})"
                self.ident(u["name"], u["line"], "architecture name", True)
                self.ident(u["entity"], u["line"], "entity name in architecture header", False)
                key = (u["entity"].lower(), u["name"].lower())
                if key in self.archs:
                    self.err("duplicate", f"architecture {u['name']!r} of {u['entity']!r} declared twice", u["line"], "architecture")
                self.archs.setdefault(key, u)
                if u["endname"] is not None and u["endname"].lower() != u["name"].lower():
                    self.err("undeclared", f"`end architecture {u['endname']}` closes architecture {u['name']}", u["line"], "architecture end name")
        for u in units:
            if u["unit"] == "architecture":
                self.unit = f"{u['name']}({u['entity']})"
                ent = self.entities.get(u["entity"].lower())
                if ent is None:
                    self.err("undeclared", f"architecture {u['name']!r} of entity {u['entity']!r}: no such entity (declared: {sorted(e['name'] for e in self.entities.values())})", u["line"], "architecture of unknown entity")
                    ent = {"unit": "entity", "name": u["entity"], "ports": [], "endname": None, "line": u["line"]}
                try:
                    self.check_pair(ent, u)
                except RecursionError:
                    self.err("syntax", "expression nesting too deep for the checker", key="depth")
        for low, ent in self.entities.items():
            if not any(k[0] == low for k in self.archs):
                self.unit = ent["name"]
                self.err("undeclared", f"entity {ent['name']!r} has no architecture", ent["line"], "entity without architecture")
        self.unit = None
        return self.issues

    # ---- types from declarations
    def static_int(self, e):
        if e[0] == "int":
            return e[1]
        if e[0] == "un" and e[1] == "-":
            v = self.static_int(e[2])
            return None if v is None else -v
        return None

    def mk_type(self, ti, region, line, what):
        if ti[0] == "plain":
            n = ti[1]
            low = n.lower()
            b = region.lookup(n)
            if b and b[0][0] == "type":
                return b[0][1]
            self.note_predef_use(low, "type")
            if b:
                if low in PREDEF_TYPES:
                    self.err("hides-predefined", f"type mark {n!r} of {what} denotes the user-declared {b[0][0]} {n!r}", line, f"{low} type-mark")
                else:
                    self.err("type", f"type mark {n!r} of {what} is not a type", line, "type mark is not a type")
                return ERR
            if low in ("std_logic", "std_ulogic"):
                return SL
            if low == "boolean":
                return BOOL
            if low in ("integer", "natural", "positive"):
                return INT()
            if low == "string":
                return ("str",)
            if low in KINDS:
                self.err("type", f"unconstrained {n} as type of {what}", line, "unconstrained vector")
                return ERR
            self.ident(n, line, "type mark", False)
            self.err("undeclared", f"type mark {n!r} of {what} is not declared (before its use)", line, "type mark")
            return ERR
        _, n, l, d, r = ti
        low = n.lower()
        self.note_predef_use(low, "type")
        b = region.lookup(n)
        if b:
            self.err("hides-predefined" if low in PREDEF_TYPES else "type", f"type mark {n!r} of {what} denotes the user-declared {b[0][0]} {n!r}", line, f"{low} type-mark")
            return ERR
        kind = KINDS.get(low)
        if kind is None:
            self.err("undeclared", f"vector type {n!r} of {what} is unknown", line, "vector type mark")
            return ERR
        lv, rv = self.static_int(l), self.static_int(r)
        if lv is None or rv is None:
            self.err("type", f"non-static range in the type of {what}", line, "non-static range")
            return ERR
        if lv < 0 or rv < 0:
            self.err("range", f"negative bound in the range of {what} (index subtype is NATURAL)", line, "negative range bound")
            return ERR
        if (d == "downto" and lv < rv) or (d == "to" and lv > rv):
            self.err("width", f"null range {lv} {d} {rv} in the type of {what}", line, "null range")
            return ERR
        return VEC(kind, abs(lv - rv) + 1, (lv, d, rv))

    def note_predef_use(self, low, role):
        if low in PREDEFINED:
            self.predef_used.setdefault(low, role)

    # ---- one entity + architecture
    def check_pair(self, ent, arch):
        # (the context clause `library ieee; use ieee...` precedes the entity: names declared inside the
        # entity / architecture cannot hide it)
        self.predef_used = {}
        region = Region(None, f"entity {ent['name']} / architecture {arch['name']}")
        self.region = region
        self.cur_region = region
        self._proc_regions = []
        # ports
        port_types = []
        for p in ent["ports"]:
            ty = self.mk_type(p["type"], region, ent["line"], f"port {p['name']}")
            port_types.append((p, ty))
        for p, ty in port_types:
            self.declare(region, p["name"], ("obj", Obj(p["name"], "port-" + p["dir"], ty, ent["line"])), ent["line"], "port")
            if p["default"] is not None:
                self.assign_compat(ty, self.ty(p["default"], region, ty), ent["line"], f"default of port {p['name']}")
        # architecture declarations, in order
        self.declarations(region, arch["decls"], False)
        # labels first (a label is visible in the whole architecture)
        for s in arch["stmts"]:
            if s["stmt"] in ("process", "instance") and s.get("label"):
                self.declare(region, s["label"], ("label", s["stmt"]), s["line"], f"{s['stmt']} label")
        for s in arch["stmts"]:
            k = s["stmt"]
            if k == "cassign":
                self.assignment(s["target"], s["expr"], region, s["line"], signal=True)
            elif k == "select":
                self.select(s, region)
            elif k == "assert":
                self.condition(s["expr"], region, s["line"], "assert condition")
            elif k == "process":
                self.process(s, region)
            elif k == "instance":
                self.instance(s, region)
        # predefined names hidden by user declarations that the text of this unit relies on
        for low, role in sorted(self.predef_used.items()):
            for r_ in self.all_regions:
                b = r_.names.get(low)
                if b and any(x[0] not in ("enumlit", "func") for x in b):
                    self.err("hides-predefined", f"{b[0][0]} {low!r} declared in {r_.what} hides the predefined {role} {low!r} that this design unit uses", None, f"{low} {role}")

    @property
    def all_regions(self):
        return [self.region] + self._proc_regions

    def declarations(self, region, decls, is_process):
        for d in decls:
            k = d["decl"]
            line = d.get("line")
            if k == "function":
                self.declare(region, d["name"], ("func", d["name"]), line, "function")
                # one-parameter helper functions printed in the architecture (e.g. the boolean -> std_logic helper):
                # the signature is read from the text, the name is the compiler's choice
                sig = self.func_sigs.get(d["name"].lower())
                for n in (sig or ()):
                    self.note_predef_use(n, "type")
                    b = region.lookup(n)
                    if b and b[0][0] != "type":
                        self.err("hides-predefined", f"type mark {n!r} in the header of function {d['name']} denotes the user-declared {b[0][0]} {n!r}", line, f"{n} type-mark")
            elif k == "enumtype":
                self.declare(region, d["name"], ("type", ("enum", d["name"].lower(), tuple(l.lower() for l in d["lits"]))), line, "type")
                seen = set()
                for lit in d["lits"]:
                    if lit.lower() in seen:
                        self.err("duplicate", f"enumeration literal {lit!r} twice in type {d['name']}", line, "enum literal twice in one type")
                    seen.add(lit.lower())
                    self.declare(region, lit, ("enumlit", d["name"].lower()), line, "enumeration literal")
            elif k == "arraytype":
                l, r = self.static_int(d["l"]), self.static_int(d["r"])
                et = self.mk_type(d["elem"], region, line, f"element of array type {d['name']}")
                if l is None or r is None or d["dir"] != "to" or l != 0 or r < l:
                    self.err("type", f"array type {d['name']} is not of the printed form array(0 to n)", line, "array type form")
                    t = ERR
                else:
                    t = ("arr", d["name"].lower(), r - l + 1, et)
                self.declare(region, d["name"], ("type", t), line, "type")
            elif k == "attribute":
                toks = d["text"].split()
                if len(toks) >= 3 and toks[1] == ":":
                    self.declare(region, toks[0], ("attr", toks[0]), line, "attribute")
                elif len(toks) >= 3 and toks[1].lower() == "of":
                    a = region.lookup(toks[0])
                    if not a or a[0][0] != "attr":
                        self.err("undeclared", f"attribute {toks[0]!r} is not declared", line, "attribute")
                    o = region.lookup(toks[2])
                    if not o or o[0][0] != "obj":
                        self.err("undeclared", f"attribute specification for undeclared object {toks[2]!r}", line, "attribute of undeclared")
            elif k in ("signal", "variable", "constant"):
                if k == "signal" and is_process:
                    self.err("object-class", f"signal {d['name']} declared in a process", line, "signal in process")
                if k == "variable" and not is_process:
                    self.err("object-class", f"variable {d['name']} declared in an architecture", line, "variable in architecture")
                ty = self.mk_type(d["type"], region, line, f"{k} {d['name']}")
                if d["default"] is not None:
                    self.assign_compat(ty, self.ty(d["default"], region, ty), line, f"initial value of {d['name']}")
                self.declare(region, d["name"], ("obj", Obj(d["name"], k, ty, line)), line, k)

    # ---- expressions
    def resolve_obj(self, name, region, line, reading=True):
        """name in value position -> type (reports undeclared / out-read)"""
        self.ident(name, line, "name", False)
        b = region.lookup(name)
        if not b:
            self.err("undeclared", f"name {name!r} is not declared", line, f"name {self.canon_name(name)}")
            return ERR, None
        e = b[0]
        if e[0] == "obj":
            o = e[1]
            if reading:
                self.note_read(o, line)
            return o.ty, o
        if e[0] == "enumlit":
            return ("enumlit", [x[1] for x in b if x[0] == "enumlit"]), None
        self.err("type", f"{e[0]} {name!r} used as a value", line, f"{e[0]} used as value")
        return ERR, None

    @staticmethod
    def canon_name(name):
        import re

        return re.sub(r"\d+$", "#", name.lower())

    def note_read(self, o, line):
        if o.cls == "port-out":
            self.err("out-read", f"output port {o.name!r} is read", line, "out port read")
        if self.reads is not None and o.is_signal:
            self.reads.setdefault(o.name.lower(), line)

    reads = None

    def ty(self, e, region, expect=None, line=None):
        """static type of expression e; expect = type wanted by the context (used for overloaded
        enumeration literals, bit-string literals and aggregates only)"""
        self.stats["exprs"] += 1
        k = e[0]
        if k == "int":
            return INT(e[1])
        if k == "bool":
            self.note_predef_use("true" if e[1] else "false", "literal")
            return BOOL
        if k == "char":
            if e[1] not in "UX01ZWLH-":
                self.err("type", f"character literal '{e[1]}' is not a std_logic value", line, "character literal")
                return ERR
            return SL
        if k == "str":
            bad = [c for c in e[1] if c not in "UX01ZWLH-"]
            if bad:
                self.err("type", f'string literal "{e[1]}" is not a std_logic vector value', line, "string literal")
                return ERR
            return ("lit", len(e[1]))
        if k == "name":
            t, _ = self.resolve_obj(e[1], region, line)
            return t
        if k == "agg":
            return ("agg", e[1])
        if k == "qual":
            return self.qualified(e, region, line)
        if k == "slice":
            return self.slice_ty(e, region, line)
        if k == "index":
            base = self.ty(e[1], region, None, line)
            return self.index_ty(base, e[2], region, line)
        if k == "call":
            return self.call(e, region, line)
        if k == "un":
            return self.unary(e[1], self.ty(e[2], region, None, line), line)
        if k == "bin":
            return self.binary(e[1], e[2], e[3], region, line)
        self.err("syntax", f"unknown expression node {k}", line, "expression node")
        return ERR

    def int_arg(self, e, region, line, what, natural=False):
        t = self.ty(e, region, None, line)
        if t[0] == "err":
            return None
        if t[0] != "int":
            self.err("type", f"{what} must be an integer, is {show(t)}", line, f"{what} not integer")
            return None
        if natural and t[1] is not None and t[1] < 0:
            self.err("range", f"{what} is the negative static value {t[1]} (subtype NATURAL)", line, f"{what} negative")
        return t[1]

    def qualified(self, e, region, line):
        mark = e[1]
        if not isinstance(mark, str):
            self.err("syntax", "qualified expression with a non-name type mark", line, "qualified mark")
            return ERR
        low = mark.lower()
        b = region.lookup(mark)
        if not (b and b[0][0] == "type"):
            self.note_predef_use(low, "type")
        if b:
            if b[0][0] == "type":
                want = b[0][1]
                got = self.ty(e[2], region, want, line)
                self.assign_compat(want, got, line, f"qualified expression {mark}'(...)", kind="qualified")
                return want
            self.err("hides-predefined" if low in PREDEF_TYPES else "type", f"type mark {mark!r} of a qualified expression denotes the user-declared {b[0][0]}", line, f"{low} type-mark")
            return ERR
        got = self.ty(e[2], region, None, line)
        if low in KINDS:
            kind = KINDS[low]
            if got[0] == "err":
                return ERR
            if got[0] == "lit":
                return VEC(kind, got[1])
            if got[0] == "vec":
                if got[1] != kind:
                    self.err("qualified", f"qualified expression {mark}'(...) applied to an operand of type {show(got)}", line, f"{low}'({KIND_NAME[got[1]]})")
                    return VEC(kind, got[2], got[3])
                return got
            self.err("qualified", f"qualified expression {mark}'(...) applied to {show(got)}", line, f"{low}'({got[0]})")
            return ERR
        simple = {"std_logic": SL, "boolean": BOOL, "integer": INT()}
        if low in simple:
            if got[0] != "err" and got[0] != simple[low][0]:
                self.err("qualified", f"qualified expression {mark}'(...) applied to {show(got)}", line, f"{low}'({got[0]})")
            return simple[low]
        self.err("undeclared", f"type mark {mark!r} of a qualified expression is not declared", line, "qualified type mark")
        return ERR

    def slice_ty(self, e, region, line):
        base = self.ty(e[1], region, None, line)
        l = self.int_arg(e[2], region, line, "slice bound")
        r = self.int_arg(e[4], region, line, "slice bound")
        if base[0] == "err":
            return ERR
        if base[0] != "vec":
            self.err("type", f"slice of {show(base)}", line, f"slice of {base[0]}")
            return ERR
        if l is None or r is None:
            self.err("type", "slice with non-static bounds (never printed)", line, "non-static slice")
            return ERR
        d = e[3]
        rng = base[3] or (base[2] - 1, "downto", 0)
        if d != rng[1]:
            self.err("width", f"slice direction `{d}` differs from the direction of the prefix ({rng[0]} {rng[1]} {rng[2]})", line, "slice direction")
            return VEC(base[1], abs(l - r) + 1, (l, d, r))
        if (d == "downto" and l < r) or (d == "to" and l > r):
            self.err("width", f"null slice ({l} {d} {r})", line, "null slice")
            return ERR
        lo, hi = min(rng[0], rng[2]), max(rng[0], rng[2])
        if not (lo <= l <= hi and lo <= r <= hi):
            self.err("width", f"slice ({l} {d} {r}) outside the range ({rng[0]} {rng[1]} {rng[2]}) of the prefix", line, "slice out of range")
        return VEC(base[1], abs(l - r) + 1, (l, d, r))

    def index_ty(self, base, ie, region, line):
        i = self.int_arg(ie, region, line, "index")
        if base[0] == "err":
            return ERR
        if base[0] == "vec":
            rng = base[3] or (base[2] - 1, "downto", 0)
            lo, hi = min(rng[0], rng[2]), max(rng[0], rng[2])
            if i is not None and not (lo <= i <= hi):
                self.err("width", f"index {i} outside the range ({rng[0]} {rng[1]} {rng[2]})", line, "index out of range")
            return SL
        if base[0] == "arr":
            if i is not None and not (0 <= i < base[2]):
                self.err("width", f"array index {i} outside 0 to {base[2]-1}", line, "array index out of range")
            return base[3]
        self.err("type", f"indexing {show(base)}", line, f"index of {base[0]}")
        return ERR

    def call(self, e, region, line):
        fname, args = e[1], e[2]
        low = fname.lower()
        self.ident(fname, line, "name", False)
        b = region.lookup(fname)
        if b:
            ent = b[0]
            if ent[0] == "obj":
                o = ent[1]
                # indexed name - unless the name is a predefined function the text means here
                if len(args) == 1 and o.ty[0] in ("vec", "arr"):
                    saved = len(self.issues)
                    at = self.ty(args[0], region, None, line)
                    if at[0] in ("int", "err") or low not in PREDEFINED:
                        self.note_read(o, line)
                        del self.issues[saved:]
                        return self.index_ty(o.ty, args[0], region, line)
                    del self.issues[saved:]
                if low in PREDEFINED:
                    self.note_predef_use(low, "function" if low in PREDEF_FUNCS else "type")
                    self.err("hides-predefined", f"{fname}(...) is meant as the predefined {fname} but the name denotes the user-declared {o.cls} {o.name!r}", line, f"{low} call")
                    return ERR
                self.note_read(o, line)
                if len(args) != 1:
                    self.err("type", f"{fname} indexed with {len(args)} expressions", line, "multi-dimensional index")
                    return ERR
                return self.index_ty(o.ty, args[0], region, line)
            if ent[0] == "func":
                sig = self.func_sigs.get(low)
                simple = {"boolean": BOOL, "std_logic": SL, "std_ulogic": SL, "integer": INT(), "natural": INT()}
                if sig is None or len(args) != 1 or sig[0] not in simple or sig[1] not in simple:
                    self.err("type", f"call of user function {fname} with unknown signature / wrong arity", line, "user function")
                    return ERR
                at = self.ty(args[0], region, simple[sig[0]], line)
                if at[0] not in (simple[sig[0]][0], "err"):
                    self.err("type", f"helper function {fname}({sig[0]}) applied to {show(at)}", line, f"helper({at[0]})")
                return simple[sig[1]]
            if low in PREDEFINED:
                self.note_predef_use(low, "function" if low in PREDEF_FUNCS else "type")
                self.err("hides-predefined", f"{fname}(...) is meant as the predefined {fname} but the name denotes the user-declared {ent[0]}", line, f"{low} call")
                return ERR
            self.err("type", f"{ent[0]} {fname!r} called / indexed", line, f"{ent[0]} called")
            return ERR
        self.note_predef_use(low, "function" if low in PREDEF_FUNCS else "type")
        if low in ("rising_edge", "falling_edge"):
            if len(args) != 1:
                self.err("type", f"{fname} with {len(args)} arguments", line, "edge arity")
                return BOOL
            a = args[0]
            t = self.ty(a, region, None, line)
            node = a
            while node[0] in ("index", "slice"):
                node = node[1]
            root = node[1] if node[0] in ("name", "call") else None
            ob = region.lookup(root) if root else None
            if t[0] != "err" and (t[0] != "sl" or not ob or ob[0][0] != "obj" or not ob[0][1].is_signal):
                self.err("type", f"{fname} applied to {show(t)} (needs a std_logic signal)", line, f"{low}({t[0]})")
            return BOOL
        if low in KINDS:
            if len(args) != 1:
                self.err("type", f"type conversion {fname} with {len(args)} operands", line, "conversion arity")
                return ERR
            t = self.ty(args[0], region, None, line)
            if t[0] == "err":
                return ERR
            if t[0] == "vec":
                return VEC(KINDS[low], t[2], t[3])
            if t[0] == "lit":
                self.err("type", f"type conversion {fname}(...) of a bit-string literal / untyped concatenation is ambiguous", line, f"{low}(literal)")
                return VEC(KINDS[low], t[1])
            self.err("type", f"type conversion {fname}(...) of {show(t)}", line, f"{low}({t[0]})")
            return ERR
        if low == "to_integer":
            if len(args) != 1:
                self.err("type", "to_integer arity", line, "to_integer arity")
                return INT()
            t = self.ty(args[0], region, None, line)
            if t[0] != "err" and not (t[0] == "vec" and t[1] in ("uns", "sgn")):
                self.err("type", f"to_integer applied to {show(t)}", line, f"to_integer({self.tkey(t)})")
            return INT()
        if low in ("to_unsigned", "to_signed"):
            if len(args) != 2:
                self.err("type", f"{fname} arity", line, f"{low} arity")
                return ERR
            self.int_arg(args[0], region, line, f"first argument of {low}", natural=(low == "to_unsigned"))
            w = self.int_arg(args[1], region, line, f"size argument of {low}", natural=True)
            if w is None:
                self.err("type", f"{fname} with a non-static size", line, f"{low} non-static size")
                return ERR
            return VEC("uns" if low == "to_unsigned" else "sgn", w)
        if low == "resize":
            if len(args) != 2:
                self.err("type", "resize arity", line, "resize arity")
                return ERR
            t = self.ty(args[0], region, None, line)
            w = self.int_arg(args[1], region, line, "size argument of resize", natural=True)
            if t[0] == "err":
                return ERR
            if not (t[0] == "vec" and t[1] in ("uns", "sgn")):
                self.err("type", f"resize applied to {show(t)}", line, f"resize({self.tkey(t)})")
                return ERR
            if w is None:
                self.err("type", "resize with a non-static size", line, "resize non-static size")
                return ERR
            return VEC(t[1], w)
        if low in ("shift_left", "shift_right"):
            if len(args) != 2:
                self.err("type", f"{fname} arity", line, f"{low} arity")
                return ERR
            t = self.ty(args[0], region, None, line)
            self.int_arg(args[1], region, line, f"count of {low}", natural=True)
            if t[0] == "err":
                return ERR
            if not (t[0] == "vec" and t[1] in ("uns", "sgn")):
                self.err("type", f"{fname} applied to {show(t)}", line, f"{low}({self.tkey(t)})")
                return ERR
            return VEC(t[1], t[2])
        self.err("undeclared", f"name {fname!r} (called / indexed) is not declared", line, f"name {self.canon_name(fname)}")
        for a in args:
            self.ty(a, region, None, line)
        return ERR

    @staticmethod
    def tkey(t):
        return t[1] if t[0] == "vec" else t[0]

    def unary(self, op, t, line):
        if t[0] == "err":
            return ERR
        if op == "not":
            if t[0] in ("bool", "sl") or (t[0] == "vec"):
                return t
            self.err("type", f"`not` applied to {show(t)}", line, f"not({t[0]})")
            return ERR
        if op in ("-", "abs"):
            if t[0] == "int":
                if t[1] is None:
                    return INT()
                return INT(-t[1] if op == "-" else abs(t[1]))
            if t[0] == "vec" and t[1] == "sgn":
                return VEC("sgn", t[2])
            self.err("type", f"unary `{op}` applied to {show(t)} (numeric_std defines it for signed only)", line, f"{op}({self.tkey(t)})")
            return ERR
        self.err("type", f"unknown unary operator {op}", line, "unary operator")
        return ERR

    def binary(self, op, ea, eb, region, line):
        a = self.ty(ea, region, None, line)
        b = self.ty(eb, region, None, line)
        if a[0] == "err" or b[0] == "err":
            if op in ("=", "/=", "<", "<=", ">", ">="):
                return BOOL
            return ERR
        key = f"{self.tkey(a)} {op} {self.tkey(b)}"
        if op in ("and", "or", "xor", "nand", "nor", "xnor"):
            if a[0] == "bool" and b[0] == "bool":
                return BOOL
            if a[0] == "sl" and b[0] == "sl":
                return SL
            if a[0] in ("vec", "lit") and b[0] in ("vec", "lit"):
                wa, wb = self.width(a), self.width(b)
                if a[0] == "vec" and b[0] == "vec" and a[1] != b[1]:
                    self.err("type", f"`{op}` on {show(a)} and {show(b)}", line, key)
                    return ERR
                if a[0] == "lit" and b[0] == "lit":
                    self.err("type", f"`{op}` on two bit-string literals is ambiguous", line, key)
                    return ERR
                if wa != wb:
                    self.err("width", f"`{op}` on vectors of width {wa} and {wb}", line, f"{op} widths")
                kind = a[1] if a[0] == "vec" else b[1]
                return VEC(kind, wa)
            self.err("type", f"`{op}` on {show(a)} and {show(b)}", line, key)
            return ERR
        if op in ("=", "/=", "<", "<=", ">", ">="):
            self.relational(op, a, b, line, key)
            return BOOL
        if op == "&":
            def part(t):
                if t[0] == "sl":
                    return None, 1
                if t[0] == "lit":
                    return None, t[1]
                if t[0] == "vec":
                    return t[1], t[2]
                return "bad", 0

            ka, wa = part(a)
            kb, wb = part(b)
            if ka == "bad" or kb == "bad":
                self.err("type", f"`&` on {show(a)} and {show(b)}", line, key)
                return ERR
            if ka and kb and ka != kb:
                self.err("type", f"`&` on {show(a)} and {show(b)}", line, key)
                return ERR
            kind = ka or kb
            if kind is None:
                return ("lit", wa + wb)
            return VEC(kind, wa + wb)
        if op in ("+", "-", "*", "/", "mod", "rem"):
            return self.arith(op, a, b, line, key)
        self.err("type", f"operator `{op}` is never printed by the back end", line, f"operator {op}")
        return ERR

    @staticmethod
    def width(t):
        return t[2] if t[0] == "vec" else t[1]

    def relational(self, op, a, b, line, key):
        ta, tb = a[0], b[0]
        if ta == "bool" and tb == "bool":
            return
        if ta == "int" and tb == "int":
            return
        if ta == "sl" and tb == "sl":
            return
        if ta in ("enum", "enumlit") and tb in ("enum", "enumlit"):
            na = [a[1]] if ta == "enum" else a[1]
            nb = [b[1]] if tb == "enum" else b[1]
            common = [x for x in na if x in nb]
            if len(common) != 1:
                self.err("type", f"comparison `{op}` of {show(a)} with {show(b)}" + (" is ambiguous" if common else ""), line, key)
            return
        if ta == "arr" and tb == "arr" and a[1] == b[1] and op in ("=", "/="):
            return
        va, vb = ta in ("vec", "lit"), tb in ("vec", "lit")
        if va and vb:
            if ta == "lit" and tb == "lit":
                self.err("type", f"comparison `{op}` of two bit-string literals is ambiguous", line, key)
                return
            if ta == "vec" and tb == "vec" and a[1] != b[1]:
                self.err("type", f"comparison `{op}` of {show(a)} with {show(b)}", line, key)
                return
            kind = a[1] if ta == "vec" else b[1]
            if kind == "slv" and op in ("=", "/=") and self.width(a) != self.width(b):
                # legal VHDL (always false / true) but never what a width-checked source means
                self.err("width", f"`{op}` on std_logic_vectors of width {self.width(a)} and {self.width(b)}", line, f"{op} slv widths")
            return
        for v, i in ((a, b), (b, a)):
            if v[0] == "vec" and i[0] == "int":
                if v[1] not in ("uns", "sgn"):
                    self.err("type", f"comparison `{op}` of {show(v)} with an integer", line, key)
                elif v[1] == "uns" and i[1] is not None and i[1] < 0:
                    self.err("range", f"unsigned compared with the negative static integer {i[1]} (parameter subtype NATURAL)", line, f"uns {op} negative")
                return
        self.err("type", f"comparison `{op}` of {show(a)} with {show(b)}", line, key)

    def arith(self, op, a, b, line, key):
        ta, tb = a[0], b[0]
        if ta == "int" and tb == "int":
            x, y = a[1], b[1]
            if x is None or y is None:
                return INT()
            try:
                if op == "+":
                    return INT(x + y)
                if op == "-":
                    return INT(x - y)
                if op == "*":
                    return INT(x * y)
                if y == 0:
                    self.err("range", f"static integer division by zero (`{op}`)", line, "static division by zero")
                    return INT()
                q = abs(x) // abs(y)
                if (x < 0) != (y < 0):
                    q = -q
                if op == "/":
                    return INT(q)
                if op == "rem":
                    return INT(x - q * y)
                return INT(x % y)
            except Exception:  # noqa
                return INT()
        ok_a = ta == "int" or (ta == "vec" and a[1] in ("uns", "sgn"))
        ok_b = tb == "int" or (tb == "vec" and b[1] in ("uns", "sgn"))
        if not (ok_a and ok_b):
            self.err("type", f"`{op}` on {show(a)} and {show(b)} (numeric_std: unsigned/signed/integer only)", line, key)
            return ERR
        if ta == "vec" and tb == "vec":
            if a[1] != b[1]:
                self.err("type", f"`{op}` on {show(a)} and {show(b)}", line, key)
                return ERR
            wa, wb = a[2], b[2]
            w = max(wa, wb) if op in ("+", "-") else wa + wb if op == "*" else wa if op == "/" else wb
            return VEC(a[1], w)
        v, i = (a, b) if ta == "vec" else (b, a)
        if v[1] == "uns" and i[1] is not None and i[1] < 0:
            self.err("range", f"unsigned `{op}` negative static integer {i[1]} (parameter subtype NATURAL)", line, f"uns {op} negative")
        w = v[2] * 2 if op == "*" else v[2]
        return VEC(v[1], w)

    # ---- assignment compatibility
    def assign_compat(self, want, got, line, what, kind="type"):
        """got may be ('agg', items) / ('lit', w) / ('enumlit', ..)"""
        self.stats["assigns"] += 1
        if want[0] == "err" or got[0] == "err":
            return
        tw, tg = want[0], got[0]
        key = f"{self.tkey(want)} <- {self.tkey(got)}"
        if tg == "agg":
            if tw != "arr":
                self.err(kind, f"aggregate given for {what} of type {show(want)}", line, key)
                return
            n, et = want[2], want[3]
            covered, others = set(), False
            for c, v in got[1]:
                if c is None:
                    others = True
                else:
                    ci = self.static_int(c)
                    if ci is None or not (0 <= ci < n):
                        self.err("width", f"aggregate choice {c} outside 0 to {n-1} in {what}", line, "aggregate choice range")
                        continue
                    if ci in covered:
                        self.err("case-dup", f"aggregate choice {ci} twice in {what}", line, "aggregate choice twice")
                    covered.add(ci)
                self.assign_compat(et, self.ty(v, self.cur_region, et, line), line, f"element of {what}", kind)
            if not others and len(covered) != n:
                self.err("width", f"aggregate for {what} covers {len(covered)} of {n} elements and has no others", line, "aggregate incomplete")
            return
        if tw == "sl" and tg == "sl":
            return
        if tw == "bool" and tg == "bool":
            return
        if tw == "int" and tg == "int":
            return
        if tw == "str" and tg in ("lit", "str"):
            return
        if tw == "vec":
            if tg == "lit":
                if got[1] != want[2]:
                    self.err("width", f"{got[1]}-bit literal / concatenation for the {want[2]}-bit {what}", line, "literal width")
                return
            if tg == "vec":
                if got[1] != want[1]:
                    self.err(kind, f"{show(got)} value for {what} of type {show(want)}", line, key)
                    return
                if got[2] != want[2]:
                    self.err("width", f"{got[2]}-bit value for the {want[2]}-bit {what}", line, "vector width")
                return
        if tw == "enum":
            if tg == "enum" and got[1] == want[1]:
                return
            if tg == "enumlit" and want[1] in got[1]:
                return
        if tw == "arr" and tg == "arr" and got[1] == want[1]:
            return
        self.err(kind, f"{show(got)} value for {what} of type {show(want)}", line, key)

    # ---- targets
    def target_ty(self, t, region, line):
        """-> (type, root Obj|None)"""
        if t[0] == "name":
            self.ident(t[1], line, "target", False)
            b = region.lookup(t[1])
            if not b:
                self.err("undeclared", f"assignment target {t[1]!r} is not declared", line, f"name {self.canon_name(t[1])}")
                return ERR, None
            if b[0][0] != "obj":
                self.err("type", f"assignment to the {b[0][0]} {t[1]!r}", line, f"assignment to {b[0][0]}")
                return ERR, None
            return b[0][1].ty, b[0][1]
        if t[0] == "call":
            base, o = self.target_ty(("name", t[1]), region, line)
            if len(t[2]) != 1:
                self.err("type", "multi-dimensional target index", line, "multi-dimensional index")
                return ERR, o
            return self.index_ty(base, t[2][0], region, line), o
        if t[0] == "index":
            base, o = self.target_ty(t[1], region, line)
            return self.index_ty(base, t[2], region, line), o
        if t[0] == "slice":
            base, o = self.target_ty(t[1], region, line)
            if base[0] == "err":
                return ERR, o
            saved_reads = self.reads
            l, r = self.int_arg(t[2], region, line, "slice bound"), self.int_arg(t[4], region, line, "slice bound")
            if base[0] != "vec":
                self.err("type", f"slice of {show(base)} as target", line, f"slice of {base[0]}")
                return ERR, o
            if l is None or r is None:
                self.err("type", "target slice with non-static bounds", line, "non-static slice")
                return ERR, o
            rng = base[3] or (base[2] - 1, "downto", 0)
            d = t[3]
            if d != rng[1]:
                self.err("width", f"target slice direction `{d}` differs from the object's ({rng[0]} {rng[1]} {rng[2]})", line, "slice direction")
            elif (d == "downto" and l < r) or (d == "to" and l > r):
                self.err("width", f"null target slice ({l} {d} {r})", line, "null slice")
                return ERR, o
            else:
                lo, hi = min(rng[0], rng[2]), max(rng[0], rng[2])
                if not (lo <= l <= hi and lo <= r <= hi):
                    self.err("width", f"target slice ({l} {d} {r}) outside ({rng[0]} {rng[1]} {rng[2]})", line, "slice out of range")
            return VEC(base[1], abs(l - r) + 1, (l, d, r)), o
        self.err("syntax", f"bad assignment target {t[0]}", line, "target node")
        return ERR, None

    def assignment(self, target, expr, region, line, signal):
        self.cur_region = region
        tt, o = self.target_ty(target, region, line)
        if o is not None:
            if signal and not o.is_signal:
                self.err("object-class", f"signal assignment `<=` to the {o.cls} {o.name!r}", line, f"<= to {o.cls}")
            if not signal and o.cls != "variable":
                self.err("object-class", f"variable assignment `:=` to the {o.cls} {o.name!r}", line, f":= to {o.cls}")
            if o.cls == "port-in":
                self.err("in-assign", f"assignment to the input port {o.name!r}", line, "assignment to in port")
        et = self.ty(expr, region, tt, line)
        self.assign_compat(tt, et, line, f"target {self.target_root(target)}")

    @staticmethod
    def target_root(t):
        while t[0] not in ("name", "call"):
            t = t[1]
        return t[1]

    def condition(self, e, region, line, what):
        self.cur_region = region
        t = self.ty(e, region, BOOL, line)
        if t[0] not in ("bool", "err"):
            self.err("type", f"{what} is {show(t)}, not boolean", line, f"{what} {t[0]}")

    # ---- choices
    def choice_value(self, c, region):
        """canonical static value of a choice for the distinctness check (None = not static)"""
        k = c[0]
        if k == "int":
            return ("i", c[1])
        if k == "char":
            return ("c", c[1])
        if k == "str":
            return ("s", c[1])
        if k == "bool":
            return ("b", c[1])
        if k == "name":
            return ("n", c[1].lower())
        if k == "qual":
            return self.choice_value(c[2], region)
        if k == "un" and c[1] == "-":
            v = self.static_int(c)
            return None if v is None else ("i", v)
        return None

    def choices(self, sel_t, branches, has_others, region, line, what):
        self.stats["cases"] += 1
        seen = set()
        for chs, _ in branches:
            for c in chs:
                ct = self.ty(c, region, sel_t, line)
                v = self.choice_value(c, region)
                if v is None:
                    if ct[0] != "err":
                        self.err("type", f"{what} choice is not a static literal", line, "choice not static")
                else:
                    if v in seen:
                        self.err("case-dup", f"{what} has the choice {v[1]!r} twice", line, "choice twice")
                    seen.add(v)
                if sel_t[0] == "err" or ct[0] == "err":
                    continue
                self.assign_compat(sel_t, ct, line, f"choice of the {what}")
        if not has_others:
            complete = False
            if sel_t[0] == "enum":
                b = region.lookup(sel_t[1])
                lits = b[0][1][2] if b and b[0][0] == "type" else ()
                complete = bool(lits) and {("n", l) for l in lits} <= seen
            elif sel_t[0] == "bool":
                complete = {("b", True), ("b", False)} <= seen
            if not complete:
                self.err("case-others", f"{what} without an others branch does not cover its selector type {show(sel_t)}", line, f"no others {sel_t[0]}")

    def selector(self, e, region, line, what):
        t = self.ty(e, region, None, line)
        if t[0] == "lit":
            self.err("type", f"{what} selector is an untyped literal / concatenation", line, "selector untyped")
            return ERR
        if t[0] in ("agg", "enumlit", "str"):
            self.err("type", f"{what} selector is {show(t)}", line, f"selector {t[0]}")
            return ERR
        return t

    def select(self, s, region):
        self.cur_region = region
        line = s["line"]
        st = self.selector(s["sel"], region, line, "selected assignment")
        tt, o = self.target_ty(s["target"], region, line)
        if o is not None:
            if not o.is_signal:
                self.err("object-class", f"selected signal assignment to the {o.cls} {o.name!r}", line, f"<= to {o.cls}")
            if o.cls == "port-in":
                self.err("in-assign", f"assignment to the input port {o.name!r}", line, "assignment to in port")
        self.choices(st, s["branches"], s["default"] is not None, region, line, "selected assignment")
        for _, v in s["branches"]:
            self.assign_compat(tt, self.ty(v, region, tt, line), line, f"target {self.target_root(s['target'])}")
        if s["default"] is not None:
            self.assign_compat(tt, self.ty(s["default"], region, tt, line), line, f"target {self.target_root(s['target'])}")

    # ---- processes
    def process(self, s, outer):
        self.stats["procs"] += 1
        line = s["line"]
        region = Region(outer, f"process {s['label'] or ''}".strip())
        self._proc_regions.append(region)
        self.cur_region = region
        self.declarations(region, s["decls"], True)
        sens = set()
        if not s["sens_all"]:
            if not s["sens"]:
                self.err("sens-empty", f"process {s['label']} has no sensitivity list", line, "empty sensitivity list")
            for n in s["sens"]:
                node = n
                while node[0] not in ("name", "call"):
                    node = node[1]
                root = node[1]
                self.ident(root, line, "sensitivity list entry", False)
                b = region.lookup(root)
                if not b:
                    self.err("undeclared", f"sensitivity list names the undeclared {root!r}", line, f"name {self.canon_name(root)}")
                    continue
                if b[0][0] != "obj" or not b[0][1].is_signal:
                    self.err("sens-object", f"sensitivity list names the {b[0][0] if b[0][0] != 'obj' else b[0][1].cls} {root!r}", line, "sensitivity entry not a signal")
                    continue
                if b[0][1].cls == "port-out":
                    self.err("out-read", f"output port {root!r} in a sensitivity list", line, "out port read")
                sens.add(root.lower())
        self.reads = {}
        try:
            self.stmts(s["body"], region)
            reads = self.reads
        finally:
            self.reads = None
        if not s["sens_all"]:
            for name, ln in sorted(reads.items()):
                if name not in sens:
                    self.err("sens-missing", f"process {s['label']} reads signal {name!r} outside a clock-edge guard but its sensitivity list is ({', '.join(sorted(sens))})", ln or line, "read signal not in sensitivity list")

    @staticmethod
    def has_edge(e):
        if not isinstance(e, tuple):
            return False
        if e[0] == "call" and e[1].lower() in ("rising_edge", "falling_edge"):
            return True
        return any(Checker.has_edge(x) for x in e[1:] if isinstance(x, tuple)) or any(
            Checker.has_edge(y) for x in e[1:] if isinstance(x, list) for y in x if isinstance(y, tuple))

    def stmts(self, body, region):
        for s in body:
            k = s["stmt"]
            line = s["line"]
            self.cur_region = region
            if k == "sassign":
                self.assignment(s["target"], s["expr"], region, line, signal=True)
            elif k == "vassign":
                self.assignment(s["target"], s["expr"], region, line, signal=False)
            elif k == "if":
                if self.has_edge(s["cond"]):
                    # everything that happens under the edge only matters at the edge; the signals named
                    # in the condition itself (the clock) must be in the sensitivity list
                    self.condition(s["cond"], region, line, "if condition")
                    saved = self.reads
                    self.reads = {}
                    try:
                        self.stmts(s["body"], region)
                    finally:
                        self.reads = saved
                    self.stmts(s["orelse"], region)
                else:
                    self.condition(s["cond"], region, line, "if condition")
                    self.stmts(s["body"], region)
                    self.stmts(s["orelse"], region)
            elif k == "case":
                st = self.selector(s["sel"], region, line, "case")
                self.choices(st, s["branches"], s["others"] is not None, region, line, "case statement")
                for _, b in s["branches"]:
                    self.stmts(b, region)
                if s["others"] is not None:
                    self.stmts(s["others"], region)
            elif k == "null":
                pass
            elif k == "assert":
                self.condition(s["expr"], region, line, "assert condition")
            else:
                self.err("syntax", f"unknown statement {k}", line, "statement node")

    # ---- instances
    def instance(self, s, region):
        self.cur_region = region
        line = s["line"]
        self.note_predef_use(s["lib"].lower(), "library")
        self.ident(s["lib"], line, "library name", False)
        self.ident(s["entity"], line, "instantiated entity", False)
        if s["lib"].lower() != "work":
            # external entity: nothing in the text to check the association against; actuals are still typed
            for f, a in s["ports"] + s["generics"]:
                if isinstance(f, tuple):
                    f = f[2]
                self.ident(f, line, "formal", False)
                saved = len(self.issues)
                self.ty(a, region, None, line)
            return
        b = region.lookup("work")
        if b:
            self.err("hides-predefined", f"library name `work` denotes the user-declared {b[0][0]}", line, "work library")
        sub = self.entities.get(s["entity"].lower())
        if sub is None:
            self.err("undeclared", f"instance {s['label']} of the unknown entity work.{s['entity']}", line, "instantiated entity")
            return
        if s["arch"] is not None:
            self.ident(s["arch"], line, "architecture name", False)
            if (s["entity"].lower(), s["arch"].lower()) not in self.archs:
                self.err("undeclared", f"instance {s['label']}: entity {s['entity']} has no architecture {s['arch']!r}", line, "instantiated architecture")
        formals = {p["name"].lower(): p for p in sub["ports"]}
        sub_region = Region(None, "formals")
        seen = set()
        for f, actual in s["ports"]:
            self.stats["assocs"] += 1
            fconv = None
            if isinstance(f, tuple):
                # ('conv', typemark, formal): type conversion on the formal side `unsigned(y) => actual`
                fconv, f = f[1], f[2]
            self.ident(f, line, "formal", False)
            fl = f.lower()
            if fl not in formals:
                self.err("undeclared", f"port map of {s['label']} names the formal {f!r} that entity {sub['name']} does not have", line, "port map formal")
                self.ty(actual, region, None, line)
                continue
            if fl in seen:
                self.err("assoc", f"formal {f!r} associated twice", line, "formal twice")
            seen.add(fl)
            p = formals[fl]
            saved = len(self.issues)
            unit = self.unit
            fty = self.mk_type(p["type"], sub_region, line, f"formal {f}")
            del self.issues[saved:]  # reported where the entity itself is checked
            if fconv is not None:
                # the association is typed with the CONVERTED formal; only legal for closely related vector types
                # and not on a pure input (nothing flows from the formal to the actual there)
                low = fconv.lower()
                self.note_predef_use(low, "type")
                if region.lookup(fconv):
                    self.err("hides-predefined", f"conversion {fconv}(..) on formal {f} denotes a user declaration", line, f"{low} call")
                elif low not in KINDS:
                    self.err("type", f"conversion {fconv}(..) on the formal {f} is not a vector type conversion", line, "formal conversion function")
                elif fty[0] == "vec":
                    if p["dir"] == "in":
                        self.err("type", f"type conversion on the input formal {f}", line, "conversion on input formal")
                    fty = VEC(KINDS[low], fty[2])
                elif fty[0] != "err":
                    self.err("type", f"conversion {fconv}(..) applied to the formal {f} of type {show(fty)}", line, f"{low}({fty[0]}) formal")
                    fty = ERR
            if p["dir"] == "in":
                at = self.ty(actual, region, fty, line)
                self.assign_compat(fty, at, line, f"formal {f} of {s['label']}")
            else:
                # the actual must be a signal name (slice / element of one)
                node = actual
                ok = True
                while node[0] in ("slice", "index"):
                    node = node[1]
                if node[0] not in ("name", "call") or (node[0] == "call" and not self.is_object(node[1], region)):
                    self.err("type", f"{p['dir']} formal {f} of {s['label']} is associated with an expression, not a signal name", line, "output formal with expression")
                    saved_reads = self.reads
                    self.ty(actual, region, fty, line)
                    continue
                at, o = self.target_ty(actual, region, line)
                if o is not None:
                    if not o.is_signal:
                        self.err("object-class", f"{p['dir']} formal {f} associated with the {o.cls} {o.name!r}", line, "formal with non-signal")
                    if o.cls == "port-in":
                        self.err("in-assign", f"{p['dir']} formal {f} drives the input port {o.name!r}", line, "output formal on in port")
                    if p["dir"] == "inout" and o.cls == "port-out":
                        self.err("out-read", f"inout formal {f} associated with the output port {o.name!r}", line, "out port read")
                self.assign_compat(fty, at, line, f"formal {f} of {s['label']}")
        for fl, p in formals.items():
            if fl not in seen and p["dir"] == "in" and p["default"] is None:
                self.err("assoc", f"input formal {p['name']!r} of {s['label']} has no actual and no default", line, "input formal open")

    def is_object(self, name, region):
        b = region.lookup(name)
        return bool(b) and b[0][0] == "obj"


def check(text):
    """-> list of Issue (empty = the text passed every clause)"""
    return Checker(text=text).run()


def check_stats(text):
    c = Checker(text=text)
    issues = c.run()
    return issues, c.stats


def summarize(issues):
    """canonical, order-independent summary used for signatures: sorted set of (kind, key)"""
    return sorted({(i.kind, i.key) for i in issues})


if __name__ == "__main__":
    import sys

    for path in sys.argv[1:]:
        iss = check(open(path).read())
        print(path, "OK" if not iss else f"{len(iss)} issues")
        for i in iss:
            print("  ", i)
