"""C04 - reset returns every sequential context to its power-up behaviour from any state.

Per generated design (objects = ports / signals / variables with and without default, `noreset`, pushed
signals, objects written through slices / elements, local objects, an optional embedded coroutine, on_reset
actions registered in every way the API offers, synchronous / asynchronous reset of either polarity, optional
step condition):

  (0) the design is compiled by /repo's compiler and the emitted VHDL is executed by harness/vhdl_sim.py;
  (1) its reachable state space is enumerated breadth-first from power-up over ALL input combinations
      (reset included, so reset of any duration from every reachable state is part of the closure); every
      process activation (reset change, rising and falling clock edge) in which the Lean model `C04.stepR`
      (lean/CohdlVerif/Model/C04.lean: mirror of the three wrappers of `_sequential_impl` and of
      `Sequential._pushed_resettable_signals`) says "reset branch" or "nothing executes" is compared object by
      object with the model's prediction: defaults taken, exempt objects kept, on_reset actions ran, state
      register back in the first state, nothing else executed.  For asynchronous resets the reset is also
      asserted between clock edges (no clock event);
  (2) THE PROPERTY: from every reachable state reset is asserted for 1..3 clocks, released, and the following
      trace is compared with the power-up trace on the same later inputs (on the objects the model's
      `footprint` says are returned to their power-up value, for designs whose body reads nothing else -
      the hypothesis `AllStateResettable` of theorem C04.after_reset_eq_powerup, decided by the model).

A deviation is a VIOLATION with (design, input prefix, reset instant / duration, later inputs) as replay; the
design is minimised by deleting statements / objects while the same deviation class is observed.
"""

import itertools
import random
import re

from .common import Ctx, compile_many, fork_map, load_design_module, import_cohdl
from . import lean_io
from .vhdl_sim import Design, SL, Vec, EnumV, Arr, Storage, VhdlTypeError, VhdlRuntimeError

# ---------------------------------------------------------------------------------------------------
# design descriptor
#   objs: [{"name","cls": port|sig|var|lsig|lvar, "ty": bit|u2|bv2|bool|arr, "default": None|int, "noreset": bool,
#           "pushed": bool, "nr_form": 0|1}]
#   body: [stmt]   stmt = ["set", i, expr] | ["setbit", i, k, bitexpr] | ["if", cond, [stmt], [stmt]]
#                       | ["await", cond] | ["local", i, expr]      (i = index of an lsig / lvar object)
#   onreset: [[ [target, rexpr] ... ] ...]   rexpr = ["c", k] | ["i", j] | ["o", r] | ["p", r]
#   expressions: ["in", "a"|"b"] | ["c", k] | ["o", i] | ["ob", i, k] | ["not", e] | ["and"|"or"|"xor", e, e] | ["inc", i]
#   cond: ["b", bitexpr] | ["eq", i, k] | ["bool", i]
# ---------------------------------------------------------------------------------------------------

TY = {
    "bit": {"py": "Bit", "max": 1},
    "u2": {"py": "Unsigned[2]", "max": 3},
    "bv2": {"py": "BitVector[2]", "max": 3},
    "bool": {"py": "bool", "max": 1},
    "arr": {"py": "Array[Bit, 2]", "max": 3},
}
DATA = ("a", "b")


def lit(ty, v):
    if ty in ("bit", "bool"):
        return "True" if v else "False"
    if ty == "u2":
        return str(v)
    if ty == "bv2":
        return f'"{v:02b}"'
    if ty == "arr":
        return f"[{bool(v & 1)}, {bool(v >> 1 & 1)}]"
    raise AssertionError(ty)


def ref(o):
    if o.get("agg"):
        return f"{o['agg']['grp']}.{o['agg']['path']}"   # member of a record (possibly of a nested record)
    return f"self.{o['name']}" if o["cls"] == "port" else o["name"]


def agg_groups(d):
    """{group name: [object index]} of the objects that are members of one aggregate (std.Record) object"""
    out = {}
    for i, o in enumerate(d["objs"]):
        if o.get("agg"):
            out.setdefault(o["agg"]["grp"], []).append(i)
    return out


def render_records(d):
    """class definitions of the records: top-level fields and one nested record `n` per group"""
    L = []
    for g, idxs in agg_groups(d).items():
        top = [(d["objs"][i]["agg"]["path"], d["objs"][i]) for i in idxs if "." not in d["objs"][i]["agg"]["path"]]
        inner = [(d["objs"][i]["agg"]["path"].split(".")[1], d["objs"][i]) for i in idxs if "." in d["objs"][i]["agg"]["path"]]
        if inner:
            L.append(f"class Inner_{g}(std.Record):")
            L += [f"    {f}: {TY[o['ty']]['py']}" for f, o in inner]
            L.append("")
        L.append(f"class Rec_{g}(std.Record):")
        L += [f"    {f}: {TY[o['ty']]['py']}" for f, o in top]
        if inner:
            L.append(f"    n: Inner_{g}")
        L.append("")
    return L


def render_agg_decls(d):
    L = []
    for g, idxs in agg_groups(d).items():
        objs = [d["objs"][i] for i in idxs]
        o0 = objs[0]
        q = "Signal" if o0["cls"] == "sig" else "Variable"
        top = [f"{o['agg']['path']}={lit(o['ty'], o['default'])}" for o in objs if "." not in o["agg"]["path"]]
        inner = [f"{o['agg']['path'].split('.')[1]}={lit(o['ty'], o['default'])}" for o in objs if "." in o["agg"]["path"]]
        if inner:
            top.append(f"n=Inner_{g}({', '.join(inner)})")
        ctor = f"std.Noreset{q}[Rec_{g}]" if o0["noreset"] else f"{q}[Rec_{g}]"
        L.append(f"        {g} = {ctor}({', '.join(top)})")
        for o in objs:
            L.append(f"        {ref(o)}.set_name(\"{o['name']}\")")
    return L


def r_expr(d, e):
    k = e[0]
    objs = d["objs"]
    if k == "in":
        return f"self.{e[1]}"
    if k == "c":
        return f"Bit({e[1]})"
    if k == "k":
        return str(e[1])
    if k == "o":
        return ref(objs[e[1]])
    if k == "ob":
        return f"{ref(objs[e[1]])}[{e[2]}]"
    if k == "not":
        return f"(~{r_expr(d, e[1])})"
    if k in ("and", "or", "xor"):
        op = {"and": "&", "or": "|", "xor": "^"}[k]
        return f"({r_expr(d, e[1])} {op} {r_expr(d, e[2])})"
    if k == "inc":
        return f"({ref(objs[e[1]])} + 1)"
    raise AssertionError(e)


def r_cond(d, c):
    if c[0] == "b":
        return r_expr(d, c[1])
    if c[0] == "eq":
        return f"{ref(d['objs'][c[1]])} == {c[2]}"
    if c[0] == "bool":
        return ref(d["objs"][c[1]])
    raise AssertionError(c)


def assign_text(d, i, rhs):
    o = d["objs"][i]
    if o["cls"] in ("var", "lvar"):
        return f"{ref(o)}.value = {rhs}"
    if o.get("pushed"):
        return f"{ref(o)}.push = {rhs}"
    return f"{ref(o)}.next = {rhs}"


def r_body(d, stmts, ind):
    out = []
    pad = "    " * ind
    for s in stmts:
        k = s[0]
        if k == "set":
            o = d["objs"][s[1]]
            e = s[2]
            rhs = lit(o["ty"], e[1]) if e[0] == "k" and o["ty"] in ("bv2", "bool") else r_expr(d, e)
            out.append(pad + assign_text(d, s[1], rhs))
        elif k == "setbit":
            out.append(pad + f"{ref(d['objs'][s[1]])}[{s[2]}] <<= {r_expr(d, s[3])}")
        elif k == "if":
            out.append(pad + f"if {r_cond(d, s[1])}:")
            out += r_body(d, s[2], ind + 1) or [pad + "    pass"]
            if s[3]:
                out.append(pad + "else:")
                out += r_body(d, s[3], ind + 1)
        elif k == "await":
            c = s[1]
            simple = (c[0] == "b" and c[1][0] in ("in", "o")) or c[0] == "bool"
            out.append(pad + (f"await {r_cond(d, c)}" if simple else f"await cohdl.expr({r_cond(d, c)})"))
        elif k == "local":
            o = d["objs"][s[1]]
            q = "Signal" if o["cls"] == "lsig" else "Variable"
            out.append(pad + f"{o['name']} = {q}[{TY[o['ty']]['py']}]({r_expr(d, s[2])}, name=\"{o['name']}\")")
        else:
            raise AssertionError(s)
    return out


def ctl_expr(d, name):
    """the clock / reset / step-condition signal: a port of its own, or a bit of the control bus `ctrl` (a vector
    port) or of a local copy `cs` of it"""
    ctl = d.get("ctl") or {}
    if ctl.get("vec") and ctl.get(name) is not None:
        return f"{'self.ctrl' if ctl['vec'] == 'port' else 'cs'}[{ctl[name]}]"
    return f"self.{name}"


def render(d):
    """descriptor -> source text of a real design file"""
    L = ["from __future__ import annotations", "import cohdl", "from cohdl import Bit, Port, Unsigned, BitVector, Variable, Signal, Array", "from cohdl import std", ""]
    L += render_records(d)
    L += ["class E(cohdl.Entity):", "    clk = Port.input(Bit)", "    rst = Port.input(Bit)", "    en = Port.input(Bit)",
         "    a = Port.input(Bit)", "    b = Port.input(Bit)"]
    ctl = d.get("ctl") or {}
    if ctl.get("vec"):
        L.append(f"    ctrl = Port.input(BitVector[{ctl['w']}])")
    for o in d["objs"]:
        if o["cls"] == "port":
            kw = []
            if o["default"] is not None:
                kw.append(f"default={lit(o['ty'], o['default'])}")
            if o["noreset"]:
                kw.append("noreset=True")
            L.append(f"    {o['name']} = Port.output({TY[o['ty']]['py']}{''.join(', ' + k for k in kw)})")
    L.append("    def architecture(self):")
    if ctl.get("vec") == "sig":
        # the control bits are bits of a LOCAL signal (a copy of the control bus)
        L += [f"        cs = Signal[BitVector[{ctl['w']}]](name=\"cs\")", "        @std.concurrent", "        def drive_cs():", "            cs.next = self.ctrl"]
    L += render_agg_decls(d)
    for o in d["objs"]:
        if o["cls"] in ("sig", "var") and not o.get("agg"):
            q = "Signal" if o["cls"] == "sig" else "Variable"
            T = TY[o["ty"]]["py"]
            args = ([lit(o["ty"], o["default"])] if o["default"] is not None else []) + [f"name=\"{o['name']}\""]
            if o["noreset"] and o.get("nr_form", 0) == 0:
                L.append(f"        {o['name']} = std.Noreset{q}[{T}]({', '.join(args)})")
            else:
                if o["noreset"]:
                    args.append("noreset=True")
                L.append(f"        {o['name']} = {q}[{T}]({', '.join(args)})")
    if d.get("ext") is not None:
        # an object driven by ANOTHER context (only read by the context under test)
        L += ["        @std.sequential(std.Clock(self.clk))", "        def other():", f"            {ref(d['objs'][d['ext']])}.next = self.b"]
    fns = []
    for n, fn in enumerate(d["onreset"]):
        fns.append(f"on_rst{n}")
        L.append(f"        def on_rst{n}():")
        if not fn:
            L.append("            pass")
        for t, e in fn:
            o = d["objs"][t]
            if e[0] == "c":
                rhs = lit(o["ty"], e[1]) if o["ty"] in ("bv2", "bool", "bit") else str(e[1])
            elif e[0] == "i":
                rhs = f"self.{DATA[e[1]]}"
            elif e[0] == "o":
                rhs = ref(d["objs"][e[1]])
            else:
                rhs = f"({ref(d['objs'][e[1]])} + 1)"
            L.append("            " + assign_text(d, t, rhs))
    fl = "[" + ", ".join(fns) + "]" if len(fns) != 1 else fns[0]
    edge = d.get("edge", "rising")
    clk = f"std.Clock({ctl_expr(d, 'clk')}{'' if edge == 'rising' else ', active_edge=std.Clock.Edge.' + edge.upper()})"
    rst = None if d["reset"] == "none" else \
        f"std.Reset({ctl_expr(d, 'rst')}{', active_low=True' if d['low'] else ''}{', is_async=True' if d['reset'] == 'async' else ''})"
    sc = f"step_cond=lambda: {ctl_expr(d, 'en')}" if d["stepcond"] else None
    reg = d["reg"] if rst and (fns or d["reg"] == "or_reset") else "call"
    base = [clk] + ([rst] if rst else [])
    if reg == "seq":
        args = base + ([sc] if sc else []) + [f"on_reset={fl}"]
        L.append(f"        @std.sequential({', '.join(args)})")
    else:
        args = base + ([sc] if sc else []) + ([f"on_reset={fl}"] if reg in ("ctor", "or_reset") and fns else [])
        L.append(f"        ctx = std.SequentialContext({', '.join(args)})")
        if reg == "with_params":
            L.append(f"        ctx = ctx.with_params(on_reset={fl})")
        if reg == "or_reset":
            # a derived context: the additional reset condition is constantly inactive
            L.append(f"        ctx = ctx.or_reset(expr=lambda: Bit({1 if d['low'] else 0}), active_low={bool(d['low'])})")
        if reg == "call" and fns and rst:
            L.append(f"        @ctx(on_reset={fl})")
        else:
            L.append("        @ctx")
    L.append(f"        {'async ' if d['coro'] else ''}def proc():")
    L += r_body(d, d["body"], 3) or ["            pass"]
    return "\n".join(L) + "\n"


# ---- static facts of a descriptor ---------------------------------------------------------------------


def expr_reads(e, acc):
    k = e[0]
    if k in ("o", "ob", "inc"):
        acc.add(e[1])
    elif k == "not":
        expr_reads(e[1], acc)
    elif k in ("and", "or", "xor"):
        expr_reads(e[1], acc)
        expr_reads(e[2], acc)


def cond_reads(c, acc):
    if c[0] == "b":
        expr_reads(c[1], acc)
    else:
        acc.add(c[1])


def body_facts(stmts, written, reads):
    for s in stmts:
        k = s[0]
        if k == "set":
            written.add(s[1])
            expr_reads(s[2], reads)
        elif k == "setbit":
            written.add(s[1])
            expr_reads(s[3], reads)
        elif k == "if":
            cond_reads(s[1], reads)
            body_facts(s[2], written, reads)
            body_facts(s[3], written, reads)
        elif k == "await":
            cond_reads(s[1], reads)
        elif k == "local":
            written.add(s[1])
            expr_reads(s[2], reads)


def n_awaits(stmts):
    return sum(1 for s in stmts if s[0] == "await")


def has_state_reg(d):
    """a coroutine with at least one state besides the first one gets a state register (a single `await` at the
    very start re-uses the empty first state: no register) - taken from the emitted design once it is known"""
    if "_statereg" in d:
        return d["_statereg"]
    return d["coro"] and n_awaits(d["body"]) >= 1


def facts(d):
    written, reads = set(), set()
    body_facts(d["body"], written, reads)
    on_targets = set()
    if d["reset"] != "none":
        for fn in d["onreset"]:
            for t, e in fn:
                on_targets.add(t)
    return written, reads, on_targets


def model_objs(d):
    """the model's object table: the descriptor's objects (+ the state register of an embedded coroutine)"""
    written, reads, on_targets = facts(d)
    toks = []
    for i, o in enumerate(d["objs"]):
        isvar = "v" if o["cls"] in ("var", "lvar") else "s"
        local = o["cls"] in ("lsig", "lvar")
        dflt = "-" if (o["default"] is None or local) else str(o["default"])
        wr = (i in written) or (i in on_targets)
        if d.get("ext") == i:
            wr = False
        toks.append(f"{isvar}/{dflt}/{int(o['noreset'])}/{int(wr)}/{int(bool(o.get('pushed')) and i in written)}")
    if has_state_reg(d):
        toks.append("s/0/0/1/0")
    return toks


def model_writes(d):
    toks = []
    if d["reset"] == "none":
        return toks
    for fn in d["onreset"]:
        for t, e in fn:
            if e[0] == "p":
                toks.append(f"{t}/p/{e[1]}/{TY[d['objs'][e[1]]['ty']]['max'] + 1}")
            else:
                toks.append(f"{t}/{e[0]}/{e[1]}")
    return toks


def counted(toks):
    return [str(len(toks))] + list(toks)


# ---------------------------------------------------------------------------------------------------
# generator
# ---------------------------------------------------------------------------------------------------


class Gen:
    def __init__(self, rng):
        self.rng = rng

    def bit(self, d, readable, depth=0):
        r = self.rng
        objs = d["objs"]
        bits = [i for i in readable if objs[i]["ty"] == "bit"]
        vecs = [i for i in readable if objs[i]["ty"] in ("u2", "bv2", "arr")]
        opts = ["in", "in"]
        if bits:
            opts += ["o", "o"]
        if vecs:
            opts += ["ob"]
        if depth < 2:
            opts += ["not", "bin"]
        k = r.choice(opts)
        if k == "in":
            return ["in", r.choice(DATA)]
        if k == "c":
            return ["c", r.randrange(2)]
        if k == "o":
            return ["o", r.choice(bits)]
        if k == "ob":
            return ["ob", r.choice(vecs), r.randrange(2)]
        if k == "not":
            return ["not", self.bit(d, readable, depth + 1)]
        return [r.choice(["and", "or", "xor"]), self.bit(d, readable, depth + 1), self.bit(d, readable, depth + 1)]

    def rhs(self, d, i, readable):
        """an expression of the type of object i"""
        r = self.rng
        o = d["objs"][i]
        ty = o["ty"]
        if ty == "bit":
            return ["c", r.randrange(2)] if r.random() < 0.12 else self.bit(d, readable)
        if ty == "u2":
            us = [j for j in readable if d["objs"][j]["ty"] == "u2"]
            k = r.choice(["k"] + (["o", "inc", "inc"] if us else []))
            if k == "k":
                return ["k", r.randrange(4)]
            return [k, r.choice(us)]
        if ty == "bv2":
            bs = [j for j in readable if d["objs"][j]["ty"] == "bv2" and j != i]
            if bs and r.random() < 0.4:
                return ["o", r.choice(bs)]
            return ["k", r.randrange(4)]
        if ty == "bool":
            return ["k", r.randrange(2)]
        raise AssertionError(ty)

    def cond(self, d, readable):
        r = self.rng
        us = [j for j in readable if d["objs"][j]["ty"] == "u2"]
        bs = [j for j in readable if d["objs"][j]["ty"] == "bool"]
        k = r.choice(["b", "b"] + (["eq"] if us else []) + (["bool"] if bs else []))
        if k == "b":
            return ["b", self.bit(d, readable)]
        if k == "eq":
            return ["eq", r.choice(us), r.randrange(4)]
        return ["bool", r.choice(bs)]

    def write(self, d, i, readable):
        r = self.rng
        o = d["objs"][i]
        if o["ty"] == "arr" or (o["ty"] in ("u2", "bv2") and o["cls"] != "var" and not o.get("pushed") and r.random() < 0.35):
            return ["setbit", i, r.randrange(2), self.bit(d, readable)]
        return ["set", i, self.rhs(d, i, readable)]

    def design(self):
        r = self.rng
        d = {"reset": r.choice(["sync", "sync", "sync", "async", "async", "async", "none"]) if r.random() < 0.35 else r.choice(["sync", "async"]),
             "low": r.random() < 0.4, "stepcond": r.random() < 0.4, "coro": r.random() < 0.5, "reg": "call",
             "objs": [], "body": [], "onreset": [], "ext": None}
        n = r.randint(2, 5)
        for i in range(n):
            cls = r.choice(["port", "port", "sig", "sig", "var"])
            ty = r.choice(["bit", "bit", "u2", "u2"]) if cls == "var" else r.choice(["bit", "bit", "bit", "u2", "u2", "u2", "bv2", "bool", "arr"])
            if ty == "arr" and cls == "port":
                cls = "sig"   # an array-typed port refers to a type declared inside the architecture (emitted VHDL is not legal: C06's business)
            has_d = r.random() < 0.72
            o = {"name": f"x{i}", "cls": cls, "ty": ty, "default": r.randrange(TY[ty]["max"] + 1) if has_d else None,
                 "noreset": r.random() < 0.25, "pushed": False, "nr_form": r.randrange(2)}
            if cls != "var" and has_d and ty in ("bit", "u2") and r.random() < 0.2:
                o["pushed"] = True
            d["objs"].append(o)
        # aggregates: some of the signals / variables are members of ONE std.Record object (one member in a nested
        # record); `noreset` is then a property of the aggregate (std.NoresetSignal[Rec] / std.NoresetVariable[Rec])
        if r.random() < 0.4:
            cand = [i for i, o in enumerate(d["objs"]) if o["cls"] in ("sig", "var") and o["ty"] in ("bit", "u2")]
            r.shuffle(cand)
            cand = cand[: r.randint(1, 3)]
            if cand:
                gcls, gnr = r.choice(["sig", "sig", "var"]), r.random() < 0.7
                for k, i in enumerate(sorted(cand)):
                    o = d["objs"][i]
                    o["cls"], o["noreset"], o["pushed"] = gcls, gnr, False
                    if o["default"] is None:
                        o["default"] = r.randrange(TY[o["ty"]]["max"] + 1)
                    o["agg"] = {"grp": "r0", "path": f"f{k}" if (k == 0 or r.random() < 0.6) else f"n.g{k}"}
        # an object only read by this context (never written, or driven by another context)
        if r.random() < 0.2:
            cand = [i for i, o in enumerate(d["objs"]) if o["cls"] == "sig" and o["ty"] == "bit" and not o["pushed"]]
            if cand:
                d["ext"] = r.choice(cand)
        readonly = set()
        if d["ext"] is not None:
            readonly.add(d["ext"])
        elif r.random() < 0.15:
            cand = [i for i, o in enumerate(d["objs"]) if o["cls"] == "sig" and o["default"] is not None and not o["pushed"]]
            if cand:
                readonly.add(r.choice(cand))
        own = [i for i in range(n) if i not in readonly]
        # on_reset actions
        if d["reset"] != "none" and r.random() < 0.6:
            cand = [i for i in own if not d["objs"][i]["pushed"] and d["objs"][i]["ty"] != "arr"]
            r.shuffle(cand)
            targets = cand[: r.randint(1, 2)]
            writes = []
            for t in targets:
                o = d["objs"][t]
                same = [j for j in range(n) if d["objs"][j]["ty"] == o["ty"] and o["ty"] in ("bit", "u2")]
                k = r.choice(["c", "c"] + (["i"] if o["ty"] == "bit" else []) + (["o"] if same else []) + (["p"] if same and o["ty"] == "u2" else []))
                if k == "c":
                    writes.append([t, ["c", r.randrange(TY[o["ty"]]["max"] + 1)]])
                elif k == "i":
                    writes.append([t, ["i", r.randrange(2)]])
                else:
                    writes.append([t, [k, r.choice(same)]])
            if len(writes) == 2 and r.random() < 0.5:
                d["onreset"] = [[writes[0]], [writes[1]]]
            else:
                d["onreset"] = [writes]
            d["reg"] = r.choice(["call", "call", "call", "call", "call", "call", "ctor", "seq", "with_params", "or_reset"])
        if d["reset"] != "none" and r.random() < 0.06:
            d["reg"] = "or_reset"
        on_targets = {t for fn in d["onreset"] for t, _ in fn}
        # readable objects: a `clean` design reads only objects that reset returns to their power-up value
        clean = r.random() < 0.6
        planned_F = [i for i in own if d["objs"][i]["default"] is not None and not d["objs"][i]["noreset"] and i not in on_targets]
        readable = planned_F if clean else list(range(n))
        # body: every own object that is not an on_reset-only target gets at least one write
        must = [i for i in own if not (i in on_targets and r.random() < 0.3)]
        r.shuffle(must)
        stmts = [self.write(d, i, readable) for i in must]
        for _ in range(r.randint(0, 3)):
            if own:
                stmts.append(self.write(d, r.choice(own), readable))
        r.shuffle(stmts)
        # pushed objects must be assigned in `push` mode only; wrap some statements into conditionals
        body = []
        i = 0
        while i < len(stmts):
            if r.random() < 0.35:
                k = r.randint(1, 2)
                els = [self.write(d, r.choice(own), readable)] if own and r.random() < 0.3 else []
                body.append(["if", self.cond(d, readable), stmts[i:i + k], els])
                i += k
            else:
                body.append(stmts[i])
                i += 1
        # local objects: declared first, read later
        if r.random() < 0.25:
            li = len(d["objs"])
            lty = r.choice(["bit", "u2"])
            d["objs"].append({"name": f"loc{li}", "cls": r.choice(["lsig", "lvar"]), "ty": lty, "default": None, "noreset": False, "pushed": False})
            tmp = dict(d)
            init = self.rhs(d, li, readable)
            body.insert(0, ["local", li, init])
            tg = [i for i in own if d["objs"][i]["ty"] == lty and not (d["objs"][i]["ty"] == "arr")]
            if tg and (not clean):
                body.append(["set", r.choice(tg), ["o", li]])
        if d["coro"]:
            na = r.randint(1, 3) if r.random() < 0.85 else 0
            for _ in range(na):
                pos = r.randint(0 if r.random() < 0.3 else 1, len(body)) if body else 0
                body.insert(pos, ["await", self.cond(d, readable)])
            # the declaration of a local object must stay the first statement
            for k, s in enumerate(body):
                if s[0] == "local" and k != 0:
                    body.insert(0, body.pop(k))
        d["body"] = body
        d["clean"] = clean
        # where the clock / reset / step condition come from: ports of their own, or bits of ONE control bus
        # (a vector port, or a local signal copied from it), in any combination
        d["edge"] = r.choice(["rising"] * 6 + ["falling", "falling", "both"])
        d["ctl"] = None
        if r.random() < 0.4:
            w = r.randint(3, 4)
            idx = list(range(w))
            r.shuffle(idx)
            ctl = {"vec": r.choice(["port", "port", "sig"]), "w": w, "clk": None, "rst": None, "en": None, "spare": None}
            names = [n for n in ("clk", "rst", "en") if r.random() < 0.75] or ["rst"]
            if r.random() < 0.5:
                names = ["clk", "rst", "en"]
            for n in names:
                ctl[n] = idx.pop()
            ctl["spare"] = idx.pop() if idx else None
            d["ctl"] = ctl
        return d


def systematic_designs():
    """a fixed family: every wrapper x polarity x step condition x coroutine x registration form around a
    context with one object of every reset class"""
    out = []
    for reset in ("sync", "async"):
        for low in (False, True):
            for stepcond in (False, True):
                for coro in (False, True):
                    for reg in ("call", "ctor", "seq", "with_params", "or_reset"):
                        if reg not in ("call", "or_reset") and (low or stepcond):
                            continue
                        if reg == "or_reset" and low != stepcond:
                            continue
                        objs = [
                            {"name": "o", "cls": "port", "ty": "u2", "default": 3, "noreset": False, "pushed": False},       # 0 reset
                            {"name": "p", "cls": "port", "ty": "bit", "default": 0, "noreset": False, "pushed": True},       # 1 pushed
                            {"name": "q", "cls": "port", "ty": "u2", "default": None, "noreset": False, "pushed": False},    # 2 no default
                            {"name": "keep", "cls": "sig", "ty": "u2", "default": 1, "noreset": True, "pushed": False, "nr_form": 0},  # 3
                            {"name": "v", "cls": "var", "ty": "u2", "default": 2, "noreset": False, "pushed": False},        # 4 variable
                            {"name": "extra", "cls": "sig", "ty": "bit", "default": 0, "noreset": False, "pushed": False},   # 5 on_reset
                            {"name": "cnt", "cls": "sig", "ty": "u2", "default": 0, "noreset": True, "pushed": False, "nr_form": 1},   # 6
                            {"name": "sl", "cls": "sig", "ty": "bv2", "default": 2, "noreset": False, "pushed": False},      # 7 slice
                            {"name": "np", "cls": "sig", "ty": "bit", "default": 1, "noreset": True, "pushed": True, "nr_form": 0},   # 8 noreset + pushed
                            {"name": "nv", "cls": "var", "ty": "bit", "default": 1, "noreset": True, "pushed": False, "nr_form": 0},  # 9 NoresetVariable
                        ]
                        body = [["set", 1, ["in", "a"]], ["set", 4, ["inc", 4]], ["set", 3, ["o", 4]], ["setbit", 7, 0, ["in", "b"]],
                                ["if", ["b", ["in", "a"]], [["set", 8, ["c", 0]]], []], ["set", 9, ["in", "b"]]]
                        if coro:
                            body += [["await", ["b", ["in", "a"]]]]
                        body += [["set", 0, ["o", 4]], ["set", 2, ["o", 3]], ["set", 5, ["c", 0]]]
                        if coro:
                            body += [["await", ["b", ["in", "b"]]], ["set", 2, ["k", 1]]]
                        out.append({"reset": reset, "low": low, "stepcond": stepcond, "coro": coro, "reg": reg, "objs": objs,
                                    "body": body, "onreset": [[[5, ["c", 1]], [6, ["p", 6]]], [[2, ["o", 4]]]], "ext": None, "clean": False})
    # control-bus family: clock, reset and step condition are bits of ONE vector (port / local signal), every wrapper,
    # both polarities, every clock edge; also only the reset / only the clock on the bus
    for reset in ("sync", "async"):
        for low in (False, True):
            for vec in ("port", "sig"):
                for edge in ("rising", "falling", "both"):
                    for which in (("clk", "rst", "en"), ("rst",), ("clk", "rst")):
                        if which != ("clk", "rst", "en") and (edge != "rising" or vec == "sig"):
                            continue
                        ctl = {"vec": vec, "w": 4, "clk": None, "rst": None, "en": None, "spare": 3}
                        for k, n in enumerate(which):
                            ctl[n] = (k + (1 if low else 0)) % 3
                        objs = [
                            {"name": "o", "cls": "port", "ty": "u2", "default": 3, "noreset": False, "pushed": False},
                            {"name": "keep", "cls": "sig", "ty": "u2", "default": 1, "noreset": True, "pushed": False, "nr_form": 1},
                            {"name": "v", "cls": "var", "ty": "u2", "default": 2, "noreset": False, "pushed": False},
                            {"name": "cnt", "cls": "sig", "ty": "u2", "default": 0, "noreset": True, "pushed": False, "nr_form": 0},
                            {"name": "np", "cls": "port", "ty": "bit", "default": 0, "noreset": True, "pushed": True},
                        ]
                        body = [["set", 2, ["inc", 2]], ["set", 1, ["o", 2]], ["set", 0, ["inc", 0]], ["if", ["b", ["in", "a"]], [["set", 4, ["c", 1]]], []]]
                        out.append({"reset": reset, "low": low, "stepcond": True, "coro": False, "reg": "call", "objs": objs, "body": body,
                                    "onreset": [[[3, ["p", 3]]]], "ext": None, "clean": False, "ctl": ctl, "edge": edge})
    # aggregate family: noreset / ordinary std.Record objects (signal and variable, one member in a nested record)
    for reset in ("sync", "async"):
        for low in (False, True):
            for gcls in ("sig", "var"):
                for coro in (False, True):
                    def mem(name, ty, dflt, grp, path, nr):
                        return {"name": name, "cls": gcls, "ty": ty, "default": dflt, "noreset": nr, "pushed": False, "agg": {"grp": grp, "path": path}}
                    objs = [mem("k0", "u2", 1, "r0", "f0", True), mem("k1", "bit", 1, "r0", "f1", True), mem("k2", "u2", 2, "r0", "n.g0", True),
                            mem("m0", "u2", 3, "r1", "f0", False), mem("m1", "bit", 0, "r1", "n.g0", False),
                            {"name": "o", "cls": "port", "ty": "u2", "default": 0, "noreset": False, "pushed": False}]
                    body = [["set", 0, ["inc", 0]], ["set", 1, ["in", "a"]], ["set", 2, ["o", 0]], ["set", 3, ["inc", 3]], ["set", 4, ["in", "b"]]]
                    if coro:
                        body.append(["await", ["b", ["in", "a"]]])
                    body.append(["set", 5, ["o", 2]])
                    out.append({"reset": reset, "low": low, "stepcond": False, "coro": coro, "reg": "call", "objs": objs, "body": body,
                                "onreset": [], "ext": None, "clean": False})
    # a clean companion (everything resettable): THE PROPERTY applies to all of its objects
    for reset in ("sync", "async"):
        for low in (False, True):
            for coro in (False, True):
                objs = [
                    {"name": "o", "cls": "port", "ty": "u2", "default": 3, "noreset": False, "pushed": False},
                    {"name": "p", "cls": "port", "ty": "bit", "default": 0, "noreset": False, "pushed": True},
                    {"name": "v", "cls": "var", "ty": "u2", "default": 2, "noreset": False, "pushed": False},
                    {"name": "sl", "cls": "sig", "ty": "bv2", "default": 2, "noreset": False, "pushed": False},
                    {"name": "ar", "cls": "sig", "ty": "arr", "default": 1, "noreset": False, "pushed": False},
                ]
                body = [["set", 1, ["in", "a"]], ["set", 2, ["inc", 2]], ["setbit", 3, 0, ["ob", 0, 1]], ["setbit", 4, 1, ["in", "b"]]]
                if coro:
                    body += [["await", ["b", ["in", "a"]]]]
                body += [["if", ["b", ["ob", 3, 0]], [["set", 0, ["o", 2]]], [["set", 0, ["inc", 0]]]]]
                if coro:
                    body += [["await", ["eq", 2, 1]], ["set", 0, ["k", 0]]]
                out.append({"reset": reset, "low": low, "stepcond": True, "coro": coro, "reg": "call", "objs": objs, "body": body,
                            "onreset": [], "ext": None, "clean": True})
    return out


# ---------------------------------------------------------------------------------------------------
# simulation + comparison with the model (runs inside a worker)
# ---------------------------------------------------------------------------------------------------

_TEMP = re.compile(r"(^|\.)temp\d*$")


_SLV = {"0": "0", "1": "1"}


def enc(v):
    """canonical value of a storage: a natural number, '-' when completely undefined"""
    if isinstance(v, SL):
        return _SLV.get(v.v, "-")
    if isinstance(v, Vec):
        bits = v.bits
        try:
            return str(int(bits, 2))
        except ValueError:
            pass
        if all(c not in "01" for c in bits):
            return "-"
        return str(1000 + sum((int(c) if c in "01" else 2) * 3 ** k for k, c in enumerate(reversed(bits))))
    if v == "-":
        return "-"
    if isinstance(v, bool):
        return str(int(v))
    if isinstance(v, int):
        return str(v)
    if isinstance(v, EnumV):
        return str(v.idx)
    if isinstance(v, Arr):
        es = [enc(x) for x in v.elems]
        if all(e == "-" for e in es):
            return "-"
        if all(e in ("0", "1") for e in es):
            return str(sum(int(e) << k for k, e in enumerate(es)))
        return str(1000 + sum((int(e) if e in ("0", "1") else 2) * 3 ** k for k, e in enumerate(es)))
    raise AssertionError(repr(v))


class PDesign(Design):
    """vhdl_sim.Design with (a) element-precise sensitivity lists: a process with the sensitivity list
    `(ctrl(0), ctrl(1))` is resumed only when the VALUE of one of the named elements changes (vhdl_sim resolves an
    indexed name to the whole storage, which would hide a missing `ctrl(1)`), (b) rising_edge / falling_edge applied
    to an indexed name (see SHARED-CHANGE-REQUEST in notes/C04.md)."""

    def _sens_vals(self, pr):
        return [self._eval(n, pr.scope, None) for n in pr.sens]

    def refresh_sens(self):
        self._sens_prev = {pr.pid: self._sens_vals(pr) for pr in self.procs if self.static_sens.get(pr.pid) is not None}

    def initialise(self):
        self._sens_prev = None
        super().initialise()
        self.refresh_sens()

    def settle(self, max_deltas=1000):
        if not self._initialised or self._sens_prev is None:
            return super().settle(max_deltas)
        n = 0
        while self.events:
            n += 1
            if n > max_deltas:
                raise VhdlRuntimeError("delta cycle limit exceeded (combinational loop)")
            pending_all = []
            for pr in self.procs:
                sens = self.static_sens[pr.pid]
                if sens is None:
                    if self.dyn_sens.get(pr.pid, set()) & self.events:
                        pending_all.append((pr, self._run_proc(pr)))
                elif sens & self.events:
                    cur = self._sens_vals(pr)
                    prev = self._sens_prev[pr.pid]
                    self._sens_prev[pr.pid] = cur
                    if any(not _same_val(x, y) for x, y in zip(cur, prev)):
                        pending_all.append((pr, self._run_proc(pr)))
            self._apply(pending_all)

    def _call(self, fname, args, scope, pr):
        f = fname.lower()
        if f in ("rising_edge", "falling_edge") and scope.lookup(fname) is None and len(args) == 1 and args[0][0] != "name":
            node = args[0]
            base = node
            while base[0] != "name":
                base = base[1] if base[0] != "call" else ("name", base[1])
            rb = scope.lookup(base[1])
            if rb is None or not hasattr(rb, "st") or not rb.st.is_signal:
                raise VhdlTypeError(f"{f} applied to a non-signal")
            self._note_read(rb, pr)
            if id(rb.st) not in self.events or id(rb.st) not in self.last_values:
                return False
            cur = self._eval(node, scope, pr)
            saved = rb.st.val
            rb.st.val = self.last_values[id(rb.st)]
            try:
                last = self._eval(node, scope, None)
            finally:
                rb.st.val = saved
            if not isinstance(cur, SL) or not isinstance(last, SL):
                raise VhdlTypeError(f"{f} applied to a non std_logic element")
            return (cur.v, last.v) == (("1", "0") if f == "rising_edge" else ("0", "1"))
        return super()._call(fname, args, scope, pr)


def _same_val(a, b):
    if isinstance(a, Vec) and isinstance(b, Vec):
        return a.bits == b.bits
    return a == b


class Sim:
    """the emitted design with snapshot / restore and the event-level view the model has"""

    def __init__(self, d, vhdl):
        self.d = d
        self.des = PDesign(vhdl)
        des = self.des
        self.inactive = 1 if d["low"] else 0
        self.ctl = d.get("ctl") or {}
        self.edge = d.get("edge", "rising")
        for p in ("clk", "rst", "en", "a", "b"):
            des.set(p, 0)
        if self.ctl.get("vec"):
            des.set("ctrl", 0)
        self.set_ctl("rst", self.inactive)
        des.initialise()
        by = {st.name.lower(): st for st in des.storages}
        self.obj_st = []
        for o in d["objs"]:
            n = o["name"].lower()
            cands = {"port": [f"buffer_{n}", n], "sig": [n], "lsig": [n], "var": [f"proc.{n}"], "lvar": [f"proc.{n}"]}[o["cls"]]
            st = next((by[c] for c in cands if c in by), None)
            if st is None:
                # the object does not occur in the emitted design at all (nothing refers to it, e.g. because the only
                # code that does was dropped): it holds its initial value for ever
                st = Storage("<absent>" + n, None, "-" if o["default"] is None else int(o["default"]), is_signal=False, port_dir="absent")
            self.obj_st.append(st)
        d["_statereg"] = "s_proc" in by
        if d["_statereg"]:
            self.obj_st.append(by["s_proc"])
        self.keyed = [st for st in des.storages if st.port_dir != "in" and not _TEMP.search(st.name) and st.name.lower() != "cs"]
        self.absent = [o["name"] for o, st in zip(d["objs"], self.obj_st) if st.port_dir == "absent"]
        self.power_up = self.snap()

    def snap(self):
        return [st.val for st in self.des.storages]

    def restore(self, snap):
        for st, v in zip(self.des.storages, snap):
            st.val = v
        self.des.events = set()
        self.des.refresh_sens()

    def in_vec(self, name):
        return bool(self.ctl.get("vec")) and self.ctl.get(name) is not None

    def set_ctl(self, name, v):
        """drive the clock / reset / step-condition signal wherever it lives"""
        des = self.des
        if self.in_vec(name):
            cur = des.get("ctrl") or 0
            k = self.ctl[name]
            des.set("ctrl", (cur & ~(1 << k)) | (int(v) << k))
        else:
            des.set(name, v)

    def get_ctl(self, name):
        if self.in_vec(name):
            return ((self.des.get("ctrl") or 0) >> self.ctl[name]) & 1
        return self.des.get(name)

    def key(self):
        return (self.rst_level(), tuple(repr(st.val) for st in self.keyed))

    def vals(self):
        return tuple(enc(st.val) for st in self.obj_st)

    def rst_level(self):
        return self.get_ctl("rst")

    def act(self, a):
        """one low-level action; returns the model event it is (or None when no process can be activated)"""
        des = self.des
        if a[0] == "in":
            for k, v in a[1].items():
                if k == "en":
                    self.set_ctl("en", v)
                elif k == "spare":
                    # a bit of the control bus nothing listens to
                    if self.in_vec("spare"):
                        self.set_ctl("spare", v)
                else:
                    des.set(k, v)
            des.settle()
            return None
        if a[0] == "rst":
            if self.rst_level() == a[1]:
                return None
            self.set_ctl("rst", a[1])
            des.settle()
            return self.event(0)
        if a[0] == "clk":
            self.set_ctl("clk", a[1])
            des.settle()
            active = {"rising": a[1] == 1, "falling": a[1] == 0, "both": True}[self.edge]
            return self.event(1 if active else 0)
        raise AssertionError(a)

    def event(self, edge):
        des = self.des
        en = self.get_ctl("en") if self.d["stepcond"] else 1
        return (edge, self.rst_level(), en, des.get("a"), des.get("b"))


def sens_text(n):
    """canonical text of one entry of a printed sensitivity list"""
    if n[0] == "name":
        return n[1].lower()
    if n[0] == "call":
        return f"{n[1].lower()}({','.join(sens_text(x) for x in n[2])})"
    if n[0] in ("int", "num", "lit"):
        return str(n[1])
    return repr(n)


def vhdl_name(d, name):
    ctl = d.get("ctl") or {}
    if ctl.get("vec") and ctl.get(name) is not None:
        return f"{'ctrl' if ctl['vec'] == 'port' else 'cs'}({ctl[name]})"
    return name


def check_sensitivity(d, sim):
    """a VHDL process is resumed only by events on the signals of its sensitivity list: the clock and - for an
    asynchronous reset, which must act at any instant - the reset signal have to be named there"""
    if d["reg"] == "or_reset" and d["reset"] != "none":
        return None   # the reset signal of a derived context is an internal signal
    pr = next((p for p in sim.des.procs if (p.label or "").lower() == "proc"), None)
    if pr is None or pr.kind != "process" or getattr(pr, "sens_all", False):
        return None
    printed = sorted(sens_text(n) for n in pr.sens)
    need = [vhdl_name(d, "clk")] + ([vhdl_name(d, "rst")] if d["reset"] == "async" else [])
    missing = [n for n in need if n not in printed]
    if not missing:
        return None
    what = "async-reset" if missing[-1] == vhdl_name(d, "rst") and d["reset"] == "async" else "clock"
    return {"check": "static", "kind": f"{what}-missing-in-sensitivity-list", "objclass": "process", "object": -1, "object_name": "proc",
            "expected": sorted(need), "observed": printed, "pre": [], "event": [], "model": "-", "actions": []}


def cycle_actions(a, b, en, rst):
    return [("in", {"a": a, "b": b, "en": en}), ("rst", rst), ("clk", 1), ("clk", 0)]


def step_request(d, objs_t, writes_t, pre, ev):
    edge, rst, en, a, b = ev
    return " ".join(["step", d["reset"], str(int(d["low"]))] + counted(objs_t) + counted(writes_t) + list(pre)
                    + [str(edge), str(rst), str(en), "2", str(a), str(b)])


def classify(d, i, exp, obs, pre, R, on_targets):
    """deviation class of object i (stable part of the violation signature)"""
    n = len(d["objs"])
    if i >= n:
        return "state-register-not-first-state", "state"
    o = d["objs"][i]
    cls = {"port": "port", "sig": "signal", "var": "variable", "lsig": "local-signal", "lvar": "local-variable"}[o["cls"]]
    if i in on_targets:
        without = ("-" if o["default"] is None else str(o["default"])) if i in R else pre[i]
        return ("on_reset-action-not-effective" if obs == without else "on_reset-target-holds-wrong-value"), cls
    if i in R:
        return "default-not-taken", cls
    if o["default"] is not None and obs == str(o["default"]) and o["noreset"]:
        return "noreset-object-reset", cls
    return "exempt-object-changed-during-reset", cls


def explore(job):
    """job = (descriptor, vhdl, params) -> result dict (see bottom)"""
    d, vhdl, P = job
    rng = random.Random(P["seed"])
    d = dict(d)
    d.pop("_statereg", None)
    sim = Sim(d, vhdl)
    objs_t, writes_t = model_objs(d), model_writes(d)
    written, reads, on_targets = facts(d)
    info = lean_io.query("C04", [" ".join(["info"] + counted(objs_t) + counted(writes_t) + counted([str(x) for x in sorted(reads)]))])[0]
    t = [x for x in info.split(" ") if x]
    if t[:1] != ["R"] or "F" not in t or t[-2:-1] != ["closed"]:
        return {"infra": f"model answered `{info}` to info"}
    R = {int(x) for x in t[1:t.index("F")]}
    F = sorted(int(x) for x in t[t.index("F") + 1:-2])
    closed = t[-1] == "1"
    inact, act_l = sim.inactive, 1 - sim.inactive
    ens = (0, 1) if d["stepcond"] else (1,)
    rsts = (inact, act_l) if d["reset"] != "none" else (inact,)
    combos = [(a, b, en, rst) for rst in rsts for en in ens for a in (0, 1) for b in (0, 1)]
    data_combos = [(a, b, en) for en in ens for a in (0, 1) for b in (0, 1)]

    # ---- (0) the printed sensitivity list names the clock and, for asynchronous resets, the reset signal
    static_dev = check_sensitivity(d, sim)

    # ---- (1) reachable state space, breadth first; every activation recorded
    records = {}   # (pre, ev) -> (post, locator)
    nondet = []
    states = [sim.power_up]
    parent = [None]   # (parent id, actions)
    seen = {}
    sim.restore(sim.power_up)
    seen[sim.key()] = 0
    ext = d.get("ext")
    n_events = 0
    silent_dev = []

    def run_actions(sid, actions, tag):
        """from the current simulator state; records every activation, checks input changes activate nothing"""
        nonlocal n_events
        post = sim.vals()
        for k, a in enumerate(actions):
            pre = post
            ev = sim.act(a)
            post = sim.vals()
            if ev is None:
                if post != pre and len(silent_dev) < 3:
                    silent_dev.append((sid, tag, k, pre, post))
                continue
            n_events += 1
            kk = (pre, ev)
            old = records.get(kk)
            if old is None:
                records[kk] = (post, (sid, tag, k))
            elif old[0] != post and len(nondet) < 50:
                nondet.append((kk, post, (sid, tag, k)))

    capped = False
    qi = 0
    scen = {}   # tag -> actions (for replays)
    while qi < len(states):
        snap = states[qi]
        sid = qi
        qi += 1
        sim.restore(snap)
        rst_now = sim.rst_level()
        for c in combos:
            sim.restore(snap)
            acts = cycle_actions(*c)
            tag = ("cycle", c)
            scen[tag] = acts
            run_actions(sid, acts, tag)
            k = sim.key()
            if k not in seen:
                if len(states) >= P["max_states"]:
                    capped = True
                else:
                    seen[k] = len(states)
                    states.append(sim.snap())
                    parent.append((sid, acts))
        if d["reset"] != "none" and rst_now == inact:
            # reset asserted BETWEEN clock edges (while the clock is high) and released again before the next edge;
            # for synchronous resets this must change nothing, for asynchronous ones it resets immediately
            for (a, b, en) in (data_combos if d["reset"] == "async" else data_combos[-1:]):
                sim.restore(snap)
                acts = [("in", {"a": a, "b": b, "en": en}), ("clk", 1), ("rst", act_l), ("in", {"a": 1 - a, "b": b, "en": en}),
                        ("clk", 0), ("rst", inact)]
                tag = ("mid", (a, b, en))
                scen[tag] = acts
                run_actions(sid, acts, tag)
                k = sim.key()
                if k not in seen and len(states) < P["max_states"]:
                    seen[k] = len(states)
                    states.append(sim.snap())
                    parent.append((sid, acts))
            # reset pulse while the clock is low, no clock event at all
            sim.restore(snap)
            acts = [("in", {"a": 1, "b": 0, "en": ens[-1]}), ("in", {"spare": 1}), ("rst", act_l), ("in", {"spare": 0}), ("rst", inact)]
            tag = ("pulse", ())
            scen[tag] = acts
            run_actions(sid, acts, tag)
            k = sim.key()
            if k not in seen and len(states) < P["max_states"]:
                seen[k] = len(states)
                states.append(sim.snap())
                parent.append((sid, acts))

    def prefix(sid):
        out = []
        while parent[sid] is not None:
            p, acts = parent[sid]
            out = list(acts) + out
            sid = p
        return out

    # ---- compare with the model
    keys = list(records)
    answers = lean_io.query("C04", [step_request(d, objs_t, writes_t, pre, ev) for pre, ev in keys])
    deviations = []
    n_reset = n_hold = n_body = 0
    dev_classes = set()
    for (pre, ev), ans in zip(keys, answers):
        post, loc = records[(pre, ev)]
        f = ans.split(" ")
        if f[0] == "body":
            n_body += 1
            continue
        if f[0] not in ("reset", "hold") or len(f) != 1 + len(pre):
            return {"infra": f"model answered `{ans}`"}
        if f[0] == "reset":
            n_reset += 1
        else:
            n_hold += 1
        for i, (e, o) in enumerate(zip(f[1:], post)):
            if i == ext:
                continue   # driven by the other context
            if e != o:
                if f[0] == "reset" and ev[0] == 0 and tuple(post) == tuple(pre):
                    # an activation without clock edge (change of the reset / inactive clock edge) in which the reset is
                    # active changed nothing at all: the process was not resumed
                    kind, cls = "reset-without-clock-edge-has-no-effect", "any"
                elif f[0] == "reset":
                    kind, cls = classify(d, i, e, o, pre, R, on_targets)
                else:
                    kind, cls = "object-changed-without-activation-of-the-body", "any"
                if (kind, cls) in dev_classes:
                    continue
                dev_classes.add((kind, cls))
                sid, tag, k = loc
                deviations.append({"check": "activation", "kind": kind, "objclass": cls, "object": i,
                                   "object_name": d["objs"][i]["name"] if i < len(d["objs"]) else "s_proc",
                                   "expected": e, "observed": o, "pre": list(pre), "event": list(ev), "model": f[0],
                                   "actions": prefix(sid) + list(scen[tag][: k + 1])})
    if static_dev:
        deviations.append(static_dev)
    for (sid, tag, k, pre, post) in silent_dev[:1]:
        deviations.append({"check": "activation", "kind": "object-changed-without-process-activation", "objclass": "any", "object": -1,
                           "object_name": "?", "expected": list(pre), "observed": list(post), "pre": list(pre), "event": [], "model": "hold",
                           "actions": prefix(sid) + list(scen[tag][: k + 1])})
    for (kk, post, loc) in nondet:
        # the same (objects, event) gave two different results: only relevant when the model forbids the body to run
        ans = lean_io.query("C04", [step_request(d, objs_t, writes_t, kk[0], kk[1])])[0]
        if not ans.startswith("body"):
            sid, tag, k = loc
            exp = ans.split(" ")[1:]
            diff = [i for i, (e, o) in enumerate(zip(exp, post)) if e != o and i != ext]
            if diff and ("nondet", "any") not in dev_classes:
                dev_classes.add(("nondet", "any"))
                i = diff[0]
                kind, cls = classify(d, i, exp[i], post[i], kk[0], R, on_targets) if ans.startswith("reset") else ("object-changed-without-activation-of-the-body", "any")
                deviations.append({"check": "activation", "kind": kind, "objclass": cls, "object": i,
                                   "object_name": d["objs"][i]["name"] if i < len(d["objs"]) else "s_proc",
                                   "expected": exp[i], "observed": post[i], "pre": list(kk[0]), "event": list(kk[1]), "model": ans.split(" ")[0],
                                   "actions": prefix(sid) + list(scen[tag][: k + 1])})

    # ---- (2) THE PROPERTY: after reset is released the context behaves as after power-up
    n_release = n_distinct_T = n_trace_clocks = 0
    if P.get("only_traces"):
        deviations = []   # self-test of part (2): ignore what part (1) found
    if d["reset"] != "none" and closed and F and not deviations:
        seqs = []
        for _ in range(P["n_seq"]):
            seqs.append([(rng.randrange(2), rng.randrange(2), rng.choice(ens) if rng.random() < 0.3 else 1,
                          act_l if rng.random() < 0.08 else inact) for _ in range(P["seq_len"])])
        seqs += [[c1, c2] for c1 in [(a, b, 1, inact) for a in (0, 1) for b in (0, 1)] for c2 in [(a, b, 1, inact) for a in (0, 1) for b in (0, 1)]]

        def obs():
            v = sim.vals()
            return tuple(v[i] for i in F)

        def trace(seq):
            out = []
            for c in seq:
                for a in cycle_actions(*c):
                    sim.act(a)
                out.append(obs())
            return out

        ref = []
        for seq in seqs:
            sim.restore(sim.power_up)
            ref.append(trace(seq))
        done = set()
        stop = False
        for sid, snap in enumerate(states):
            if stop:
                break
            for dur in (1, 2, 3):
                variants = data_combos if dur == 1 else [rng.choice(data_combos) for _ in range(2)]
                for first in variants:
                    sim.restore(snap)
                    rc = [first] + [rng.choice(data_combos) for _ in range(dur - 1)]
                    racts = []
                    for (a, b, en) in rc:
                        racts += cycle_actions(a, b, en, act_l)
                    for a in racts:
                        sim.act(a)
                    n_release += 1
                    k = sim.key()
                    if k in done:
                        continue
                    done.add(k)
                    n_distinct_T += 1
                    T = sim.snap()
                    for seq, rtr in zip(seqs, ref):
                        sim.restore(T)
                        tr = trace(seq)
                        n_trace_clocks += len(seq)
                        if tr != rtr:
                            j = next(j for j, (x, y) in enumerate(zip(tr, rtr)) if x != y)
                            oi = next(F[q] for q in range(len(F)) if tr[j][q] != rtr[j][q])
                            later = [list(c) for c in seq[: j + 1]]
                            deviations.append({"check": "after-release", "kind": "behaviour-after-reset-differs-from-power-up",
                                               "objclass": "state" if oi >= len(d["objs"]) else d["objs"][oi]["cls"], "object": oi,
                                               "object_name": d["objs"][oi]["name"] if oi < len(d["objs"]) else "s_proc",
                                               "expected": list(rtr[j]), "observed": list(tr[j]), "footprint": F,
                                               "actions": prefix(sid) + racts, "reset_clocks": dur, "later": later})
                            stop = True
                            break
                    if stop:
                        break
                if stop:
                    break
    return {"states": len(states), "capped": capped, "events": n_events, "reset": n_reset, "hold": n_hold, "body": n_body,
            "R": sorted(R), "F": F, "closed": closed, "releases": n_release, "distinct_T": n_distinct_T, "trace_clocks": n_trace_clocks,
            "deviations": deviations}


# ---------------------------------------------------------------------------------------------------
# workers
# ---------------------------------------------------------------------------------------------------


def explore_task(job):
    return explore(job)


def signature(d, dev):
    reg = d["reg"] if (d["onreset"] and d["reset"] != "none") else "-"
    if dev["kind"].startswith("on_reset-"):
        return f"{dev['kind']}:registered-by={reg}"
    return f"{dev['kind']}:{d['reset']}:{dev['objclass']}" + (":context-derived-by-or_reset" if d["reg"] == "or_reset" and d["reset"] != "none" else "")


def compile_here(d):
    import_cohdl()
    from cohdl import std

    mod = load_design_module(render(d), tag="c04")
    return std.VhdlCompiler.to_string(mod.E)


def same_failure(d, sig, P):
    try:
        vhdl = compile_here(d)
        res = explore((d, vhdl, P))
    except BaseException:  # noqa
        return None
    for dev in res.get("deviations", []):
        if signature(d, dev) == sig:
            return dev
    return None


def drop_object(d, i):
    """remove object i when nothing refers to it; returns the re-indexed descriptor or None"""
    import json

    if re.search(rf'\[(?:"set"|"setbit"|"local"|"o"|"ob"|"inc"|"eq"|"bool"), {i}[,\]]', json.dumps(d["body"])):
        return None
    if any(t == i or (e[0] in ("o", "p") and e[1] == i) for fn in d["onreset"] for t, e in fn):
        return None
    if d.get("ext") == i:
        return None

    def fix(x):
        if isinstance(x, list):
            if x and isinstance(x[0], str) and x[0] in ("set", "setbit", "local", "o", "ob", "inc", "eq", "bool") and isinstance(x[1], int):
                return [x[0], x[1] - (1 if x[1] > i else 0)] + [fix(y) for y in x[2:]]
            return [fix(y) for y in x]
        return x

    nd = json.loads(json.dumps(d))
    nd["objs"] = [o for k, o in enumerate(d["objs"]) if k != i]
    nd["body"] = fix(d["body"])
    nd["onreset"] = [[[t - (1 if t > i else 0), ([e[0], e[1] - (1 if e[1] > i else 0)] if e[0] in ("o", "p") else e)] for t, e in fn] for fn in d["onreset"]]
    if nd.get("ext") is not None and nd["ext"] > i:
        nd["ext"] -= 1
    return nd


def minimise_task(job):
    """greedy reduction of a failing design: delete statements, on_reset writes, objects, options"""
    import json

    d, sig, P = job
    d = json.loads(json.dumps(d))
    best = same_failure(d, sig, P)
    if best is None:
        return None
    budget = 80
    changed = True
    while changed and budget > 0:
        changed = False
        cands = []
        for k in range(len(d["body"])):
            nd = json.loads(json.dumps(d))
            s = nd["body"][k]
            del nd["body"][k]
            cands.append(nd)
            if s[0] == "if":
                nd2 = json.loads(json.dumps(d))
                nd2["body"][k:k + 1] = s[2] + s[3]
                cands.append(nd2)
        for fi, fn in enumerate(d["onreset"]):
            for wi in range(len(fn)):
                nd = json.loads(json.dumps(d))
                del nd["onreset"][fi][wi]
                if not nd["onreset"][fi]:
                    del nd["onreset"][fi]
                cands.append(nd)
        for i in reversed(range(len(d["objs"]))):
            nd = drop_object(d, i)
            if nd is not None:
                cands.append(nd)
        for key, val in (("stepcond", False), ("low", False), ("ext", None)):
            if d.get(key) not in (val,):
                nd = json.loads(json.dumps(d))
                nd[key] = val
                cands.append(nd)
        if d["coro"] and n_awaits(d["body"]) == 0:
            nd = json.loads(json.dumps(d))
            nd["coro"] = False
            cands.append(nd)
        for nd in cands:
            if budget <= 0:
                break
            budget -= 1
            dev = same_failure(nd, sig, P)
            if dev is not None:
                d, best, changed = nd, dev, True
                break
    return {"design": d, "deviation": best, "source": render(d)}


# ---------------------------------------------------------------------------------------------------
# the check
# ---------------------------------------------------------------------------------------------------


def describe(d, dev):
    acts = dev["actions"]
    n_clk = sum(1 for a in acts if a[0] == "clk" and a[1] == 1)
    if dev["check"] == "static":
        return (f"{d['reset']} reset ({'active-low' if d['low'] else 'active-high'}), control signals {d.get('ctl')}: {dev['kind']} - the process is "
                f"sensitive to {dev['observed']} only, it must be resumed by events on {dev['expected']}")
    if dev["check"] == "after-release":
        return (f"{d['reset']} reset ({'active-low' if d['low'] else 'active-high'}), design minimised to {len(d['objs'])} objects: after {n_clk} clocks "
                f"(the last {dev['reset_clocks']} with reset asserted) and release of reset, the objects {dev['footprint']} show {dev['observed']} after "
                f"{len(dev['later'])} further clocks where the same inputs after power-up give {dev['expected']} (first differing object `{dev['object_name']}`)")
    return (f"{d['reset']} reset ({'active-low' if d['low'] else 'active-high'}), on_reset registered by `{d['reg']}`: {dev['kind']} - object `{dev['object_name']}` "
            f"({dev['objclass']}) holds {dev['observed']} after the activation (edge,rst,en,a,b)={dev['event']} where the reset semantics gives {dev['expected']} "
            f"(objects before: {dev['pre']}; reached after {n_clk} clocks from power-up)")


def run(ctx: Ctx):
    rng = ctx.rng
    ctx.rule = ("designs = one sequential context over 2-6 objects (output ports / signals / variables / local objects of type Bit, Unsigned[2], "
                "BitVector[2], bool, Array[Bit,2]; with/without default; noreset; pushed; written whole or through slices/elements; optionally "
                "only read / driven by another context), optional coroutine with 1-3 awaits, 0-2 on_reset actions registered by @ctx(on_reset=..), "
                "SequentialContext(on_reset=..), std.sequential(.., on_reset=..) or with_params; sync/async reset, both polarities, optional step "
                "condition; a fixed systematic family + random designs.  One evaluation = one process activation of the emitted VHDL compared "
                "with Lean `stepR`, or one post-release trace compared with the power-up trace.  distinct non-trivial = distinct (design, "
                "objects-before, event) triples in which the model forbids the body to run (reset branch / nothing executes) plus distinct "
                "post-reset states whose later traces were compared")
    n_random = ctx.scale(120, 1500)
    P = {"max_states": ctx.scale(100, 600), "n_seq": ctx.scale(4, 10), "seq_len": ctx.scale(5, 8), "seed": ctx.seed}
    P_min = {"max_states": 40, "n_seq": 3, "seq_len": 5, "seed": ctx.seed}
    g = Gen(rng)
    designs = systematic_designs() + [g.design() for _ in range(n_random)]
    # a push target without default has no value `reset_pushed()` / `reset_context()` could give it: must be rejected
    neg = []
    for cls in ("port", "sig"):
        for ty in ("bit", "u2"):
            neg.append({"reset": "sync", "low": False, "stepcond": False, "coro": False, "reg": "call", "ext": None, "onreset": [], "clean": False,
                        "objs": [{"name": "x0", "cls": cls, "ty": ty, "default": None, "noreset": False, "pushed": True}],
                        "body": [["set", 0, ["in", "a"] if ty == "bit" else ["k", 1]]]})
    compiled = compile_many([(render(d), "E") for d in designs + neg])
    for d, c in zip(neg, compiled[len(designs):]):
        ctx.case(key=("neg", d["objs"][0]["cls"], d["objs"][0]["ty"]), kind="pushed-without-default")
        if c["ok"]:
            ctx.report(f"pushed-target-without-default-accepted:{d['objs'][0]['cls']}",
                       "a signal without default is accepted as target of a push assignment (there is no value reset could give it)",
                       {"design": d, "source": render(d), "deviation": {"check": "static", "kind": "accepted", "expected": [], "observed": [], "actions": []}, "params": {}})
    compiled = compiled[: len(designs)]
    jobs, meta = [], []
    rejected = 0
    for d, c in zip(designs, compiled):
        if not c["ok"]:
            rejected += 1
            ctx.dist["rejected:" + c["errtype"]] += 1
            if len(ctx.notes) < 5:
                ctx.notes.append(f"design rejected by the compiler ({c['errtype']}: {c['err'][-160:]})")
            continue
        jobs.append((d, c["vhdl"], P))
        meta.append(d)
    results = fork_map(explore_task, jobs, fresh=False, chunk=4)
    n_dev_designs = 0
    infra = []
    to_min = {}
    tot = {"events": 0, "reset": 0, "hold": 0, "body": 0, "releases": 0, "distinct_T": 0, "trace_clocks": 0, "states": 0, "capped": 0, "closed": 0}
    for d, r in zip(meta, results):
        if r[0] != "ok":
            infra.append(r[1])
            continue
        r = r[1]
        if "infra" in r:
            infra.append(r["infra"])
            continue
        for k in tot:
            tot[k] += int(r[k])
        kind = f"{d['reset']}:{'low' if d['low'] else 'high'}:{'coro' if d['coro'] else 'fn'}:{'en' if d['stepcond'] else 'noen'}"
        ctx.evaluations += r["reset"] + r["hold"] + r["distinct_T"] * (P["n_seq"] + 16) - 1
        ctx.case(key=None, kind=kind, sample={"design": render(d).split("def architecture(self):")[1][:700], "states": r["states"], "resettable": r["R"],
                                              "footprint": r["F"], "activations_checked": r["reset"] + r["hold"], "post_reset_states_traced": r["distinct_T"]})
        ctx.extra.setdefault("nontrivial_triples", 0)
        ctx.extra["nontrivial_triples"] += r["reset"] + r["hold"] + r["distinct_T"]
        for o in d["objs"]:
            ctx.dist[f"obj:{o['cls']}:{o['ty']}:{'default' if o['default'] is not None else 'nodefault'}{':noreset' if o['noreset'] else ''}{':pushed' if o['pushed'] else ''}"] += 1
        ctx.dist[f"on_reset:{d['reg'] if d['onreset'] and d['reset'] != 'none' else 'none'}"] += 1
        if r["deviations"]:
            n_dev_designs += 1
            for dev in r["deviations"]:
                sig = signature(d, dev)
                # keep the smallest design per deviation class for minimisation
                size = len(d["objs"]) * 10 + len(str(d["body"]))
                if sig not in to_min or size < to_min[sig][0]:
                    to_min[sig] = (size, d, dev)
    if infra:
        from .common import InfraError

        raise InfraError("C04 worker failed: " + "; ".join(infra[:3]))
    # the distinct count: one per checked (design, objects-before, event) triple and per traced post-reset state
    ctx.distinct = set(range(ctx.extra.get("nontrivial_triples", 0)))
    # minimise (at most 8 deviation classes per run; the others are reported with the smallest design found)
    order = sorted(to_min.items())
    mins = fork_map(minimise_task, [(d, sig, P_min) for sig, (_, d, dev) in order[:8]], fresh=True, batch=1) if to_min else []
    mins += [("skipped", None)] * (len(order) - len(mins))
    for (sig, (_, d, dev)), mres in zip(order, mins):
        if mres[0] == "ok" and mres[1]:
            d, dev, src = mres[1]["design"], mres[1]["deviation"], mres[1]["source"]
        else:
            src = render(d)
        ctx.report(sig, describe(d, dev), {"design": d, "source": src, "deviation": dev, "params": P})
    ctx.extra.update({"designs": len(meta), "rejected_designs": rejected, **{f"total_{k}": v for k, v in tot.items()}})
    ctx.exhaustive = False
    ctx.notes.append(f"{len(meta)} designs simulated ({rejected} rejected by the compiler), {tot['states']} reachable states enumerated "
                     f"({tot['capped']} designs hit the state cap), {tot['reset']} distinct reset activations and {tot['hold']} distinct no-execution "
                     f"activations compared with the model, {tot['body']} body activations (not modelled), {tot['closed']} designs satisfy the hypothesis of "
                     f"C04.after_reset_eq_powerup: {tot['releases']} (state, reset duration) pairs released, {tot['distinct_T']} distinct post-reset states "
                     f"traced for {tot['trace_clocks']} clocks against the power-up trace")
    ctx.obligation("correspondence: every activation of the emitted designs in which the model forbids the body to run equals Lean C04.stepR "
                   "(defaults taken, exempt objects kept, on_reset ran, state register in first state, nothing else executed), from every reachable state",
                   not any(s.split(":")[0] != "behaviour-after-reset-differs-from-power-up" for s in to_min), detail=f"{tot['reset'] + tot['hold']} distinct activations, {n_dev_designs} designs with deviations")
    ctx.obligation("property: after release of a reset of 1..3 clocks from every reachable state the trace equals the power-up trace on the same later inputs "
                   "(designs satisfying AllStateResettable, on the model's footprint)",
                   not any(s.startswith("behaviour-after-reset") for s in to_min), detail=f"{tot['distinct_T']} distinct post-reset states, {tot['trace_clocks']} clocks")


def replay(ctx, data):
    r = data["replay"]
    d, dev, P = r["design"], r["deviation"], r["params"]
    c = compile_many([(render(d), "E")])[0]
    if not c["ok"]:
        print("design rejected:", c)
        return 1
    print(render(d))
    res = fork_map(_replay_task, [(d, c["vhdl"], dev)], fresh=False)[0]
    if res[0] != "ok":
        print(res)
        return 2
    for line in res[1]["log"]:
        print(line)
    return 1 if res[1]["fails"] else 0


def _replay_task(job):
    d, vhdl, dev = job
    d = dict(d)
    d.pop("_statereg", None)
    sim = Sim(d, vhdl)
    log = []
    acts = [tuple(a) if not isinstance(a, tuple) else a for a in dev["actions"]]
    objs_t, writes_t = model_objs(d), model_writes(d)
    names = [o["name"] for o in d["objs"]] + (["s_proc"] if has_state_reg(d) else [])
    log.append("objects: " + " ".join(names))
    last = None
    for a in acts:
        pre = sim.vals()
        ev = sim.act((a[0], a[1]))
        post = sim.vals()
        log.append(f"{a} -> {' '.join(post)}" + (f"   activation(edge,rst,en,a,b)={ev}" if ev else ""))
        if ev is not None:
            last = (pre, ev, post)
    if dev["check"] == "static":
        sd = check_sensitivity(d, sim)
        log.append(f"sensitivity list of the process: {sd['observed'] if sd else 'complete'}; required: {dev['expected']}")
        return {"log": log, "fails": sd is not None}
    if dev["check"] == "activation":
        if last is None:
            return {"log": log + ["no activation in the replay"], "fails": dev["kind"] == "object-changed-without-process-activation"}
        pre, ev, post = last
        ans = lean_io.query("C04", [step_request(d, objs_t, writes_t, pre, ev)])[0]
        log.append(f"model    : {ans}")
        log.append(f"observed : {' '.join(post)}")
        f = ans.split(" ")
        fails = f[0] != "body" and any(e != o for i, (e, o) in enumerate(zip(f[1:], post)) if i != d.get("ext"))
        return {"log": log, "fails": fails}
    F = dev["footprint"]
    T = sim.snap()
    out = []
    for start in (T, sim.power_up):
        sim.restore(start)
        tr = []
        for c in dev["later"]:
            for a in cycle_actions(*c):
                sim.act(a)
            v = sim.vals()
            tr.append([v[i] for i in F])
        out.append(tr)
    log.append(f"later inputs (a,b,en,rst): {dev['later']}")
    log.append(f"after reset : {out[0]}")
    log.append(f"after power-up: {out[1]}")
    return {"log": log, "fails": out[0] != out[1]}
