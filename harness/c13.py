"""C13 - parametrised types are canonical and form the documented subtype lattice; views alias the root.

Ties (model = lean/CohdlVerif/Model/C13*.lean through the `model_c13` driver, theorems in Props/C13.lean):

1. type histories (fresh forked interpreter per history, caches empty): random request histories over
   BitVector/Unsigned/Signed[(order,width)], Array[T,n], Signal/Variable/Temporary/Port[T(,dir)] in different
   spellings (`K[w]`, `K[w-1:0]`, `K[0:w-1]`, `Unsigned.upto`, `Signal[bool]`, `Port.input(T)`, classes created as a
   side effect of constructing views), repeated and interleaved, including rejected requests.  Compared with the
   model: accept/reject, identity matrix (`is`), `__bases__`, `__mro__` (C3), `issubclass` matrix, `isinstance`
   rows of instances, number of cache entries per family.  Independently of the model the property statement
   itself (same parameters -> same object, different -> different, documented lattice in closed form) is
   evaluated on the real classes: that decides between VIOLATION with a failing history and
   "correspondence broken, no failing input".
2. views (python level): random chains of slices / indices / casts / iteration on Signal/Variable/Temporary/Port
   objects: wrapped kind, shared cells (identity of the `Bit` objects of the root), `_root`, qualifier and
   direction, canonical class of the view, simplified ref-spec (the name the back end would print) vs the
   model; sequences of writes through views vs the model's storage.
3. emitted names: tiny designs reading / writing nested views (`x[7:2][3:1][1]`, casts, iteration) are compiled
   by the real compiler and simulated on input values by harness.vhdl_sim; outputs vs the cells the model
   resolves.
"""

import itertools

from .common import Ctx, compile_many, fork_map, import_cohdl, InfraError
from . import lean_io
from .vhdl_sim import Design

ROOTS = ["object", "primType", "bit", "boolean", "integer", "BV", "U", "S", "ARR", "tqBase", "tq",
         "Signal", "Port", "Variable", "Temporary"]
KROOT = {"bv": "BV", "uns": "U", "sgn": "S"}
QKS = ["signal", "port", "variable", "temporary"]
DIRS = ["in", "out", "inout"]

# ------------------------------------------------------------------------------------------------
# keys: ("r", name) | ("v", kind, order, width) | ("a", n, key) | ("q", qk, dir, key)
# ------------------------------------------------------------------------------------------------


def tok(k):
    if k[0] == "r":
        return k[1]
    if k[0] == "v":
        return f"v {k[1]} {k[2]} {k[3]}"
    if k[0] == "a":
        return f"a {k[1]} {tok(k[2])}"
    if k[0] == "q":
        return f"q {k[1]} {k[2]} {tok(k[3])}"
    raise ValueError(k)


def pretty(k):
    if k[0] == "r":
        return {"BV": "BitVector", "U": "Unsigned", "S": "Signed", "ARR": "Array", "bit": "Bit",
                "boolean": "bool", "integer": "int"}.get(k[1], k[1])
    if k[0] == "v":
        K = {"bv": "BitVector", "uns": "Unsigned", "sgn": "Signed"}[k[1]]
        return f"{K}[{k[3] - 1}:0]" if k[2] == "d" else f"{K}[0:{k[3] - 1}]"
    if k[0] == "a":
        return f"Array[{pretty(k[2])},{k[1]}]"
    Q = k[1].capitalize()
    return f"{Q}[{pretty(k[3])}]" if k[2] == "-" else f"{Q}[{pretty(k[3])},{k[2].upper()}]"


def subkeys(k):
    """post-order list of the sub-expressions of a request (evaluation order of the python expression)"""
    if k[0] == "a":
        return subkeys(k[2]) + [k]
    if k[0] == "q":
        return subkeys(k[3]) + [k]
    return [k]


def action_keys(a):
    """model requests (in order) an action stands for"""
    if a[0] == "T":
        return subkeys(a[1])
    if a[0] == "inst":      # ("inst", qkey, op): instantiate qkey, take a view, the view's class is a request
        _, qk, op = a
        return subkeys(qk) + subkeys(view_key(qk, op))
    raise ValueError(a)


def view_key(qk, op):
    _, q, d, (_, k, _o, w) = qk
    if op[0] == "cast":
        return ("q", q, d, ("v", op[1], "d", w)) if op[1] != k else qk
    if op[0] == "slice":
        return ("q", q, d, ("v", "bv", "d", op[1] - op[2] + 1))
    if op[0] == "index":
        return ("q", q, d, ("r", "bit"))
    raise ValueError(op)


def spec_le(a, b):
    """the documented lattice in closed form (Lean: `qvecLe`) for two qualified vector keys; None = not covered"""
    if a[0] != "q" or b[0] != "q":
        return None
    if a[3][0] != "v" or b[3][0] not in ("v", "r"):
        return None
    qa, da, (_, ka, oa, wa) = a[1], a[2], a[3]
    qb, db = b[1], b[2]
    qok = (qa == qb and da == db) or (qa == "port" and qb == "signal" and db == "-")
    if b[3][0] == "r":
        if b[3][1] == "BV":
            return qok
        if b[3][1] in ("U", "S"):
            return qok and KROOT[ka] == b[3][1]
        return False if b[3][1] in ("bit", "boolean", "integer", "ARR") else None
    _, kb, ob, wb = b[3]
    return qok and wa == wb and ((ka == kb and oa == ob) or (ka != "bv" and kb == "bv" and ob == "d"))


# ------------------------------------------------------------------------------------------------
# tie 1: worker (runs in a freshly forked interpreter)
# ------------------------------------------------------------------------------------------------


def _prim(x):
    """the primitive value a qualified object wraps (public accessor `get()`)"""
    return x.get()


def _bits(v):
    """the Bit objects of a vector, least significant first (public iteration protocol), or [v] for a Bit"""
    from cohdl import Bit
    return [v] if isinstance(v, Bit) else list(iter(v))


def _root_of(x):
    """the root object a view refers to: by the anchored name `_root`, else by shape (the only attribute holding a
    qualified object)"""
    from cohdl import TypeQualifier
    if hasattr(x, "_root"):
        return x._root
    c = [v for v in vars(x).values() if isinstance(v, TypeQualifier)]
    if len(c) == 1:
        return c[0]
    raise InfraError(f"cannot identify the root reference of a view: {sorted(vars(x))}")


def _refspec_of(x):
    """the ref-spec list of a view: by the anchored name `_ref_spec`, else by shape (the only list attribute whose
    entries have `simplify`)"""
    if hasattr(x, "_ref_spec"):
        return x._ref_spec
    c = [v for v in vars(x).values() if isinstance(v, list) and v and all(hasattr(e, "simplify") for e in v)]
    if len(c) <= 1:
        return c[0] if c else []
    raise InfraError(f"cannot identify the ref-spec of a view: {sorted(vars(x))}")


def _raw_assign(obj, val):
    """assignment to a primitive object that has no public assignment of its own (unqualified vectors, the value of a
    Temporary): vectors through their same-kind cast setter (public; `u.unsigned = v` is `u._assign(v)`), Bit through
    the assignment protocol `_assign`"""
    from cohdl import Unsigned, Signed, Bit
    if isinstance(obj, Bit):
        obj._assign(val)
    elif isinstance(obj, Unsigned):
        obj.unsigned = val
    elif isinstance(obj, Signed):
        obj.signed = val
    else:
        obj.bitvector = val


def _type_cache_of(f):
    """the class-level dictionary in which family `f` keeps its lazily created parametrised classes - found by
    shape, not by its (private, compiler-chosen) attribute name: the only own dict attribute of the class"""
    own = [(k, v) for k, v in vars(f).items() if isinstance(v, dict) and not k.startswith("__")]
    if len(own) == 1:
        return own[0][1]
    named = [v for k, v in own if k == "_SubTypes"]
    if len(named) == 1:
        return named[0]
    raise InfraError(f"cannot identify the subtype cache of {f.__name__}: own dict attributes {[k for k, _ in own]}")


def _hist_task(item):
    actions, model_line = item
    import_cohdl()
    from cohdl import Signal, Variable, Temporary, Port, BitVector, Unsigned, Signed, Bit, Array
    from cohdl import Boolean as _Boolean, Integer, TypeQualifier, TypeQualifierBase
    _PrimitiveType = Bit.__bases__[0]

    D = Port.Direction
    DIR = {"in": D.INPUT, "out": D.OUTPUT, "inout": D.INOUT}
    fams = [BitVector, Unsigned, Signed, Array, Signal, Port, Variable, Temporary]
    pre = [len(_type_cache_of(f)) for f in fams]
    if any(pre):
        raise InfraError(f"type caches are not empty in a fresh interpreter: {pre}")
    ROOT = {"object": object, "primType": _PrimitiveType, "bit": Bit, "boolean": _Boolean, "integer": Integer,
            "BV": BitVector, "U": Unsigned, "S": Signed, "ARR": Array, "tqBase": TypeQualifierBase,
            "tq": TypeQualifier, "Signal": Signal, "Port": Port, "Variable": Variable, "Temporary": Temporary}
    KIND = {"bv": BitVector, "uns": Unsigned, "sgn": Signed}
    QUAL = {"signal": Signal, "port": Port, "variable": Variable, "temporary": Temporary}

    records = []  # (key, class | "reject")

    class Rejected(Exception):
        pass

    def build(k, sp):
        """evaluate the type expression for key k; sp = spelling selector (int)"""
        try:
            if k[0] == "r":
                if k[1] == "boolean" and sp % 2:
                    c = bool          # Signal[bool] is Signal[_Boolean]; only legal directly below a qualifier
                    records.append((k, _Boolean))
                    return c
                if k[1] == "integer" and sp % 2:
                    records.append((k, Integer))
                    return int
                c = ROOT[k[1]]
            elif k[0] == "v":
                K, o, w = KIND[k[1]], k[2], k[3]
                if o == "u":
                    c = K[0:w - 1]
                elif w > 1 and sp % 3 == 1:
                    c = K[w - 1:0]
                elif k[1] == "uns" and w >= 1 and sp % 3 == 2:
                    c = Unsigned.upto((1 << w) - 1)
                else:
                    c = K[w]
            elif k[0] == "a":
                e = build(k[2], sp // 3 if k[2][0] != "r" else 0)
                c = Array[e, k[1]]
            elif k[0] == "q":
                t = build(k[3], sp // 3)
                Q = QUAL[k[1]]
                if k[2] == "-":
                    c = Q[t]
                elif k[1] == "port" and sp % 3 == 2 and k[3][0] == "v":
                    c = type({"in": Port.input, "out": Port.output, "inout": Port.inout}[k[2]](t))
                else:
                    c = Q[t, DIR[k[2]]]
            else:
                raise ValueError(k)
        except Rejected:
            records.append((k, "reject"))
            raise
        except AssertionError:
            records.append((k, "reject"))
            raise Rejected()
        records.append((k, c))
        return c

    for a in actions:
        try:
            if a[0] == "T":
                build(a[1], a[2])
            else:
                _, qk, op = a
                c = build(qk, 0)
                vk = view_key(qk, op)
                try:
                    x = c()
                    if op[0] == "cast":
                        y = {"uns": lambda: x.unsigned, "sgn": lambda: x.signed, "bv": lambda: x.bitvector}[op[1]]()
                    elif op[0] == "slice":
                        y = x[op[1]:op[2]]
                    else:
                        y = x[op[1]]
                    records.append((vk[3], type(_prim(y))))
                    records.append((vk, type(y)))
                except Exception:  # noqa: a legal view of a legal object cannot be constructed
                    records.append((vk[3], "reject"))
                    records.append((vk, "reject"))
        except Rejected:
            pass

    # ---- parse the model's answer
    res_s, cnt_s, cls_s = model_line.split("|")
    m_res = res_s.split(",") if res_s else []
    m_cnt = [int(x) for x in cnt_s.split(",")]
    m_cls = []
    for c in cls_s.split(";"):
        b, m, row = c.split("/")
        m_cls.append(([int(x) for x in b.split(".")] if b else [], None if m == "fail" else [int(x) for x in m.split(".")], row))

    diffs = []   # (kind, spec_violation: bool, text)
    want_keys = [k for a in actions for k in action_keys(a)]
    got_keys = [k for k, _ in records]
    if want_keys[:len(got_keys)] != got_keys or len(m_res) != len(want_keys):
        raise InfraError(f"request expansion out of step: {want_keys} vs {got_keys} vs {len(m_res)}")
    if len(got_keys) != len(want_keys):
        raise InfraError("request expansion out of step (length)")

    # ---- accept / reject, identity
    id2cls, cls2id = {}, {}
    for i, r in enumerate(ROOTS):
        id2cls[i] = ROOT[r]
        cls2id[id(ROOT[r])] = i
    keep = [ROOT[r] for r in ROOTS]
    for n, ((k, c), mr) in enumerate(zip(records, m_res)):
        if (c == "reject") != (mr == "reject"):
            # the specification does not say which requests are rejected, except that creation of a legal
            # parametrised type never fails
            diffs.append(("result", mr != "reject", f"request #{n} {pretty(k)}: model {mr}, implementation {'rejects' if c == 'reject' else 'accepts'}"))
            continue
        if c == "reject":
            continue
        keep.append(c)
        mid = int(mr)
        if mid in id2cls and id2cls[mid] is not c:
            diffs.append(("identity", True, f"request #{n} {pretty(k)} returns a different class object than an earlier request with the same parameters"))
            continue
        if id(c) in cls2id and cls2id[id(c)] != mid:
            diffs.append(("identity", True, f"request #{n} {pretty(k)} returns the class object of a request with different parameters"))
            continue
        id2cls[mid] = c
        cls2id[id(c)] = mid

    # ---- independent check of the property statement: canonical
    seen = {}
    for n, (k, c) in enumerate(records):
        if c == "reject":
            continue
        if k in seen and seen[k] is not c:
            diffs.append(("spec-canonical", True, f"{pretty(k)} requested twice gives two different class objects"))
        seen.setdefault(k, c)
    ks = list(seen.items())
    for (k1, c1), (k2, c2) in itertools.combinations(ks, 2):
        if c1 is c2:
            diffs.append(("spec-canonical", True, f"{pretty(k1)} and {pretty(k2)} are the same class object"))
    # ---- independent check of the property statement: lattice in closed form
    for (k1, c1) in ks:
        for (k2, c2) in ks:
            e = spec_le(k1, k2)
            if e is None:
                continue
            try:
                g = issubclass(c1, c2)
            except Exception as ex:  # noqa
                diffs.append(("spec-lattice", True, f"issubclass({pretty(k1)}, {pretty(k2)}) raises {type(ex).__name__}"))
                continue
            if g != e:
                diffs.append(("spec-lattice", True, f"issubclass({pretty(k1)}, {pretty(k2)}) is {g}, documented lattice says {e}"))

    # ---- independent check of the property statement: every port type is a signal type of the same wrapped type
    # (evaluated last: `Signal[T]` may create a class)
    port_checks = [(k, c) for k, c in ks if k[0] == "q" and k[1] == "port"]
    # ---- extend the id map along __bases__, compare bases
    work = list(id2cls.items())
    done = set()
    while work:
        mid, c = work.pop()
        if mid in done:
            continue
        done.add(mid)
        mb = m_cls[mid][0]
        pb = list(c.__bases__)
        if len(mb) != len(pb):
            diffs.append(("bases", False, f"class {mid} {c.__name__}: {len(pb)} bases, model {len(mb)}"))
            continue
        for bi, bc in zip(mb, pb):
            if bi in id2cls:
                if id2cls[bi] is not bc:
                    diffs.append(("bases", False, f"class {mid}: base differs from the model's base {bi}"))
                continue
            if id(bc) in cls2id:
                diffs.append(("bases", False, f"class {mid}: base is class {cls2id[id(bc)]}, model says {bi}"))
                continue
            id2cls[bi] = bc
            cls2id[id(bc)] = bi
            work.append((bi, bc))
    if len(id2cls) != len(m_cls) and not diffs:
        diffs.append(("count", False, f"model has {len(m_cls)} classes, {len(id2cls)} reachable in the implementation"))
    # ---- caches
    cnt = [len(_type_cache_of(f)) for f in fams]
    if cnt != m_cnt:
        diffs.append(("cache-count", False, f"cache sizes {cnt}, model {m_cnt}"))
    for f in fams:
        for v in _type_cache_of(f).values():
            if id(v) not in cls2id:
                diffs.append(("cache-count", False, f"cache of {f.__name__} holds a class the model does not know"))
                break
    # ---- mro and issubclass matrix
    ids = sorted(id2cls)
    for mid in ids:
        c = id2cls[mid]
        if mid >= len(m_cls):
            continue
        mm = m_cls[mid][1]
        pm = [cls2id.get(id(x), -1) for x in c.__mro__]
        if mm != pm:
            diffs.append(("mro", False, f"class {mid}: mro {pm}, model {mm}"))
        row = m_cls[mid][2]
        for j in ids:
            if j < len(row) and issubclass(c, id2cls[j]) != (row[j] == "1"):
                diffs.append(("issubclass", False, f"issubclass(class {mid}, class {j}) is {issubclass(c, id2cls[j])}, model {row[j]}"))
    # ---- isinstance rows of instances of the requested qualified vector / bit classes
    n_inst = 0
    for k, c in ks:
        if k[0] == "q" and (k[3][0] == "v" or k[3] == ("r", "bit")):
            try:
                x = c()
            except Exception as ex:  # noqa
                diffs.append(("instance", True, f"{pretty(k)}() raises {type(ex).__name__}"))
                continue
            n_inst += 1
            if type(x) is not c:
                diffs.append(("instance", True, f"type({pretty(k)}()) is not {pretty(k)}"))
                continue
            mid = cls2id.get(id(c))
            if mid is None or mid >= len(m_cls):
                continue
            row = m_cls[mid][2]
            for j in ids:
                if j < len(row) and isinstance(x, id2cls[j]) != (row[j] == "1"):
                    diffs.append(("isinstance", False, f"isinstance({pretty(k)}(), class {j}) disagrees with the model"))
    SPELLINGS = {("r", "boolean"): [("Boolean", _Boolean), ("bool", bool)], ("r", "integer"): [("Integer", Integer), ("int", int)]}
    for k, c in port_checks:
        for sname, wrapped in SPELLINGS.get(k[3], [(pretty(k[3]), c.type)]):
            try:
                ok = issubclass(c, Signal[wrapped]) and (k[3][0] != "v" or isinstance(c(), Signal[wrapped]))
            except Exception as ex:  # noqa
                ok = False
            if not ok:
                diffs.insert(0, ("spec-port-signal", True, f"{pretty(k)} is not a subclass of Signal[{sname}]"))
    n_rej = sum(1 for _, c in records if c == "reject")
    return {"diffs": diffs[:12], "classes": len(m_cls), "requests": len(records), "rejected": n_rej, "instances": n_inst,
            "distinct": len(ks)}


# ------------------------------------------------------------------------------------------------
# tie 1: generation
# ------------------------------------------------------------------------------------------------

WIDTHS = [1, 2, 3, 8, 65]


def gen_vec(rng, downto_only=False):
    k = rng.choice(["bv", "uns", "sgn"])
    o = "d" if downto_only or rng.random() < 0.8 else "u"
    w = rng.choice(WIDTHS) if rng.random() < 0.85 else rng.choice([4, 5, 7, 16, 32, 64, 66])
    if rng.random() < 0.03 and not downto_only:
        return ("v", k, "d", 0)          # rejected: width must be positive
    return ("v", k, o, w)


def gen_prim(rng, depth=0):
    r = rng.random()
    if r < 0.55:
        return gen_vec(rng)
    if r < 0.75:
        return ("r", rng.choice(["BV", "U", "S"]))
    if r < 0.87 or depth >= 2:
        return ("r", rng.choice(["bit", "boolean", "integer", "bit", "ARR", "primType"]))
    return ("a", rng.choice([0, 1, 2, 3, 8]), gen_prim(rng, depth + 1))


def gen_key(rng):
    r = rng.random()
    if r < 0.2:
        return gen_prim(rng)
    qk = rng.choice(QKS)
    d = rng.choice(DIRS) if qk == "port" else "-"
    if rng.random() < 0.05:
        d = "-" if qk == "port" else rng.choice(DIRS)   # rejected: direction only (and always) on ports
    t = gen_prim(rng)
    if rng.random() < 0.03:
        t = ("q", "signal", "-", ("r", "bit"))          # qualified type as wrapped type / array element
        if rng.random() < 0.5:
            return ("a", 2, t)                          # rejected: not a primitive type
    return ("q", qk, d, t)


def gen_action(rng, earlier):
    if earlier and rng.random() < 0.3:
        a = rng.choice(earlier)
        if a[0] == "T":
            return ("T", a[1], rng.randrange(27))       # same parameters, possibly other spelling
        return a
    if rng.random() < 0.15:
        qk = rng.choice(QKS)
        d = rng.choice(DIRS) if qk == "port" else "-"
        v = gen_vec(rng, downto_only=True)
        key = ("q", qk, d, v)
        w = v[3]
        c = rng.random()
        if c < 0.4:
            op = ("cast", rng.choice(["bv", "uns", "sgn"]))
        elif c < 0.8:
            h = rng.randrange(w)
            op = ("slice", h, rng.randrange(h + 1))
        else:
            op = ("index", rng.randrange(w))
        return ("inst", key, op)
    return ("T", gen_key(rng), rng.randrange(27))


def gen_history(rng, length):
    acts = []
    for _ in range(length):
        acts.append(gen_action(rng, acts))
    return acts


def lattice_history(rng, widths):
    """the systematic part: all qualifier kinds x vector kinds x widths (and the unparametrised ones), shuffled"""
    reqs = []
    for qk in QKS:
        for d in (DIRS[:2] if qk == "port" else ["-"]):
            for k in ("bv", "uns", "sgn"):
                reqs.append(("T", ("q", qk, d, ("r", KROOT[k])), 0))
                for w in widths:
                    reqs.append(("T", ("q", qk, d, ("v", k, "d", w)), rng.randrange(27)))
    rng.shuffle(reqs)
    return reqs


def alias_history(rng):
    """every alias spelling of the wrapped type the code accepts (`bool` / `cohdl.Boolean`, `int` / `cohdl.Integer`, `Bit`),
    under every qualifier kind and direction, mixed freely with each other and with a few vector types: the model's
    key is the canonical type, so identity / issubclass / isinstance are compared ACROSS spellings"""
    reqs = []
    for qk in QKS:
        for d in (DIRS if qk == "port" else ["-"]):
            for r in ("boolean", "integer", "bit"):
                for sp in (0, 3):          # inner spelling selector = sp // 3: 0 canonical class, 1 python builtin alias
                    reqs.append(("T", ("q", qk, d, ("r", r)), sp))
            reqs.append(("T", ("q", qk, d, ("v", rng.choice(["bv", "uns", "sgn"]), "d", rng.choice([1, 2, 8]))), rng.randrange(27)))
    for r in ("boolean", "integer"):
        reqs += [("T", ("r", r), 0), ("T", ("r", r), 1)]
    rng.shuffle(reqs)
    return reqs[:rng.randrange(12, len(reqs) + 1)] if rng.random() < 0.5 else reqs


def model_hist(histories):
    lines = ["hist " + " ; ".join(tok(k) for a in h for k in action_keys(a)) for h in histories]
    return lean_io.query("C13", lines)


def run_hist(h):
    m = model_hist([h])[0]
    if m == "bad-op":
        raise InfraError(f"model rejects the request line of {h}")
    r = fork_map(_hist_task, [(h, m)], fresh=True, batch=1)[0]
    if r[0] != "ok":
        raise InfraError(f"history task failed: {r[1]}\n{r[2]}")
    return r[1]


def ddmin(items, fails):
    items = list(items)
    n = 2
    while len(items) >= 2:
        chunk = max(1, len(items) // n)
        reduced = False
        for i in range(0, len(items), chunk):
            cand = items[:i] + items[i + chunk:]
            if cand and fails(cand):
                items = cand
                n = max(n - 1, 2)
                reduced = True
                break
        if not reduced:
            if chunk == 1:
                break
            n = min(len(items), n * 2)
    return items


def act_str(a):
    if a[0] == "T":
        return pretty(a[1]) + (f"~{a[2]}" if a[2] else "")
    op = a[2]
    o = {"cast": lambda: "." + {"uns": "unsigned", "sgn": "signed", "bv": "bitvector"}[op[1]],
         "slice": lambda: f"[{op[1]}:{op[2]}]", "index": lambda: f"[{op[1]}]"}[op[0]]()
    return pretty(a[1]) + "()" + o


def simplify_actions(h, fails):
    """after ddmin: drop spellings and shrink widths while the failure stays"""
    h = list(h)
    for i, a in enumerate(h):
        if a[0] == "T" and a[2]:
            cand = h[:i] + [("T", a[1], 0)] + h[i + 1:]
            if fails(cand):
                h = cand
    return h


def tie_types(ctx: Ctx):
    rng = ctx.rng
    n_hist = ctx.scale(40, 2500)
    hists = [gen_history(rng, rng.randrange(3, 26)) for _ in range(n_hist)]
    hists += [lattice_history(rng, ws) for ws in ([[1, 2, 3], [1, 8, 65], [2, 3, 8]] * ctx.scale(1, 12))]
    hists += [alias_history(rng) for _ in range(ctx.scale(4, 60))]
    model = model_hist(hists)
    for h, m in zip(hists, model):
        if m == "bad-op":
            raise InfraError(f"model rejects the request line of {h}")
    res = fork_map(_hist_task, list(zip(hists, model)), fresh=True, batch=1)
    bad = 0
    reported = set()
    for h, r in zip(hists, res):
        if r[0] != "ok":
            raise InfraError(f"history task failed: {r[1]}\n{r[2]}")
        r = r[1]
        keys = [k for a in h for k in action_keys(a)]
        ctx.case(key=tuple(act_str(a) for a in h), nontrivial=r["distinct"] >= 3 and r["classes"] > len(ROOTS) + 4,
                 kind=f"types:len={min(len(h) // 5 * 5, 40)}",
                 sample={"history": [act_str(a) for a in h][:10], "classes": r["classes"], "rejected": r["rejected"]})
        for k in keys:
            ctx.dist["req:" + (k[0] if k[0] != "q" else "q-" + k[1])] += 1
            if k[0] == "v":
                ctx.dist[f"width:{k[3] if k[3] in (0, 1, 2, 3, 8, 65) else 'other'}"] += 1
        ctx.dist["rejected-requests"] += r["rejected"]
        if not r["diffs"]:
            continue
        bad += 1
        if bad > 4:
            continue
        kinds0 = {d[0] for d in r["diffs"]}

        def fails(cand):
            rr = run_hist(cand)
            return bool({d[0] for d in rr["diffs"]} & kinds0)

        small = ddmin(h, fails)
        small = simplify_actions(small, fails)
        rr = run_hist(small)
        diffs = rr["diffs"] or r["diffs"]
        spec = [d for d in diffs if d[1]]
        sig = "types:" + ("spec:" if spec else "model:") + " ; ".join(act_str(a) for a in small)
        if sig in reported:
            continue
        reported.add(sig)
        first = (spec or diffs)[0]
        ctx.report(sig,
                   f"type history [{' ; '.join(act_str(a) for a in small)}] (fresh interpreter): {first[2]}",
                   {"tie": "types", "history": small, "diffs": diffs,
                    "broken": None if spec else "correspondence class table / mro / issubclass vs model (C13.canonical, C13.lattice, C13.no_spurious_subclass)"},
                   no_failing_input=not spec)
    ctx.obligation("correspondence: accept/reject, identity, __bases__, __mro__, issubclass/isinstance matrices and cache sizes of the "
                   "real classes = Lean class table, on all generated request histories (fresh interpreter each)",
                   bad == 0, detail=f"{len(hists)} histories, {bad} with differences")


# ------------------------------------------------------------------------------------------------
# tie 2: views at python level
# ------------------------------------------------------------------------------------------------


def op_tok(op):
    if op[0] == "slice":
        return f"s{op[1]}:{op[2]}"
    if op[0] == "index":
        return f"i{op[1]}"
    if op[0] == "iter":
        return f"it{op[1]}"
    return {"uns": "u", "sgn": "g", "bv": "b"}[op[1]]


def op_py(op):
    if op[0] == "slice":
        return f"[{op[1]}:{op[2]}]"
    if op[0] == "index":
        return f"[{op[1]}]"
    if op[0] == "iter":
        return f".__iter__()#{op[1]}"
    return "." + {"uns": "unsigned", "sgn": "signed", "bv": "bitvector"}[op[1]]


def _mk_root(qual, d, vt, w, init=None):
    """a fresh qualified object; init = bits least significant first (passed to the constructor as a bit string)"""
    from cohdl import Signal, Variable, Temporary, Port, BitVector, Unsigned, Signed
    K = {"bv": BitVector, "uns": Unsigned, "sgn": Signed}[vt]
    args = () if init is None else (init[::-1],)
    if qual == "port":
        D = Port.Direction
        return Port[K[w], {"in": D.INPUT, "out": D.OUTPUT, "inout": D.INOUT}[d]](*args)
    return {"signal": Signal, "variable": Variable, "temporary": Temporary}[qual][K[w]](*args)


def _apply_view(cur, op):
    if op[0] == "slice":
        return cur[op[1]:op[2]]
    if op[0] == "index":
        return cur[op[1]]
    if op[0] == "iter":
        return list(iter(cur))[op[1]]
    return {"uns": lambda: cur.unsigned, "sgn": lambda: cur.signed, "bv": lambda: cur.bitvector}[op[1]]()


def _describe_view(root, cur, w):
    """canonical description of a view of `root`: kind, cells (positions of the shared Bit objects), the cells the
    simplified ref-spec denotes, root/qualifier checks"""
    from cohdl import Signal, Variable, Temporary, Port, BitVector, Unsigned, Signed, Bit
    pos = {id(b): i for i, b in enumerate(_bits(_prim(root)))}
    v = _prim(cur)
    bits = _bits(v)
    vt = "bit" if isinstance(v, Bit) else "uns" if isinstance(v, Unsigned) else "sgn" if isinstance(v, Signed) else "bv"
    cells = [pos.get(id(b), -1) for b in bits]
    rs = _refspec_of(cur)
    if len(rs) == 0:
        resolved = list(range(w))
    else:
        last = rs[-1].copy()
        last.base_offset = list(last.base_offset)
        last.simplify()
        if hasattr(last, "offset"):          # Offset
            resolved = [last.offset] if not last.base_offset else [-2]
        elif hasattr(last, "start") and hasattr(last, "stop"):      # Slice
            resolved = list(range(last.stop, last.start + 1)) if not last.base_offset else [-2]
        else:
            resolved = [-3]
        if len(rs) != 1:
            resolved = [-4] + resolved
    flags = []
    if _root_of(cur) is not root:
        flags.append("root-changed")
    fam = Port if isinstance(root, Port) else Signal if isinstance(root, Signal) else Variable if isinstance(root, Variable) else Temporary
    if not isinstance(cur, fam) or (fam is not Port and isinstance(cur, Port)):
        flags.append("qualifier-changed")
    elif fam is Port:
        if type(cur).direction() is not type(root).direction() or type(cur) is not Port[type(v), type(root).direction()]:
            flags.append("qualifier-changed")
    elif type(cur) is not fam[type(v)]:
        flags.append("qualifier-changed")
    if len(bits) != len(cur):
        flags.append("len")
    return f"{vt} {'.'.join(map(str, cells))} {'.'.join(map(str, resolved))}", flags


def _view_task(item):
    qual, d, vt, w, ops = item
    import_cohdl()
    root = _mk_root(qual, d, vt, w)
    cur = root
    for i, op in enumerate(ops):
        try:
            cur = _apply_view(cur, op)
        except Exception:  # noqa  (AssertionError / RuntimeError / TypeError / IndexError / AttributeError)
            return f"reject@{i}", []
    return _describe_view(root, cur, w)


def _write_task(item):
    qual, d, w, init, writes = item
    import_cohdl()
    from cohdl import BitVector, Bit, Signal, Variable
    root = _mk_root(qual, d, "bv", w, init)
    status = []
    for ops, bits in writes:
        try:
            cur = root
            for op in ops:
                cur = _apply_view(cur, op)
            val = Bit(bits == "1") if isinstance(_prim(cur), Bit) and len(bits) == 1 else BitVector[len(bits)](bits[::-1])
            if isinstance(cur, Signal):
                cur.next = val
            elif isinstance(cur, Variable):
                cur.value = val
            else:
                _raw_assign(_prim(cur), val)
            status.append("ok")
        except Exception:  # noqa
            status.append("reject")
    return ",".join(status) + "|" + "".join(str(b) for b in _bits(_prim(root)))


def gen_ops(rng, w, length, p_bad=0.06):
    """mostly valid chains; tracks the current width"""
    ops = []
    cur = w      # None = bit
    for _ in range(length):
        if cur is None:
            if p_bad == 0.0 or rng.random() < 0.5:
                break
            ops.append(rng.choice([("index", 0), ("cast", "uns"), ("slice", 0, 0), ("iter", 0)]))   # rejected
            break
        r = rng.random()
        if r < p_bad:
            ops.append(rng.choice([("slice", cur, 0), ("slice", 0, 1) if cur > 1 else ("index", cur), ("index", cur), ("iter", cur)]))
            break
        if r < 0.5:
            h = rng.randrange(cur)
            lo = rng.randrange(h + 1)
            if rng.random() < 0.3:
                h, lo = cur - 1, rng.randrange(cur)
            ops.append(("slice", h, lo))
            cur = h - lo + 1
        elif r < 0.72:
            ops.append(("cast", rng.choice(["uns", "sgn", "bv"])))
        elif r < 0.86:
            ops.append(("index", rng.randrange(cur)))
            cur = None
        else:
            ops.append(("iter", rng.randrange(cur)))
            cur = None
    return ops


def view_line(vt, w, ops):
    return f"view {w} {vt} " + " ".join(op_tok(o) for o in ops)


def py_view(qual, d, vt, w, ops):
    r = fork_map(_view_task, [(qual, d, vt, w, ops)], fresh=False)[0]
    if r[0] != "ok":
        raise InfraError(f"view task failed: {r[1]}\n{r[2]}")
    return r[1]


def view_fails(qual, d, vt, w, ops):
    """(runs inside a forked worker, see _shrink_view_task)"""
    m = lean_io.query("C13", [view_line(vt, w, ops)])[0]
    p, flags = _view_task((qual, d, vt, w, ops))
    return m != p or bool(flags)


def _shrink_view_task(item):
    qual, d, vt, w, ops = shrink_view(*item)
    m = lean_io.query("C13", [view_line(vt, w, ops)])[0]
    p, flags = _view_task((qual, d, vt, w, ops))
    return qual, d, vt, w, ops, m, p, flags


def shrink_view(qual, d, vt, w, ops):
    """deterministic minimisation: delete operations, then lower every number as far as the failure stays"""
    ops = list(ops)
    changed = True
    while changed:
        changed = False
        for i in range(len(ops)):
            cand = ops[:i] + ops[i + 1:]
            if view_fails(qual, d, vt, w, cand):
                ops, changed = cand, True
                break
    for nv in ("bv",):
        if vt != nv and view_fails(qual, d, nv, w, ops):
            vt = nv
    if qual != "signal" and view_fails("signal", "-", vt, w, ops):
        qual, d = "signal", "-"
    changed = True
    while changed:
        changed = False
        if w > 1 and view_fails(qual, d, vt, w - 1, ops):
            w, changed = w - 1, True
            continue
        for i, op in enumerate(ops):
            for j in range(1, len(op)):
                if isinstance(op[j], int) and op[j] > 0:
                    cand = ops[:i] + [op[:j] + (op[j] - 1,) + op[j + 1:]] + ops[i + 1:]
                    if view_fails(qual, d, vt, w, cand):
                        ops, changed = cand, True
                        break
            if changed:
                break
    return qual, d, vt, w, ops


def tie_views(ctx: Ctx):
    rng = ctx.rng
    n = ctx.scale(1500, 30000)
    items = []
    for _ in range(n):
        qual = rng.choice(QKS)
        d = rng.choice(DIRS) if qual == "port" else "-"
        vt = rng.choice(["bv", "bv", "uns", "sgn"])
        w = rng.choice([1, 2, 3, 4, 8, 8, 12, 65])
        items.append((qual, d, vt, w, gen_ops(rng, w, rng.randrange(0, 7))))
    # exhaustive small part: width 4, all chains of <= 3 slices/indices/iteration with valid bounds
    small = []
    for h1 in range(4):
        for l1 in range(h1 + 1):
            small.append([("slice", h1, l1)])
            for h2 in range(h1 - l1 + 1):
                for l2 in range(h2 + 1):
                    for last in [[], [("cast", "uns")]]:
                        small.append([("slice", h1, l1), ("slice", h2, l2)] + last)
                        for i in range(h2 - l2 + 1):
                            small.append([("slice", h1, l1), ("slice", h2, l2)] + last + [("index", i)])
                            small.append([("slice", h1, l1), ("slice", h2, l2)] + last + [("iter", i)])
    items += [("signal", "-", "bv", 4, ops) for ops in small]
    model = lean_io.query("C13", [view_line(vt, w, ops) for (_, _, vt, w, ops) in items])
    impl = fork_map(_view_task, items, fresh=False, chunk=64)
    bad = 0
    reported = set()
    failing = []
    for it, m, r in zip(items, model, impl):
        if r[0] != "ok":
            raise InfraError(f"view task failed: {r[1]}\n{r[2]}")
        if m == "bad-op":
            raise InfraError(f"model rejects {view_line(it[2], it[3], it[4])}")
        p, flags = r[1]
        qual, d, vt, w, ops = it
        depth = sum(1 for o in ops if o[0] == "slice")
        ctx.case(key=("view",) + tuple(map(str, it)), nontrivial=depth >= 2 and not m.startswith("reject"),
                 kind=f"view:slices={depth}:{'reject' if m.startswith('reject') else 'ok'}",
                 sample={"root": f"{qual}[{vt}[{w}]]", "ops": "".join(op_py(o) for o in ops), "model": m, "impl": p})
        for o in ops:
            ctx.dist["viewop:" + o[0]] += 1
        if m == p and not flags:
            continue
        bad += 1
        if bad <= 3:
            failing.append(it)
    shrunk = fork_map(_shrink_view_task, failing, fresh=False) if failing else []
    for sr in shrunk:
        if sr[0] != "ok":
            raise InfraError(f"shrinking failed: {sr[1]}\n{sr[2]}")
        qual, d, vt, w, ops, m2, p2, flags2 = sr[1]
        expr = f"{qual.capitalize()}[{ {'bv': 'BitVector', 'uns': 'Unsigned', 'sgn': 'Signed'}[vt]}[{w}]]()" + "".join(op_py(o) for o in ops)
        sig = f"view:{qual}:{vt}:{w}:" + " ".join(op_tok(o) for o in ops)
        if sig in reported:
            continue
        reported.add(sig)
        # is the property statement itself violated?  cells / root / qualifier are what it talks about; the
        # resolved ref-spec is the storage the emitted code accesses for this view
        spec = bool(flags2)
        if not m2.startswith("reject") and not p2.startswith("reject"):
            mf, pf = m2.split(" "), p2.split(" ")
            spec = spec or mf[1] != pf[1] or pf[1] != pf[2]
        what = ("; ".join(flags2) + " " if flags2 else "") + f"implementation `{p2}`, model `{m2}` (kind cells ref-spec-cells)"
        ctx.report(sig, f"view {expr}: {what}",
                   {"tie": "view", "qual": qual, "dir": d, "vt": vt, "w": w, "ops": ops, "expected": m2, "observed": p2, "flags": flags2,
                    "broken": None if spec else "correspondence view construction vs model (C13.view_aliases / C13.refspec_compose)"},
                   no_failing_input=not spec)
    ctx.obligation("correspondence: kind, shared cells, root, qualifier and simplified ref-spec of python-level views = Lean `applyOps`/`resolve`",
                   bad == 0, detail=f"{len(items)} view chains, {bad} with differences")

    # ---- writes
    witems = []
    for _ in range(ctx.scale(150, 4000)):
        qual = rng.choice(QKS)
        d = rng.choice(DIRS) if qual == "port" else "-"
        w = rng.choice([1, 2, 3, 4, 8, 8, 12, 65])
        init = "".join(rng.choice("01") for _ in range(w))
        writes = []
        for _ in range(rng.randrange(1, 6)):
            ops = gen_ops(rng, w, rng.randrange(0, 5), p_bad=0.03)
            # width of the target
            ans = lean_io_width(w, ops)
            n_bits = ans if ans is not None else rng.randrange(1, 4)
            if rng.random() < 0.05:
                n_bits += 1
            writes.append((ops, "".join(rng.choice("01") for _ in range(max(1, n_bits)))))
        witems.append((qual, d, w, init, writes))
    lines = [f"wr {w} {init} " + " / ".join(" ".join(op_tok(o) for o in ops) + " = " + bits for ops, bits in writes)
             for (_, _, w, init, writes) in witems]
    model = lean_io.query("C13", lines)
    impl = fork_map(_write_task, witems, fresh=False, chunk=64)
    badw = 0
    for it, ln, m, r in zip(witems, lines, model, impl):
        if r[0] != "ok":
            raise InfraError(f"write task failed: {r[1]}\n{r[2]}")
        if m == "bad-op":
            raise InfraError(f"model rejects {ln}")
        ctx.case(key=("wr", ln, it[0], it[1]), nontrivial=m.count("ok") >= 2, kind=f"write:n={len(it[4])}",
                 sample={"root": f"{it[0]}[bv[{it[2]}]]", "line": ln, "model": m})
        if m == r[1]:
            continue
        badw += 1
        if badw > 4:
            continue
        qual, d, w, init, writes = it

        def wfails(ws):
            l2 = f"wr {w} {init} " + " / ".join(" ".join(op_tok(o) for o in ops) + " = " + bits for ops, bits in ws)
            m2 = lean_io.query("C13", [l2])[0]
            r2 = fork_map(_write_task, [(qual, d, w, init, ws)], fresh=False)[0]
            return r2[0] != "ok" or r2[1] != m2

        ws = ddmin(writes, wfails) if len(writes) > 1 else writes
        l2 = f"wr {w} {init} " + " / ".join(" ".join(op_tok(o) for o in ops) + " = " + bits for ops, bits in ws)
        m2 = lean_io.query("C13", [l2])[0]
        r2 = fork_map(_write_task, [(qual, d, w, init, ws)], fresh=False)[0]
        ctx.report(f"write:{qual}:{l2}",
                   f"writes through views of a {qual} BitVector[{w}] (initial bits lsb-first {init}): "
                   f"{'; '.join(''.join(op_py(o) for o in ops) + ' <- ' + bits for ops, bits in ws)} leaves `{r2[1] if r2[0] == 'ok' else r2[1]}`, "
                   f"aliasing semantics gives `{m2}`",
                   {"tie": "write", "qual": qual, "dir": d, "w": w, "init": init, "writes": ws, "expected": m2,
                    "observed": r2[1] if r2[0] == "ok" else None})
    ctx.obligation("correspondence: storage of the root after sequences of writes through views = Lean `write` on the view's cells",
                   badw == 0, detail=f"{len(witems)} write sequences, {badw} with differences")


# ------------------------------------------------------------------------------------------------
# tie 2b: sessions - views created before and after writes, every kind of written value, all live views checked
# ------------------------------------------------------------------------------------------------
# session = (qual, dir, vt, init_bits_lsb_first, steps)
# step    = ("v", parent_slot, op) | ("w", target_slot, setter_cast|None, source)
# source  = ("null",) | ("full",) | ("str", bits_lsb) | ("vec", kind, bits_lsb) | ("int", n) | ("bit", b) | ("bool", b)
#           | ("view", slot)
# slot 0 = the root; the n-th "v" step owns slot n (also when the construction is rejected)


def slot_kinds(vt, w, steps):
    """(kind, width) of every slot as the generator's bookkeeping sees it (None = rejected / unknown)"""
    slots = [(vt, w)]
    for st in steps:
        if st[0] != "v":
            continue
        par = slots[st[1]] if st[1] < len(slots) else None
        op = st[2]
        r = None
        if par is not None and par[0] != "bit":
            k, n = par
            if op[0] == "slice" and op[2] <= op[1] < n:
                r = ("bv", op[1] - op[2] + 1)
            elif op[0] in ("index", "iter") and op[1] < n:
                r = ("bit", 1)
            elif op[0] == "cast":
                r = (op[1], n)
        slots.append(r)
    return slots


def bits_of_int(v, n):
    return "".join("1" if (v >> i) & 1 else "0" for i in range(n))


def expected_write(tk, n, src, slots):
    """what the assignment `target <- src` does, target of kind tk and width n: ("w", bits) | ("cs", slot) |
    ("cn", slot, "z"|"s") | ("x",) rejected.  Mirrors BitVector/Unsigned/Signed/Bit `_assign` (value conversion is
    property C05; here only well-defined cases are generated)."""
    k = src[0]
    if tk == "bit":
        if k == "null":
            return ("w", "0")
        if k == "full":
            return ("w", "1")
        if k in ("bit", "bool"):
            return ("w", "1" if src[1] else "0")
        if k == "int":
            return ("w", str(src[1])) if src[1] in (0, 1) else ("x",)
        if k == "str":
            return ("w", src[1]) if src[1] in ("0", "1") else ("x",)
        if k == "view":
            sk = slots[src[1]]
            return ("cs", src[1]) if sk is not None and sk[0] == "bit" else ("x",)
        return ("x",)
    if k == "null":
        return ("w", "0" * n)
    if k == "full":
        return ("w", "1" * n)
    if k == "str":
        return ("w", src[1]) if len(src[1]) == n else ("x",)
    if k in ("bit", "bool"):
        return ("x",)
    if k == "int":
        v = src[1]
        if tk == "uns" and 0 <= v < (1 << n):
            return ("w", bits_of_int(v, n))
        if tk == "sgn" and -(1 << (n - 1)) <= v < (1 << (n - 1)):
            return ("w", bits_of_int(v & ((1 << n) - 1), n))
        return ("x",)
    if k == "vec":
        sk, sb = src[1], src[2]
        m = len(sb)
        if tk == "bv" or sk == "bv":
            return ("w", sb) if m == n else ("x",)
        if tk == "uns":
            return ("w", sb + "0" * (n - m)) if sk == "uns" and m <= n else ("x",)
        if sk == "sgn":
            return ("w", sb + sb[-1] * (n - m)) if m <= n else ("x",)
        return ("w", sb + "0" * (n - m)) if m < n else ("x",)
    if k == "view":
        ss = slots[src[1]]
        if ss is None or ss[0] == "bit":
            return ("x",)
        sk, m = ss
        if tk == "bv" or sk == "bv":
            return ("cs", src[1]) if m == n else ("x",)
        if tk == "uns":
            return ("cs", src[1]) if sk == "uns" and m <= n else ("x",)
        if sk == "sgn":
            return ("cn", src[1], "s") if m <= n else ("x",)
        return ("cn", src[1], "z") if m < n else ("x",)
    return ("x",)


def sess_line(sess):
    qual, d, vt, init, steps = sess
    slots = slot_kinds(vt, len(init), steps)
    out = []
    for st in steps:
        if st[0] == "v":
            out.append(f"v {st[1]} {op_tok(st[2])}")
            continue
        _, t, cast, src = st
        tk = slots[t]
        if tk is None or (cast is not None and tk[0] == "bit"):
            out.append("x")
            continue
        e = expected_write(cast or tk[0], tk[1], src, slots)
        out.append({"w": lambda: f"w {t} {e[1]}", "cs": lambda: f"cs {t} {e[1]}", "cn": lambda: f"cn {t} {e[1]} {e[2]}",
                    "x": lambda: "x"}[e[0]]())
    return f"sess {vt} {init} " + " / ".join(out)


def gen_source(rng, tk, n, slots):
    r = rng.random()
    if tk == "bit":
        c = rng.choice(["null", "full", "bit", "bool", "int", "str", "view", "bad"])
        if c in ("null", "full"):
            return (c,)
        if c in ("bit", "bool"):
            return (c, rng.random() < 0.5)
        if c == "int":
            return ("int", rng.choice([0, 1, 0, 1, 2]))
        if c == "str":
            return ("str", rng.choice("01"))
        if c == "view":
            cands = [i for i, sk in enumerate(slots) if sk is not None and sk[0] == "bit"]
            if cands:
                return ("view", rng.choice(cands))
        return ("vec", "bv", "1")
    if r < 0.14:
        return ("null",)
    if r < 0.28:
        return ("full",)
    if r < 0.40:
        m = n if rng.random() < 0.9 else n + 1
        return ("str", "".join(rng.choice("01") for _ in range(m)))
    if r < 0.52:
        if tk == "sgn":
            return ("int", rng.randrange(-(1 << (n - 1)) - (1 if rng.random() < 0.1 else 0), (1 << (n - 1)) + (1 if rng.random() < 0.1 else 0)))
        return ("int", rng.randrange(-1 if rng.random() < 0.1 else 0, (1 << n) + (1 if rng.random() < 0.1 else 0)))
    if r < 0.76:
        sk = rng.choice(["bv", "uns", "sgn", tk])
        m = n if (sk == "bv" or tk == "bv" or rng.random() < 0.5) else max(1, n - rng.randrange(0, 3))
        if rng.random() < 0.06:
            m = n + 1
        return ("vec", sk, "".join(rng.choice("01") for _ in range(m)))
    cands = [i for i, sk in enumerate(slots) if sk is not None and sk[0] != "bit" and (sk[1] == n or (sk[1] <= n and rng.random() < 0.3))]
    if cands:
        return ("view", rng.choice(cands))
    return rng.choice([("null",), ("full",)])


def gen_session(rng):
    qual = rng.choice(QKS + ["prim"])
    d = rng.choice(DIRS) if qual == "port" else "-"
    vt = rng.choice(["bv", "uns", "sgn"])
    w = rng.choice([1, 2, 3, 4, 6, 8, 8, 12])
    init = "".join(rng.choice("01") for _ in range(w))
    steps = []
    for _ in range(rng.randrange(2, 14)):
        slots = slot_kinds(vt, w, steps)
        live = [i for i, sk in enumerate(slots) if sk is not None]
        if rng.random() < 0.45 and len(slots) < 9:
            vec = [i for i in live if slots[i][0] != "bit"]
            p = rng.choice(vec)
            n = slots[p][1]
            c = rng.random()
            if c < 0.45:
                h = rng.randrange(n)
                op = ("slice", h, rng.randrange(h + 1))
            elif c < 0.7:
                op = ("cast", rng.choice(["uns", "sgn", "bv"]))
            elif c < 0.85:
                op = ("index", rng.randrange(n))
            else:
                op = ("iter", rng.randrange(n))
            if rng.random() < 0.03:
                op = ("slice", n, 0)          # rejected construction
            steps.append(("v", p, op))
        else:
            t = rng.choice(live + [0])
            tk, n = slots[t]
            cast = rng.choice(["uns", "sgn", "bv"]) if tk != "bit" and rng.random() < 0.15 else None
            steps.append(("w", t, cast, gen_source(rng, cast or tk, n, slots)))
    return (qual, d, vt, init, steps)


def _mk_prim_root(vt, w, init):
    from cohdl import BitVector, Unsigned, Signed
    return {"bv": BitVector, "uns": Unsigned, "sgn": Signed}[vt][w](init[::-1])


def _py_session(sess):
    """run the session on the real objects; same canonical answer as the model's `sess` command plus the list of
    property-level observations (a live view that does not show the root's cells, changed root / qualifier)"""
    qual, d, vt, init, steps = sess
    import_cohdl()
    from cohdl import BitVector, Unsigned, Signed, Bit, Null, Full, Signal, Variable, Temporary, Port
    KIND = {"bv": BitVector, "uns": Unsigned, "sgn": Signed}
    w = len(init)
    prim = qual == "prim"
    root = _mk_prim_root(vt, w, init) if prim else _mk_root(qual, d, vt, w, init)

    def prim_of(x):
        return x if prim else _prim(x)

    def shown(x):
        v = prim_of(x)
        return "".join(str(b) for b in _bits(v))

    def root_bits():
        return _bits(prim_of(root))

    live = [root]
    cells = [list(range(w))]
    out, flags = [], []
    for n, st in enumerate(steps):
        status = "ok"
        if st[0] == "v":
            try:
                par = live[st[1]]
                if par is None:
                    raise IndexError()
                op = st[2]
                if prim:
                    if op[0] == "slice":
                        y = par[op[1]:op[2]]
                    elif op[0] == "index":
                        y = par[op[1]]
                    elif op[0] == "iter":
                        y = list(iter(par))[op[1]]
                    else:
                        y = {"uns": lambda: par.unsigned, "sgn": lambda: par.signed, "bv": lambda: par.bitvector}[op[1]]()
                else:
                    y = _apply_view(par, op)
                pos = {id(b): i for i, b in enumerate(root_bits())}
                v = prim_of(y)
                bits = _bits(v)
                live.append(y)
                cells.append([pos.get(id(b), -1) for b in bits])
                if not prim:
                    if _root_of(y) is not root:
                        flags.append(f"step {n}: _root of the new view is not the root")
                    fam = {"signal": Signal, "variable": Variable, "temporary": Temporary, "port": Port}[qual]
                    if not isinstance(y, fam) or (qual != "port" and isinstance(y, Port)) or (
                            qual == "port" and type(y).direction() is not type(root).direction()):
                        flags.append(f"step {n}: qualifier of the new view differs from the root's")
            except Exception:  # noqa
                live.append(None)
                cells.append(None)
                status = "reject"
        else:
            _, t, cast, src = st
            try:
                tgt = live[t]
                if tgt is None:
                    raise IndexError()
                k = src[0]
                if k == "null":
                    val = Null
                elif k == "full":
                    val = Full
                elif k == "str":
                    val = src[1][::-1]
                elif k == "vec":
                    val = KIND[src[1]][len(src[2])](src[2][::-1])
                elif k == "int":
                    val = src[1]
                elif k == "bit":
                    val = Bit(src[1])
                elif k == "bool":
                    val = bool(src[1])
                else:
                    val = live[src[1]]
                    if val is None:
                        raise IndexError()
                if cast is not None:
                    if isinstance(prim_of(tgt), Bit):
                        raise TypeError()
                    val = prim_of(val) if k == "view" and not prim else val
                    if cast == "uns":
                        tgt.unsigned = val
                    elif cast == "sgn":
                        tgt.signed = val
                    else:
                        tgt.bitvector = val
                elif prim:
                    _raw_assign(tgt, val)
                elif isinstance(tgt, Signal):
                    if n % 2:
                        tgt.next = val
                    else:
                        tgt <<= val
                elif isinstance(tgt, Variable):
                    tgt.value = val
                else:
                    _raw_assign(_prim(tgt), prim_of(val) if k == "view" else val)
            except Exception:  # noqa
                status = "reject"
        rb = "".join(str(b) for b in root_bits())
        out.append(status + ":" + rb + ":" + ",".join("-" if x is None else shown(x) for x in live))
        for i, x in enumerate(live):
            if x is None:
                continue
            want = "".join(rb[c] if 0 <= c < w else "?" for c in cells[i])
            if shown(x) != want:
                flags.append(f"after step {n}: view in slot {i} shows {shown(x)[::-1]}, the root's cells {cells[i]} hold {want[::-1]}")
                break
    return ";".join(out), flags


def _session_task(sess):
    return _py_session(sess)


def step_str(st):
    if st[0] == "v":
        return f"#{st[1]}{op_py(st[2])}"
    _, t, cast, src = st
    val = {"null": "Null", "full": "Full"}.get(src[0]) or (
        f"'{src[1][::-1]}'" if src[0] == "str" else f"{src[1]}[{len(src[2])}]('{src[2][::-1]}')" if src[0] == "vec" else
        f"#{src[1]}" if src[0] == "view" else f"Bit({int(src[1])})" if src[0] == "bit" else str(src[1]))
    return f"#{t}{'.' + {'uns': 'unsigned', 'sgn': 'signed', 'bv': 'bitvector'}[cast] if cast else ''} <- {val}"


def sess_str(sess):
    qual, d, vt, init, steps = sess
    return f"{qual}[{vt}[{len(init)}]]('{init[::-1]}'): " + " ; ".join(step_str(s) for s in steps)


def drop_step(steps, i):
    """remove step i; a removed view step takes its slot with it (later references are dropped / renumbered)"""
    st = steps[i]
    rest = steps[:i] + steps[i + 1:]
    if st[0] != "v":
        return rest
    k = 1 + sum(1 for s in steps[:i] if s[0] == "v")
    out = []

    def ren(x):
        return x - 1 if x > k else x

    for s in rest:
        if s[0] == "v":
            if s[1] == k:
                return None
            out.append(("v", ren(s[1]), s[2]))
        else:
            if s[1] == k or (s[3][0] == "view" and s[3][1] == k):
                return None
            src = ("view", ren(s[3][1])) if s[3][0] == "view" else s[3]
            out.append(("w", ren(s[1]), s[2], src))
    return out


def sess_fails(sess):
    m = lean_io.query("C13", [sess_line(sess)])[0]
    p, flags = _py_session(sess)
    return m != p or bool(flags)


def _shrink_session_task(sess):
    qual, d, vt, init, steps = sess
    steps = list(steps)
    for _round in range(4):
        before = (qual, d, vt, init, list(steps))
        changed = True
        while changed:
            changed = False
            for i in reversed(range(len(steps))):
                cand = drop_step(steps, i)
                if cand is not None and cand and sess_fails((qual, d, vt, init, cand)):
                    steps, changed = cand, True
                    break
        for q2, d2 in (("signal", "-"), ("prim", "-")):
            if qual != q2 and sess_fails((q2, d2, vt, init, steps)):
                qual, d = q2, d2
                break
        if vt != "bv" and sess_fails((qual, d, "bv", init, steps)):
            vt = "bv"
        for alt in ("0" * len(init), "1" * len(init)):
            if init != alt and sess_fails((qual, d, vt, alt, steps)):
                init = alt
                break
        if before == (qual, d, vt, init, list(steps)):
            break
    sess = (qual, d, vt, init, steps)
    m = lean_io.query("C13", [sess_line(sess)])[0]
    p, flags = _py_session(sess)
    return sess, m, p, flags


def tie_sessions(ctx: Ctx):
    rng = ctx.rng
    sessions = [gen_session(rng) for _ in range(ctx.scale(1200, 20000))]
    # systematic part: every kind of view taken BEFORE, every kind of whole / partial write, read AFTER
    for vt in ("bv", "uns", "sgn"):
        for qual in ("signal", "variable", "prim"):
            for src in (("null",), ("full",), ("str", "0110"), ("vec", vt, "1001"), ("vec", "bv", "0101")) + ((("int", 5),) if vt != "bv" else ()):
                views = [("v", 0, ("slice", 3, 1)), ("v", 0, ("index", 2)), ("v", 0, ("iter", 0)),
                         ("v", 0, ("cast", "uns" if vt != "uns" else "sgn")), ("v", 1, ("slice", 1, 1))]
                sessions.append((qual, "-", vt, "1010", views + [("w", 0, None, src), ("v", 0, ("slice", 2, 0)),
                                                                 ("w", 1, None, ("full",)), ("w", 4, None, ("null",)),
                                                                 ("w", 6, None, ("str", "101")), ("w", 0, "bv", ("full",)),
                                                                 ("w", 2, None, ("bool", False)), ("w", 0, None, ("view", 4))]))
    lines = [sess_line(s) for s in sessions]
    model = lean_io.query("C13", lines)
    impl = fork_map(_session_task, sessions, fresh=False, chunk=64)
    bad = 0
    failing = []
    for sess, ln, m, r in zip(sessions, lines, model, impl):
        if r[0] != "ok":
            raise InfraError(f"session task failed: {r[1]}\n{r[2]}")
        if m == "bad-op":
            raise InfraError(f"model rejects {ln}")
        p, flags = r[1]
        nw = sum(1 for st in m.split(";") if st.startswith("ok")) if m else 0
        steps = sess[4]
        kinds = {st[3][0] for st in steps if st[0] == "w"}
        ctx.case(key=("sess", sess[0], sess[1], ln), nontrivial=len(kinds) >= 2 and any(s[0] == "v" for s in steps) and nw >= 3,
                 kind=f"session:{sess[0]}:{sess[2]}", sample={"session": sess_str(sess), "model": m[-80:]})
        for st in steps:
            ctx.dist["sess:" + ("view" if st[0] == "v" else "write-" + st[3][0] + ("-setter" if st[2] else ""))] += 1
        if m == p and not flags:
            continue
        bad += 1
        if bad <= 3:
            failing.append(sess)
    reported = set()
    for sr in (fork_map(_shrink_session_task, failing, fresh=False) if failing else []):
        if sr[0] != "ok":
            raise InfraError(f"shrinking failed: {sr[1]}\n{sr[2]}")
        sess, m, p, flags = sr[1]
        sig = "session:" + sess_str(sess)
        if sig in reported:
            continue
        reported.add(sig)
        first = next((i for i, (a, b) in enumerate(zip(m.split(";"), p.split(";"))) if a != b), None)
        what = flags[0] if flags else f"step {first}: implementation `{p.split(';')[first]}`, aliasing semantics `{m.split(';')[first]}` (status:root:views, lsb first)"
        ctx.report(sig, f"views / writes session {sess_str(sess)}: {what}",
                   {"tie": "session", "session": sess, "expected": m, "observed": p, "flags": flags})
    ctx.obligation("correspondence: after every step of sessions interleaving view construction and writes of every source kind "
                   "(str, int, vectors, Bit/bool, Null, Full, other views; through root, views and cast setters), root and all live "
                   "views of the real objects = Lean `Sess.step` / `Sess.shown`", bad == 0,
                   detail=f"{len(sessions)} sessions, {bad} with differences")



def lean_io_width(w, ops):
    """width of the view (python re-implementation of the bookkeeping only, used to generate matching values)"""
    cur = w
    for op in ops:
        if cur is None:
            return None
        if op[0] == "slice":
            if op[1] < op[2] or op[1] >= cur:
                return None
            cur = op[1] - op[2] + 1
        elif op[0] in ("index", "iter"):
            if op[1] >= cur:
                return None
            cur = None
            return 1 if op is ops[-1] else None
    return cur


# ------------------------------------------------------------------------------------------------
# tie 2c: printing / simplifying one view must not change the ref-spec of its siblings (python level)
# ------------------------------------------------------------------------------------------------
# item = (qual, dir, vt, w, base_ops, [suffix_ops...], order)   siblings = base + each suffix applied to the SAME base object


def _sibling_task(item):
    qual, d, vt, w, base_ops, suffixes, order = item
    import_cohdl()
    root = _mk_root(qual, d, vt, w)
    base = root
    for op in base_ops:
        base = _apply_view(base, op)
    sibs = [base]
    for suf in suffixes:
        cur = base
        for op in suf:
            cur = _apply_view(cur, op)
        sibs.append(cur)
    before = [_describe_view(root, v, w) for v in sibs]
    diffs = []
    for n in order:
        for ref in _refspec_of(sibs[n]):      # what `_format_ref` of the VHDL back end does when it prints this view
            ref.simplify()
        after = [_describe_view(root, v, w) for v in sibs]
        for i, (b, a) in enumerate(zip(before, after)):
            if a != b:
                diffs.append((n, i, b[0], a[0]))
        if diffs:
            break
    return [b[0] for b in before], [f for b in before for f in b[1]], diffs


def gen_nested_base(rng, W, xt, depth, casts=True):
    """chain of `depth` slices with a non-zero offset at every level (optionally casts in between); final width >= 2"""
    ops, cur, kind = [], W, xt
    for lvl in range(depth):
        minw = 2 + (depth - 1 - lvl)
        lo = rng.randrange(1, cur - minw + 1)
        hi = rng.randrange(lo + minw - 1, cur)
        ops.append(("slice", hi, lo))
        cur, kind = hi - lo + 1, "bv"
        if casts and rng.random() < 0.3:
            kind = rng.choice(["uns", "sgn", "bv"])
            ops.append(("cast", kind))
    return ops, cur, kind


def gen_suffixes(rng, n, kind, count, write=False):
    """views derived from one base object of width n: casts, index, sub-slices (+casts), iteration"""
    cands = [[("cast", c)] for c in ("uns", "sgn", "bv") if c != kind]
    cands += [[("index", rng.randrange(n))], [("cast", rng.choice(["uns", "sgn"])), ("index", rng.randrange(n))]]
    for _ in range(2):
        h = rng.randrange(n)
        lo = rng.randrange(h + 1)
        cands += [[("slice", h, lo)], [("slice", h, lo), ("cast", rng.choice(["uns", "sgn"]))],
                  [("cast", rng.choice(["uns", "sgn"])), ("slice", h, lo)]]
    if not write:
        cands += [[("iterall",)], [("cast", rng.choice(["uns", "sgn"])), ("iterall",)]]
    rng.shuffle(cands)
    out = cands[:count]
    if not any(len(c) == 1 and c[0][0] == "cast" for c in out):
        out[0] = [("cast", rng.choice([c for c in ("uns", "sgn", "bv") if c != kind]))]
    return out


def tie_siblings(ctx: Ctx):
    rng = ctx.rng
    items = []
    for _ in range(ctx.scale(300, 4000)):
        qual = rng.choice(QKS)
        d = rng.choice(DIRS) if qual == "port" else "-"
        vt = rng.choice(["bv", "uns", "sgn"])
        W = rng.choice([6, 8, 12])
        depth = rng.choice([1, 2, 2, 3])
        base_ops, n, kind = gen_nested_base(rng, W, vt, depth)
        sufs = [[o for o in sfx if o[0] != "iterall"] or [("iter", 0)] for sfx in gen_suffixes(rng, n, kind, rng.randrange(2, 6))]
        order = list(range(len(sufs) + 1))
        rng.shuffle(order)
        items.append((qual, d, vt, W, base_ops, sufs, order))
    items.insert(0, ("signal", "-", "bv", 8, [("slice", 7, 4), ("slice", 1, 0)], [[("cast", "uns")], [("cast", "sgn")]], [0, 1, 2]))
    lines, owner = [], []
    for n, (qual, d, vt, W, base_ops, sufs, order) in enumerate(items):
        for suf in [[]] + sufs:
            lines.append(view_line(vt, W, base_ops + suf))
            owner.append(n)
    ans = lean_io.query("C13", lines)
    model = {}
    for n, a in zip(owner, ans):
        model.setdefault(n, []).append(a)
    impl = fork_map(_sibling_task, items, fresh=False, chunk=32)
    bad = 0
    reported = set()
    for n, (it, r) in enumerate(zip(items, impl)):
        if r[0] != "ok":
            raise InfraError(f"sibling task failed: {r[1]}\n{r[2]}")
        before, flags, diffs = r[1]
        qual, d, vt, W, base_ops, sufs, order = it
        ctx.case(key=("sib",) + tuple(map(str, it)), nontrivial=len(base_ops) >= 2, kind=f"siblings:depth={sum(1 for o in base_ops if o[0] == 'slice')}",
                 sample={"base": "".join(op_py(o) for o in base_ops), "siblings": ["".join(op_py(o) for o in sfx) for sfx in sufs], "order": order})
        if before == model[n] and not flags and not diffs:
            continue
        bad += 1
        base_s = f"{qual}[{vt}[{W}]]" + "".join(op_py(o) for o in base_ops)
        if diffs:
            pr, i, b, a = diffs[0]
            names = ["base"] + ["base" + "".join(op_py(o) for o in sfx) for sfx in sufs]
            sig = f"siblings:{vt}[{W}]:" + " ".join(op_tok(o) for o in base_ops) + "|" + names[pr] + ">" + names[i]
            text = (f"base = {base_s}: simplifying (= printing) the ref-spec of `{names[pr]}` changes what `{names[i]}` denotes: "
                    f"`{b}` -> `{a}` (kind cells ref-spec-cells)")
        else:
            sig = f"siblings:{vt}[{W}]:" + " ".join(op_tok(o) for o in base_ops) + "|model"
            text = f"base = {base_s}: views {before} {flags}, model {model[n]}"
        if sig in reported or len(reported) >= 3:
            continue
        reported.add(sig)
        ctx.report(sig, text, {"tie": "siblings", "item": it, "model": model[n], "before": before, "flags": flags, "diffs": diffs})
    ctx.obligation("correspondence: every view derived from one (nested) slice object keeps kind, cells, root, qualifier and the cells its "
                   "ref-spec denotes (= Lean `resolve`) when the ref-specs of its siblings are simplified (printed) in any order",
                   bad == 0, detail=f"{len(items)} sibling families, {bad} with differences")


# ------------------------------------------------------------------------------------------------
# tie 3b: several views of ONE nested slice object used as different outputs / targets of one design
# ------------------------------------------------------------------------------------------------

SHARED_SRC = """
import cohdl
from cohdl import std, Bit, BitVector, Unsigned, Signed, Port, Signal

VIEWS = {{}}

class W(cohdl.Entity):
    clk = Port.input(Bit)
    x = Port.input({XT})
    a = Port.input(BitVector[{W}])
    y = Port.output(BitVector[{W}])
{PORTS}
    def architecture(self):
{ARCHDEFS}
        @std.concurrent
        def logic():
{FNDEFS_R}
{READS}
        @std.sequential(std.Clock(self.clk))
        def proc():
{FNDEFS_W}
            self.y <<= self.a
{WRITES}
"""

KNAME = {"bv": "BitVector", "uns": "Unsigned", "sgn": "Signed"}


def final_kind(kind, n, suffix):
    for o in suffix:
        if o[0] == "slice":
            kind, n = "bv", o[1] - o[2] + 1
        elif o[0] == "cast":
            kind = o[1]
        elif o[0] == "index":
            kind, n = "bit", 1
    return kind, n


def build_shared_design(W, xt, base_ops, r_sufs, r_order, wbase_ops, w_sufs, placement):
    n, kind = final_kind(xt, W, base_ops)[1], final_kind(xt, W, base_ops)[0]
    wn = final_kind("bv", W, wbase_ops)[1]
    ports, defs_r, defs_w, reads, writes, outs = [], [], [], [], [], []
    ind_a, ind_f = " " * 8, " " * 12
    recs = []
    defs_r.append(f"base = {py_chain('self.x', base_ops)}")
    recs.append('VIEWS["base"] = (self.x, base)')
    for j, suf in enumerate(r_sufs):
        it_all = suf and suf[-1][0] == "iterall"
        ops = [o for o in suf if o[0] != "iterall"]
        defs_r.append(f"v{j} = {py_chain('base', ops)}")
        recs.append(f'VIEWS["v{j}"] = (self.x, v{j})')
        k, m = final_kind(kind, n, ops)
        if it_all:
            ports.append(f"    o{j} = Port.output(BitVector[{m}])")
            outs.append({"port": f"o{j}", "mode": "iterall", "ops": base_ops + ops, "signed": False, "expr": f"[b for b in base{''.join(op_py(o) for o in ops)}]"})
        else:
            ports.append(f"    o{j} = Port.output({'Bit' if k == 'bit' else KNAME[k] + '[' + str(m) + ']'})")
            outs.append({"port": f"o{j}", "mode": "read", "ops": base_ops + ops, "signed": k == "sgn", "expr": "base" + "".join(op_py(o) for o in ops)})
    for j in r_order:
        if outs[j]["mode"] == "iterall":
            reads.append(f"for k{j}, b{j} in enumerate(v{j}):\n{ind_f}    self.o{j}[k{j}] <<= b{j}")
        else:
            reads.append(f"self.o{j} <<= v{j}")
    defs_w.append(f"wbase = {py_chain('self.y', wbase_ops)}")
    recs.append('VIEWS["wbase"] = (self.y, wbase)')
    wouts = []
    for j, suf in enumerate(w_sufs):
        defs_w.append(f"w{j} = {py_chain('wbase', suf)}")
        recs.append(f'VIEWS["w{j}"] = (self.y, w{j})')
        k, m = final_kind("bv", wn, suf)
        if k == "bit":
            ports.append(f"    wb{j} = Port.input(Bit)")
            src = f"self.wb{j}"
        elif k == "sgn":
            ports.append(f"    wb{j} = Port.input(BitVector[{m}])")
            src = f"self.wb{j}.signed"
        else:
            ports.append(f"    wb{j} = Port.input({KNAME[k]}[{m}])")
            src = f"self.wb{j}"
        writes.append(f"w{j}.next = {src}")
        wouts.append({"in": f"wb{j}", "ops": wbase_ops + suf, "width": m, "expr": "wbase" + "".join(op_py(o) for o in suf) + f" <<= wb{j}"})
    arch = placement == "arch"
    src = SHARED_SRC.format(
        XT=f"{KNAME[xt]}[{W}]", W=W, PORTS="\n".join(ports) + "\n",
        ARCHDEFS="\n".join(ind_a + l for l in (defs_r + defs_w + recs if arch else ["pass"])),
        FNDEFS_R="\n".join(ind_f + l for l in ([] if arch else defs_r)) or ind_f + "pass",
        FNDEFS_W="\n".join(ind_f + l for l in ([] if arch else defs_w)) or ind_f + "pass",
        READS="\n".join(ind_f + l for l in reads), WRITES="\n".join(ind_f + l for l in writes))
    return {"src": src, "W": W, "xt": xt, "outs": outs, "wouts": wouts, "placement": placement,
            "descr": f"{placement}: base = x{''.join(op_py(o) for o in base_ops)} on {xt}[{W}]; reads in order "
                     + ", ".join(outs[j]["expr"] for j in r_order) + f"; wbase = y{''.join(op_py(o) for o in wbase_ops)}; writes in order "
                     + ", ".join(w["expr"] for w in wouts)}


def gen_shared_design(rng):
    W = rng.choice([6, 8])
    xt = rng.choice(["bv", "uns", "sgn"])
    depth = rng.choice([2, 2, 3])
    base_ops, n, kind = gen_nested_base(rng, W, xt, depth)
    r_sufs = [[]] + gen_suffixes(rng, n, kind, rng.randrange(2, 6))
    r_order = list(range(len(r_sufs)))
    rng.shuffle(r_order)
    wbase_ops, wn, _ = gen_nested_base(rng, W, "bv", rng.choice([2, 3]), casts=False)
    w_sufs = [[]] + [s for s in gen_suffixes(rng, wn, "bv", rng.randrange(1, 4), write=True)]
    rng.shuffle(w_sufs)
    return build_shared_design(W, xt, base_ops, r_sufs, r_order, wbase_ops, w_sufs, rng.choice(["arch", "fn"]))


def _shared_task(item):
    d, samples = item
    import_cohdl()
    from cohdl import std
    from .common import load_design_module
    try:
        mod = load_design_module(d["src"], "c13s")
        vhdl = std.VhdlCompiler.to_string(mod.W)
    except BaseException as e:  # noqa
        return {"ok": False, "errtype": type(e).__name__, "err": str(e)[-300:]}
    views = {}
    for name, (root, v) in mod.VIEWS.items():
        views[name] = _describe_view(root, v, d["W"])
    des = Design(vhdl)
    ins = ["x", "a"] + [w["in"] for w in d["wouts"]]
    for p in ["clk"] + ins:
        des.set(p, 0)
    des.initialise()
    res = []
    for vals in samples:
        for p, v in zip(ins, vals):
            des.set(p, v)
        des.settle()
        des.clock("clk")
        des.settle()
        res.append([des.get(o["port"]) for o in d["outs"]] + [des.get("y")])
    return {"ok": True, "vhdl": vhdl, "views": views, "sim": res}


def shared_expected(d, cells, wcells, env):
    exp = []
    for o, cs in zip(d["outs"], cells):
        e = sum((((env["x"] >> c) & 1) << j) for j, c in enumerate(cs))
        if o["signed"] and (e >> (len(cs) - 1)) & 1:
            e -= 1 << len(cs)
        exp.append(e)
    y = env["a"]
    for w, cs in zip(d["wouts"], wcells):
        for j, c in enumerate(cs):
            y = (y & ~(1 << c)) | (((env[w["in"]] >> j) & 1) << c)
    return exp + [y]


def shared_model_cells(designs):
    lines, owner = [], []
    for di, d in enumerate(designs):
        for o in d["outs"]:
            lines.append(view_line(d["xt"], d["W"], o["ops"]))
            owner.append((di, "r"))
        for w in d["wouts"]:
            lines.append(view_line("bv", d["W"], w["ops"]))
            owner.append((di, "w"))
    ans = lean_io.query("C13", lines)
    cells = [([], []) for _ in designs]
    for (di, side), a, ln in zip(owner, ans, lines):
        if a.startswith("reject") or a == "bad-op":
            raise InfraError(f"generator produced a view the model rejects: {ln} -> {a}")
        cells[di][0 if side == "r" else 1].append([int(x) for x in a.split(" ")[1].split(".")])
    return cells


def tie_shared(ctx: Ctx):
    rng = ctx.rng
    designs = []
    # the canonical small shapes, both placements, both emission orders
    for placement in ("arch", "fn"):
        for r_order in ([0, 1, 2], [2, 1, 0]):
            designs.append(build_shared_design(8, "bv", [("slice", 7, 4), ("slice", 1, 0)], [[], [("cast", "uns")], [("cast", "sgn")]], r_order,
                                               [("slice", 7, 2), ("slice", 3, 1)], [[], [("cast", "uns")]] if r_order[0] == 0 else [[("cast", "uns")], []],
                                               placement))
    designs += [gen_shared_design(rng) for _ in range(ctx.scale(20, 300))]
    cells = shared_model_cells(designs)
    tasks = []
    for d in designs:
        W = d["W"]
        widths = [W, W] + [w["width"] for w in d["wouts"]]
        samples = [[x, rng.randrange(1 << W)] + [rng.randrange(1 << n) for n in widths[2:]] for x in range(1 << W)]
        tasks.append((d, samples))
    res = fork_map(_shared_task, tasks, fresh=True)
    bad = 0
    reported = set()
    for di, ((d, samples), r) in enumerate(zip(tasks, res)):
        if r[0] != "ok":
            raise InfraError(f"shared-views task failed: {r[1]}\n{r[2]}")
        r = r[1]
        if not r["ok"]:
            ctx.dist["shared-design-rejected:" + r["errtype"]] += 1
            continue
        ctx.case(key=("shared", d["src"]), nontrivial=True, kind=f"shared:{d['placement']}:W={d['W']}", sample={"design": d["descr"]})
        ins = ["x", "a"] + [w["in"] for w in d["wouts"]]
        names = [o["port"] for o in d["outs"]] + ["y"]
        problem = None
        # python level: after the design was printed every recorded view must still denote the cells it aliases
        for name, (desc, flags) in sorted(r["views"].items()):
            f = desc.split(" ")
            if flags or (not desc.startswith("reject") and f[1] != f[2]):
                problem = (f"after compilation the ref-spec of view `{name}` denotes cells {f[2]} but the view aliases cells {f[1]} of its root"
                           + (f" ({'; '.join(flags)})" if flags else ""), {"view": name, "described": desc, "flags": flags})
                break
        if problem is None:
            for vals, obs in zip(samples, r["sim"]):
                env = dict(zip(ins, vals))
                exp = shared_expected(d, cells[di][0], cells[di][1], env)
                obs = [int(o) if isinstance(o, bool) else o for o in obs]
                if obs != exp:
                    k = next(i for i, (a, b) in enumerate(zip(obs, exp)) if a != b)
                    what = d["outs"][k]["expr"] if k < len(d["outs"]) else "the writes through views of wbase"
                    problem = (f"inputs {env}: port {names[k]} (`{what}`) is {obs[k]}, the cells of the root the model resolves give {exp[k]}",
                               {"inputs": env, "port": names[k], "expected": exp[k], "observed": obs[k]})
                    break
        if problem is None:
            continue
        bad += 1
        sig = "shared:" + d["descr"]
        if len(reported) >= 2:
            continue
        reported.add(sig)
        ctx.report(sig, f"several views of one nested slice in one design ({d['descr']}): {problem[0]}",
                   {"tie": "shared", "design": d, "design_source": d["src"], "vhdl": r["vhdl"], **problem[1]})
    ctx.obligation("correspondence: designs using several views of ONE nested slice object (itself, typed views, sub-index, sub-slices, iteration; "
                   "read and written, every emission order, views created in the architecture or in the context) access exactly the cells "
                   "the Lean model resolves (VHDL simulation on all values of x) and leave every view's ref-spec pointing at its cells",
                   bad == 0, detail=f"{len(tasks)} designs, {bad} with differences")


# ------------------------------------------------------------------------------------------------
# tie 3: emitted names of nested views
# ------------------------------------------------------------------------------------------------

NAME_SRC = '''
import cohdl
from cohdl import std, Bit, BitVector, Unsigned, Signed, Port, Signal, Variable

class W(cohdl.Entity):
    clk = Port.input(Bit)
    x = Port.input({XT})
    a = Port.input(BitVector[{W}])
{PORTS}
    def architecture(self):
        @std.concurrent
        def logic():
{READS}
        @std.sequential(std.Clock(self.clk))
        def proc():
{WRITES}
'''


def py_chain(base, ops):
    s = base
    for op in ops:
        s += op_py(op) if op[0] != "iter" else ""
    return s


def gen_name_design(rng, quick):
    W = rng.choice([3, 4, 5, 6, 8]) if not quick else rng.choice([3, 4, 6, 8])
    xt = rng.choice(["bv", "bv", "uns", "sgn"])
    XT = {"bv": "BitVector", "uns": "Unsigned", "sgn": "Signed"}[xt] + f"[{W}]"
    ports, reads, writes, outs = [], [], [], []
    for n in range(rng.randrange(2, 5)):
        while True:
            ops = gen_ops(rng, W, rng.randrange(1, 6), p_bad=0.0)
            if ops and all(o[0] != "iter" for o in ops[:-1]):
                break
        width = lean_io_width(W, ops)
        if ops[-1][0] == "iter":
            # for k, b in enumerate(view): o[k] <<= b   -> all elements
            pre = ops[:-1]
            width = lean_io_width(W, pre)
            ports.append(f"    o{n} = Port.output(BitVector[{width}])")
            reads.append(f"            for k{n}, b{n} in enumerate({py_chain('self.x', pre)}):\n                self.o{n}[k{n}] <<= b{n}")
            outs.append((f"o{n}", "iterall", pre, width))
            continue
        last_cast = next((o[1] for o in reversed(ops) if o[0] in ("cast", "slice", "index")), None)
        kind = "bit" if ops[-1][0] == "index" else xt
        for o in ops:
            if o[0] == "slice":
                kind = "bv"
            elif o[0] == "cast":
                kind = o[1]
        if ops[-1][0] == "index":
            ports.append(f"    o{n} = Port.output(Bit)")
        else:
            T = {"bv": "BitVector", "uns": "Unsigned", "sgn": "Signed"}[kind]
            ports.append(f"    o{n} = Port.output({T}[{width}])")
        reads.append(f"            self.o{n} <<= {py_chain('self.x', ops)}")
        outs.append((f"o{n}", "read", ops, width))
    # write side: y <<= a ; y<view> <<= b
    for n in range(rng.randrange(1, 3)):
        while True:
            ops = [o for o in gen_ops(rng, W, rng.randrange(1, 5), p_bad=0.0) if o[0] != "iter" and o[0] != "cast"]
            if ops:
                break
        width = lean_io_width(W, ops)
        ports.append(f"    y{n} = Port.output(BitVector[{W}])")
        if ops[-1][0] == "index":
            ports.append(f"    b{n} = Port.input(Bit)")
        else:
            ports.append(f"    b{n} = Port.input(BitVector[{width}])")
        writes.append(f"            self.y{n} <<= self.a\n            {py_chain(f'self.y{n}', ops)} <<= self.b{n}")
        outs.append((f"y{n}", "write", ops, width, f"b{n}"))
    src = NAME_SRC.format(XT=XT, W=W, PORTS="\n".join(ports) + "\n", READS="\n".join(reads), WRITES="\n".join(writes))
    return {"src": src, "W": W, "xt": xt, "outs": outs}


def _name_sim_task(item):
    vhdl, W, outs, samples = item
    d = Design(vhdl)
    res = []
    ins = ["x", "a"] + [o[4] for o in outs if o[1] == "write"]
    for p in ["clk"] + ins:
        d.set(p, 0)
    d.initialise()
    for vals in samples:
        for p, v in zip(ins, vals):
            d.set(p, v)
        d.settle()
        d.clock("clk")
        d.settle()
        res.append([d.get(o[0]) for o in outs])
    return res


def tie_names(ctx: Ctx):
    rng = ctx.rng
    designs = [gen_name_design(rng, ctx.quick) for _ in range(ctx.scale(24, 400))]
    # the shapes named in the plan, always present
    fixed = {"src": NAME_SRC.format(XT="BitVector[8]", W=8,
                                    PORTS="    o0 = Port.output(Bit)\n    o1 = Port.output(BitVector[3])\n    o2 = Port.output(BitVector[3])\n    o3 = Port.output(Unsigned[2])\n    y0 = Port.output(BitVector[8])\n    b0 = Port.input(BitVector[2])\n",
                                    READS="            self.o0 <<= self.x[7:2][3:1][1]\n            self.o1 <<= self.x[7:2][3:1]\n"
                                          "            for k, b in enumerate(self.x[7:2][3:1]):\n                self.o2[k] <<= b\n"
                                          "            self.o3 <<= self.x[6:1].unsigned[4:2][1:0].unsigned",
                                    WRITES="            self.y0 <<= self.a\n            self.y0[6:1][4:2][1:0] <<= self.b0"),
             "W": 8, "xt": "bv",
             "outs": [("o0", "read", [("slice", 7, 2), ("slice", 3, 1), ("index", 1)], 1),
                      ("o1", "read", [("slice", 7, 2), ("slice", 3, 1)], 3),
                      ("o2", "iterall", [("slice", 7, 2), ("slice", 3, 1)], 3),
                      ("o3", "read", [("slice", 6, 1), ("cast", "uns"), ("slice", 4, 2), ("slice", 1, 0), ("cast", "uns")], 2),
                      ("y0", "write", [("slice", 6, 1), ("slice", 4, 2), ("slice", 1, 0)], 2, "b0")]}
    designs.insert(0, fixed)
    compiled = compile_many([(d["src"], "W") for d in designs])
    # model: cells of every view
    lines, owner = [], []
    for di, d in enumerate(designs):
        for oi, o in enumerate(d["outs"]):
            lines.append(view_line(d["xt"] if o[1] != "write" else "bv", d["W"], o[2]))
            owner.append((di, oi))
    ans = lean_io.query("C13", lines)
    cells = {}
    for (di, oi), a in zip(owner, ans):
        if a.startswith("reject") or a == "bad-op":
            raise InfraError(f"generator produced a view the model rejects: {lines[owner.index((di, oi))]} -> {a}")
        cells[(di, oi)] = [int(x) for x in a.split(" ")[1].split(".")]
    tasks, tmeta = [], []
    bad = 0
    for di, (d, c) in enumerate(zip(designs, compiled)):
        if not c["ok"]:
            # the compiler rejecting a legal nested view is not a statement of C13 (no aliasing claim is violated)
            ctx.dist["name-design-rejected:" + c["errtype"]] += 1
            continue
        W = d["W"]
        ins = ["x", "a"] + [o[4] for o in d["outs"] if o[1] == "write"]
        widths = [W, W] + [o[3] for o in d["outs"] if o[1] == "write"]
        if sum(widths) <= 10:
            samples = [list(v) for v in itertools.product(*[range(1 << n) for n in widths])]
        else:
            samples = [[x, rng.randrange(1 << W)] + [rng.randrange(1 << n) for n in widths[2:]] for x in range(1 << W)]
            samples += [[rng.randrange(1 << n) for n in widths] for _ in range(64)]
        tasks.append((c["vhdl"], W, d["outs"], samples))
        tmeta.append(di)
    sims = fork_map(_name_sim_task, tasks, fresh=False, chunk=2)
    reported = set()
    for di, t, r in zip(tmeta, tasks, sims):
        d = designs[di]
        if r[0] != "ok":
            bad += 1
            ctx.report(f"names:sim-error:{d['src']}", f"emitted VHDL of a nested-view design cannot be executed: {r[1]}",
                       {"tie": "names", "design": d, "error": r[1]})
            continue
        samples = t[3]
        ins = ["x", "a"] + [o[4] for o in d["outs"] if o[1] == "write"]
        nontriv = any(sum(1 for o in out[2] if o[0] == "slice") >= 2 for out in d["outs"])
        ctx.case(key=("names", d["src"]), nontrivial=nontriv, kind=f"names:W={d['W']}",
                 sample={"outs": [(o[0], o[1], "".join(op_py(p) for p in o[2])) for o in d["outs"]]})
        for oi, out in enumerate(d["outs"]):
            cs = cells[(di, oi)]
            for vals, obs in zip(samples, r[1]):
                env = dict(zip(ins, vals))
                if out[1] == "write":
                    exp = env["a"]
                    for j, cpos in enumerate(cs):
                        bit = (env[out[4]] >> j) & 1
                        exp = (exp & ~(1 << cpos)) | (bit << cpos)
                else:
                    exp = sum((((env["x"] >> cpos) & 1) << j) for j, cpos in enumerate(cs))
                    if d_kind_signed(d, out) and len(cs) > 0 and (exp >> (len(cs) - 1)) & 1:
                        exp -= 1 << len(cs)
                got = obs[oi]
                if isinstance(got, bool):
                    got = int(got)
                if got != exp:
                    bad += 1
                    expr = (py_chain("x", out[2]) if out[1] != "write" else py_chain("y", out[2]) + " <<= b")
                    if out[1] == "iterall":
                        expr = f"[b for b in {py_chain('x', out[2])}]"
                    sig = f"names:{out[1]}:{d['xt']}[{d['W']}]:" + " ".join(op_tok(o) for o in out[2])
                    nested = sum(1 for o in out[2] if o[0] == "slice") >= 2
                    if out[1] == "iterall" and nested and di != 0 and "names:iterall:bv[8]:s7:2 s3:1" in reported:
                        # same failing call site as the fixed design (iteration over a slice of a slice), already reported
                        # with its stable signature; any other kind of difference is still reported below
                        break
                    if sig not in reported and len(reported) < 6:
                        reported.add(sig)
                        ctx.report(sig,
                                   f"emitted design: `{expr}` on a {d['xt']}[{d['W']}] accesses the wrong storage: inputs {env} give "
                                   f"{out[0]}={got}, the cells {cs} of the root give {exp}",
                                   {"tie": "names", "design_source": d["src"], "out": out, "inputs": env, "expected": exp,
                                    "observed": got, "cells": cs, "vhdl": t[0]})
                    break
    ctx.obligation("correspondence: emitted names of nested views (read, write, iteration) access exactly the cells the Lean model resolves "
                   "(VHDL simulation over input values)", bad == 0, detail=f"{len(tasks)} designs simulated, {bad} differences")


def d_kind_signed(d, out):
    """is the output port of this read a Signed (two's complement readback)"""
    if out[1] != "read" or out[2][-1][0] == "index":
        return False
    kind = d["xt"]
    for o in out[2]:
        if o[0] == "slice":
            kind = "bv"
        elif o[0] == "cast":
            kind = o[1]
    return kind == "sgn"


# ------------------------------------------------------------------------------------------------


def run(ctx: Ctx):
    import os
    os.environ["COHDL_VERIF_NOWARM"] = "1"  # type caches must be empty in the forked interpreters
    ctx.rule = ("(1) request histories: random actions (type expressions over vector kinds x orders x widths {0,1,2,3,8,65,..}, arrays, "
                "qualifier kinds x directions, rejected forms, other spellings of earlier requests, classes created by views) executed in a "
                "fresh interpreter; non-trivial = >= 3 distinct accepted parameter tuples and >= 5 lazily created classes; distinct = "
                "distinct action list.  (2) view chains of slices/indices/casts/iteration on all qualifier kinds, plus all chains of <= 2 "
                "slices + index/iteration on width 4; non-trivial = >= 2 nested slices and accepted.  (3) write sequences through views; "
                "non-trivial = >= 2 accepted writes; sessions interleaving view construction (before and after writes) with writes of "
                "every source kind through root / views / cast setters on bv/uns/sgn roots of all qualifier kinds and unqualified "
                "vectors, all live views checked after every step; non-trivial = >= 2 source kinds, a view and >= 3 accepted steps; families of sibling views of one (nested) slice object whose "
                "ref-specs are simplified in every order; non-trivial = nested base.  (4) compiled designs reading/writing nested views, simulated; non-trivial = a view "
                "with >= 2 nested slices; designs using several views (typed views, sub-index, sub-slices, iteration) of ONE nested slice object "
                "(depth 2-3, non-zero offsets) as different outputs / write targets in shuffled emission order, views created in the "
                "architecture or in the context, simulated on all values of x")
    tie_types(ctx)
    tie_views(ctx)
    tie_sessions(ctx)
    tie_siblings(ctx)
    tie_names(ctx)
    tie_shared(ctx)


def replay(ctx, data):
    r = data["replay"]
    if r["tie"] == "types":
        h = [tuple_deep(a) for a in r["history"]]
        rr = run_hist(h)
        print("history :", " ; ".join(act_str(a) for a in h))
        for dd in rr["diffs"]:
            print("observed:", dd[2])
        return 1 if rr["diffs"] else 0
    if r["tie"] == "view":
        ops = [tuple(o) for o in r["ops"]]
        m = lean_io.query("C13", [view_line(r["vt"], r["w"], ops)])[0]
        p, flags = py_view(r["qual"], r["dir"], r["vt"], r["w"], ops)
        print("view    :", r["qual"], r["vt"], r["w"], "".join(op_py(o) for o in ops))
        print("expected:", m)
        print("observed:", p, flags)
        return 0 if (m == p and not flags) else 1
    if r["tie"] == "siblings":
        it = tuple_deep(r["item"])
        it = (it[0], it[1], it[2], it[3], list(it[4]), [list(x) for x in it[5]], list(it[6]))
        pr = fork_map(_sibling_task, [it], fresh=False)[0]
        ans = lean_io.query("C13", [view_line(it[2], it[3], it[4] + suf) for suf in [[]] + it[5]])
        print("expected:", ans)
        print("observed:", pr[1])
        return 0 if (pr[0] == "ok" and pr[1][0] == ans and not pr[1][1] and not pr[1][2]) else 1
    if r["tie"] == "shared":
        d = r["design"]
        d["outs"] = [dict(o, ops=[tuple(x) for x in o["ops"]]) for o in d["outs"]]
        d["wouts"] = [dict(o, ops=[tuple(x) for x in o["ops"]]) for o in d["wouts"]]
        cells = shared_model_cells([d])[0]
        W = d["W"]
        widths = [W, W] + [w["width"] for w in d["wouts"]]
        samples = [[x, (x * 37 + 11) % (1 << W)] + [(x * 5 + 3) % (1 << n) for n in widths[2:]] for x in range(1 << W)]
        if "inputs" in r:
            samples.insert(0, [r["inputs"][p] for p in ["x", "a"] + [w["in"] for w in d["wouts"]]])
        pr = fork_map(_shared_task, [(d, samples)], fresh=True)[0]
        if pr[0] != "ok" or not pr[1]["ok"]:
            print("cannot compile / simulate:", pr[1])
            return 1
        rc = 0
        for name, (desc, flags) in sorted(pr[1]["views"].items()):
            f = desc.split(" ")
            if flags or f[1] != f[2]:
                print(f"view {name}: aliases cells {f[1]}, ref-spec denotes {f[2]} {flags}")
                rc = 1
        ins = ["x", "a"] + [w["in"] for w in d["wouts"]]
        for vals, obs in zip(samples, pr[1]["sim"]):
            env = dict(zip(ins, vals))
            exp = shared_expected(d, cells[0], cells[1], env)
            obs = [int(o) if isinstance(o, bool) else o for o in obs]
            if obs != exp:
                print("inputs  :", env)
                print("expected:", exp)
                print("observed:", obs)
                rc = 1
                break
        print("design  :", d["descr"])
        return rc
    if r["tie"] == "session":
        sess = tuple_deep(r["session"])
        sess = (sess[0], sess[1], sess[2], sess[3], list(sess[4]))
        m = lean_io.query("C13", [sess_line(sess)])[0]
        pr = fork_map(_session_task, [sess], fresh=False)[0]
        print("session :", sess_str(sess))
        print("expected:", m)
        print("observed:", pr[1][0] if pr[0] == "ok" else pr[1])
        for f in (pr[1][1] if pr[0] == "ok" else []):
            print("  ", f)
        return 0 if (pr[0] == "ok" and pr[1][0] == m and not pr[1][1]) else 1
    if r["tie"] == "write":
        ws = [([tuple(o) for o in ops], bits) for ops, bits in r["writes"]]
        line = f"wr {r['w']} {r['init']} " + " / ".join(" ".join(op_tok(o) for o in ops) + " = " + bits for ops, bits in ws)
        m = lean_io.query("C13", [line])[0]
        p = fork_map(_write_task, [(r["qual"], r["dir"], r["w"], r["init"], ws)], fresh=False)[0]
        print("expected:", m)
        print("observed:", p[1])
        return 0 if (p[0] == "ok" and p[1] == m) else 1
    if r["tie"] == "names":
        if "design_source" not in r:
            return 1
        c = compile_many([(r["design_source"], "W")])[0]
        if not c["ok"]:
            print("rejected:", c["errtype"])
            return 1
        out = r["out"]
        d = Design(c["vhdl"])
        d.set("clk", 0)
        for p, v in r["inputs"].items():
            d.set(p, v)
        d.initialise()
        d.settle()
        d.clock("clk")
        d.settle()
        got = d.get(out[0])
        got = int(got) if isinstance(got, bool) else got
        print("inputs  :", r["inputs"])
        print("expected:", r["expected"])
        print("observed:", got)
        return 0 if got == r["expected"] else 1
    return 1


def tuple_deep(x):
    return tuple(tuple_deep(y) for y in x) if isinstance(x, (list, tuple)) else x
