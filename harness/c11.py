"""C11 - compilation is a pure function of the design, independent of history.

(a) tie of the Lean model (lean/CohdlVerif/Model/C11.lean) to the real module globals: every design of the pool
    (harness/c11_pool.py: accepted designs and rejected designs that crash in the architecture run, in tracing -
    inside `std.sequential`, `with std.prefix`, `cohdl.always`, nested calls, an exception handler scope, an inline
    entity -, in IR generation inside a state machine / loop / call, in the usage check) carries its event script;
    histories over the pool are compiled by the real compiler inside ONE forked process each (state accumulates),
    after every compilation the audited globals are snapshotted and compared with the state the model
    (`Cfg.fixed` = tree with the six repairs) reaches after the same history; the verdict class is compared too.
(b) THE PROPERTY: the verdict and the bytes of `std.VhdlCompiler.to_string(E)` after every history prefix must equal
    the first compile in a fresh process; additionally: repeated compile, fresh interpreters under
    PYTHONHASHSEED 0/1/2/random (subprocesses) and perturbed allocation (objects allocated before compiling).
    Any difference is minimised (drop history elements while the difference persists) and reported with the
    minimal history as replay.
"""

import hashlib
import os
import subprocess
import sys

from .common import Ctx, fork_map, load_design_module, import_cohdl, scratch_dir, REPO, InfraError
from . import lean_io
from .c11_pool import POOL, RESERVED_OPTION, OPTION_STEPS, CHURN

ACCEPTED = [n for n, v in POOL.items() if v[1] == "ok"]
REJECTED = [n for n, v in POOL.items() if v[1] == "reject"]
STATE_FLAGS = ["fixSM", "fixBlk", "fixWith", "fixCtx", "fixInst"]  # order of the first five cfg bits of the driver
FLAG_PATCH = {"fixSM": "C11-statemachine-singleton", "fixBlk": "C11-block-stack", "fixWith": "C11-with-exit",
              "fixCtx": "C11-current-context", "fixInst": "C11-entity-instantiated", "fixLib": "C11-library-order"}


# ---------------------------------------------------------------------------------------------------
# one really fresh process per task (common.fork_map reuses its pool workers for several tasks, see notes/C11.md)
# ---------------------------------------------------------------------------------------------------
def _child(func, item, conn):
    import traceback

    try:
        res = ("ok", func(item))
    except BaseException as e:  # noqa
        res = ("exc", f"{type(e).__name__}: {e}", traceback.format_exc()[-3000:])
    try:
        conn.send(res)
        conn.close()
    finally:
        os._exit(0)


def fresh_map(func, items):
    """func(item) for every item, each in its own process forked from this one (cohdl imported, nothing compiled)"""
    import multiprocessing as mp
    from multiprocessing.connection import wait

    items = list(items)
    import_cohdl()
    mctx = mp.get_context("fork")
    procs = int(os.environ.get("COHDL_VERIF_PROCS", "0") or 0) or min(16, os.cpu_count() or 4)
    results = [None] * len(items)
    running = {}
    nxt = 0
    while nxt < len(items) or running:
        while nxt < len(items) and len(running) < procs:
            r, w = mctx.Pipe(duplex=False)
            p = mctx.Process(target=_child, args=(func, items[nxt], w))
            p.start()
            w.close()
            running[r] = (nxt, p)
            nxt += 1
        for r in wait(list(running)):
            i, p = running.pop(r)
            try:
                results[i] = r.recv()
            except EOFError:
                results[i] = ("exc", "child died without an answer", "")
            r.close()
            p.join()
    return results


# ---------------------------------------------------------------------------------------------------
# real side
# ---------------------------------------------------------------------------------------------------
def _refs():
    """the audited module globals (resolved inside the forked child, before anything was compiled)"""
    import cohdl  # noqa
    from cohdl._core._ir._repr import StatemachineContext
    from cohdl._core._ir import _repr as ir
    from cohdl._core import _context
    from cohdl.std._prefix import _Prefix
    from cohdl.std import _context as sctx
    from cohdl.std._exception import StdExceptionHandler
    from cohdl._compiler.frontend import _prepare_ast as pa
    from cohdl._compiler.frontend._generate_ir import IrGenerator

    return dict(SM=StatemachineContext, ir=ir, ctx=_context, P=_Prefix, sctx=sctx, H=StdExceptionHandler, pa=pa,
                IG=IrGenerator, ret0=IrGenerator.returned_blocks, brk0=IrGenerator._break_result,
                cont0=IrGenerator._continue_result, static={})


# class-/module-level containers that legitimately change (caches that only grow, keyed counters); everything else
# in cohdl.* must have the same CONTENT after a compilation as before the first one
CONTAINER_WHITELIST = (
    "FunctionDefinition._known_definitions", "_Prefix._existing_prefix", "_SubTypes", "_intrinsic_functions",
    "_intrinsic_replacements", "_expr_functions", "linecache",
    "_value2member_map_", "_member_map_", "_member_names_",  # enum.Flag creates composite members lazily
)


def _containers():
    """every dict / set / list bound at module level or class level in a cohdl module"""
    out = {}
    for mname, mod in list(sys.modules.items()):
        if mod is None or not (mname == "cohdl" or mname.startswith("cohdl.")):
            continue
        for an, av in list(vars(mod).items()):
            if an.startswith("__"):
                continue
            if isinstance(av, (dict, set, list)):
                out[f"{mname}.{an}"] = av
            elif isinstance(av, type) and getattr(av, "__module__", None) == mname:
                for cn, cv in list(vars(av).items()):
                    if not cn.startswith("__") and isinstance(cv, (dict, set, list)):
                        out[f"{mname}.{av.__name__}.{cn}"] = cv
    return {k: v for k, v in out.items() if not any(w in k for w in CONTAINER_WHITELIST)}


def _id_keyed():
    """every module-/class-level dict of a cohdl module whose keys all look like `id()` values (found by shape, not by
    name): caches keyed by the address of an object"""
    out = {}
    for mname, mod in list(sys.modules.items()):
        if mod is None or not (mname == "cohdl" or mname.startswith("cohdl.")):
            continue
        for an, av in list(vars(mod).items()):
            if an.startswith("__"):
                continue
            if isinstance(av, dict):
                out[f"{mname}.{an}"] = av
            elif isinstance(av, type) and getattr(av, "__module__", None) == mname:
                for cn, cv in list(vars(av).items()):
                    if not cn.startswith("__") and isinstance(cv, dict):
                        out[f"{mname}.{av.__name__}.{cn}"] = cv
    return {k: d for k, d in out.items() if d and all(isinstance(x, int) and not isinstance(x, bool) and x > (1 << 20) for x in d)}


def _dead_keys(r):
    """id-keyed caches with an entry (added since the start of the history) that does NOT keep its key object alive:
    an address may be reused as key only while the cached entry references the object living there (the entry itself,
    one of its elements or one of its attributes must be the object whose id() is the key)"""
    bad = []
    for name, d in _id_keyed().items():
        old = r["idk0"].get(name, ())
        dead = 0
        for key, v in list(d.items()):
            if key in old:
                continue
            elems = [v] + (list(v) if isinstance(v, (list, tuple)) else []) + list(getattr(v, "__dict__", {}).values())
            if not any(id(e) == key for e in elems):
                dead += 1
        if dead:
            bad.append(name.replace("cohdl.", "", 1))
    return sorted(bad)


def _canon(x):
    if isinstance(x, (str, int, bool, float, type(None))):
        return repr(x)
    if isinstance(x, tuple):
        return "(" + ",".join(_canon(e) for e in x) + ")"
    return type(x).__name__


def _digests():
    out = {}
    for k, c in _containers().items():
        try:
            if isinstance(c, dict) and all(isinstance(v, type) for v in list(c.values())):
                # a cache of lazily created classes (e.g. the parametrised-type caches, whatever they are called):
                # grows legitimately; an influence on the output would show in the byte comparison
                out[k] = "class-cache"
                continue
            if isinstance(c, dict):
                items = sorted(_canon(a) + ":" + _canon(b) for a, b in list(c.items()))
            else:
                items = sorted(_canon(e) for e in list(c))
        except Exception:  # noqa
            items = ["?"]
        out[k] = hash(tuple(items))
    return out


def _field(r, name, fn):
    """one audited global of the Lean event model, read under its present private name; when the tree no longer
    has an attribute of that name (internal rename) the field is masked ("?") on both sides; the generic audit `cont=` (every
    module-/class-level container) and the byte comparison of outputs under histories remain in force.  (A generic
    audit of None slots was tried and dropped: memo slots such as `_Prefix._current_entity` change legitimately.)"""
    try:
        return fn()
    except AttributeError as e:
        r.setdefault("masked", {})[name] = str(e)[:120]
        return "?"


def _snapshot(r, classes):
    """canonical snapshot of the real globals, same format as `CohdlVerif.C11.snapshot` (after `canon_model`)"""
    pa, ctxm, IG = r["pa"], r["ctx"], r["IG"]
    F = lambda name, fn: _field(r, name, fn)  # noqa: E731
    f = {
        "conv": F("conv", lambda: int(pa._active_converter_instance is not None or ctxm._entity_instantiation_handler is not None
                                      or ctxm._on_register_inline_entity_handler is not None)),
        "arch": F("arch", lambda: int(ctxm._block_stack is not pa._block_stack)),
        "archReuse": 0,
        "blk": F("blk", lambda: len(pa._block_stack)),
        "ctx": F("ctx", lambda: int(r["sctx"]._current_context is not None or r["sctx"]._current_context_data is not None)),
        "pfx": F("pfx", lambda: len(r["P"]._prefix_scope)),
        "hdl": F("hdl", lambda: len(r["H"]._handler_list)),
        "apply": F("apply", lambda: int(pa._parent_frame is not None)),
        "ret": F("ret", lambda: len(pa._return_stack._stack)),
        "always": 0,
        "ircall": F("ircall", lambda: int(IG.returned_blocks is not r["ret0"] or len(IG.returned_blocks) != 0)),
        "irapply": F("irapply", lambda: int(r["ir"].Statement._current_frame is not None)),
        "sm": F("sm", lambda: int(r["SM"]._singleton is not None)),
        "loop": F("loop", lambda: int(IG._break_result is not r["brk0"] or IG._continue_result is not r["cont0"]
                                      or len(IG._break_result) != 0 or len(IG._continue_result) != 0)),
        "scope": 0,
    }
    inst = sorted(code for code, cls in classes.items() if cls._cohdl_info.instantiated is not None
                  or cls._cohdl_info.instantiated_template is not None)
    s = " ".join(f"{k}={v}" for k, v in f.items())
    s += " pfxs=" + ",".join(p._prefix for p in r["P"]._prefix_scope)
    s += " inst=" + ".".join(str(c) for c in inst) + " reg= inl=" + ".".join("1" for _ in pa._inline_declared_entities)
    # per-class state: ports added while an architecture ran (kept on the class until its next elaboration) and
    # the snapshot `non_dynamic_ports` (must be exactly the statically declared ports, or None)
    now = _digests()
    cont = sorted(k.replace("cohdl.", "", 1) for k in set(now) | set(r["digest0"]) if now.get(k) != r["digest0"].get(k))
    s += " cont=" + ",".join(cont)
    dyn, ndp = [], []
    for code, cls in classes.items():
        info = cls._cohdl_info
        static = r["static"][code]
        dyn += [f"{code}:{p}" for p in info.ports if p not in static]
        if info.non_dynamic_ports is not None and set(info.non_dynamic_ports) != set(static):
            ndp.append(code)
        if [p for p in static if p not in info.ports]:
            ndp.append(code + ":lost-static-port")
    s += " dyn=" + ",".join(sorted(dyn)) + " ndp=" + ",".join(sorted(ndp))
    s += " idk=" + ",".join(_dead_keys(r))
    return s


def _err_class(e):
    m = str(e)
    if "nested StatemachineContext" in m:
        return "nestedSM"
    if "only one converter instance" in m:
        return "convActive"
    if "wait_for can only infer the clock" in m:
        return "noCtx"
    if "already exists" in m and m.lstrip().startswith("port "):
        return "portExists"
    return "crash"


def _phase_of(tb):
    import traceback

    frames = [(f.filename, f.name) for f in traceback.extract_tb(tb)]
    names = [n for _, n in frames]
    if any("/backend/" in f for f, _ in frames):
        return "backend"
    if any(f.endswith("_generate_ir.py") for f, _ in frames):
        return "irgen" if "_apply_impl" in names else "usage"
    if "convert_sequential" in names or "convert_concurrent" in names:
        return "trace"
    return "arch"


def _entity_codes(idx, mod):
    """entity classes of a design module -> model codes (E first)"""
    import cohdl

    out = {}
    names = [n for n, v in vars(mod).items() if isinstance(v, type) and issubclass(v, cohdl.Entity) and v.__module__ == mod.__name__]
    for n in names:
        out[n] = getattr(mod, n)
    return out


def compile_with_option(std, E, opt):
    """one compilation step through the entry point / with the compiler options selected by `opt`"""
    import cohdl

    if opt == "":
        return std.VhdlCompiler.to_string(E)
    if opt == "res":
        return std.VhdlCompiler.to_string(E, additional_reserved_names=set(RESERVED_OPTION))
    if opt == "lib":
        return str(std.VhdlCompiler.to_vhdl_library(E).write())
    if opt == "ir":
        tmpl = std.VhdlCompiler.to_ir(E)
        return "IR contexts: " + ",".join(sorted(c.name() for c in tmpl.contexts()))
    if opt == "dir":
        import tempfile

        with tempfile.TemporaryDirectory() as d:
            files = std.VhdlCompiler.to_dir(E, os.path.join(d, "out"), mkdir=True)
            return "\n".join(os.path.basename(f) + "\n" + open(f).read() for f in sorted(files))
    if opt in ("tb0", "tb1"):
        cohdl.use_pretty_traceback(opt == "tb1")  # a user setting: persists, must not influence any output
        return std.VhdlCompiler.to_string(E)
    raise InfraError(f"unknown option step {opt}")


def history_task(item):
    """compile the designs of one history in THIS process; returns per step (verdict, text|errclass, phase, snapshot)"""
    hist, perturb = item
    import io
    import contextlib

    import_cohdl()
    from cohdl import std

    junk = []
    if perturb and perturb > 0:
        # move id() values / dict orders: allocate before anything is loaded or compiled
        junk = [object() for _ in range(perturb * 997)] + [{i: str(i)} for i in range(perturb * 101)]
    r = _refs()
    mods, classes = {}, {}
    out = []
    r["digest0"] = _digests()
    r["idk0"] = {k: set(d) for k, d in _id_keyed().items()}
    for name in hist:
        name_cfg, _, opt = name.partition("#")
        bname, _, cfg = name_cfg.partition("@")
        if bname not in mods:
            mods[bname] = load_design_module(POOL[name][0], tag=bname)
            for cname, cls in _entity_codes(0, mods[bname]).items():
                classes[f"{bname}/{cname}"] = cls
                r["static"][f"{bname}/{cname}"] = list(cls._cohdl_info.ports)
        if hasattr(mods[bname], "configure"):
            # same module, same entity class objects: only the module-level flags / class attributes change
            mods[bname].configure(**eval(f"dict({cfg})"))
        E = mods[bname].E
        buf = io.StringIO()
        try:
            with contextlib.redirect_stdout(buf), contextlib.redirect_stderr(buf):
                text = compile_with_option(std, E, opt)
            step = ["ok", text, None]
        except BaseException as e:  # noqa
            step = ["rej", _err_class(e), _phase_of(e.__traceback__)]
        step.append(_snapshot(r, classes))
        out.append(step)
        if perturb == -1:
            # churn mode: everything the finished compilation no longer references is freed now, so that the
            # addresses of its per-elaboration objects (bound methods, closures, helper objects) can be recycled
            import gc

            gc.collect()
    del junk
    return out


RUNNER = r'''
import sys, importlib.util
sys.path.insert(0, sys.argv[1])
import cohdl
from cohdl import std
spec = importlib.util.spec_from_file_location("cv_sub_design", sys.argv[2])
m = importlib.util.module_from_spec(spec)
sys.modules["cv_sub_design"] = m
spec.loader.exec_module(m)
if hasattr(m, "configure"):
    m.configure(**eval("dict(" + sys.argv[3] + ")"))
import io, contextlib
buf = io.StringIO()
try:
    with contextlib.redirect_stdout(buf), contextlib.redirect_stderr(buf):
        s = std.VhdlCompiler.to_string(m.E)
    sys.stdout.write("OK\n" + s)
except BaseException as e:
    sys.stdout.write("REJ\n" + type(e).__name__)
'''


def seed_task(item):
    """compile one design in a fresh interpreter under a given PYTHONHASHSEED"""
    name, seed = item
    d = scratch_dir() / f"sub_{os.getpid()}"
    d.mkdir(exist_ok=True)
    (d / "runner.py").write_text(RUNNER)
    bname, _, cfg = name.partition("@")
    (d / f"{bname}.py").write_text(POOL[name][0])
    env = dict(os.environ, PYTHONHASHSEED=str(seed))
    p = subprocess.run([sys.executable, str(d / "runner.py"), str(REPO), str(d / f"{bname}.py"), cfg], capture_output=True,
                       text=True, env=env, timeout=300)
    if p.returncode != 0 or not p.stdout:
        raise InfraError(f"subprocess for {name} seed {seed} failed: {p.stderr[-500:]}")
    head, _, body = p.stdout.partition("\n")
    return ["ok", body] if head == "OK" else ["rej", body]


POOL_RUNNER = r'''
import sys, json, importlib.util, io, contextlib
spec_file = sys.argv[2]
sys.path.insert(0, sys.argv[1])
import cohdl
from cohdl import std
jobs = json.load(open(spec_file))
mods, out = {}, []
for name, path, cfg in jobs:
    if path not in mods:
        mname = "cv_pool_%d" % len(mods)
        spec = importlib.util.spec_from_file_location(mname, path)
        m = importlib.util.module_from_spec(spec)
        sys.modules[mname] = m
        spec.loader.exec_module(m)
        mods[path] = m
    m = mods[path]
    if hasattr(m, "configure"):
        m.configure(**eval("dict(" + cfg + ")"))
    try:
        with contextlib.redirect_stdout(io.StringIO()), contextlib.redirect_stderr(io.StringIO()):
            out.append([name, "ok", std.VhdlCompiler.to_string(m.E)])
    except BaseException as e:
        out.append([name, "rej", type(e).__name__ + ": " + (str(e).splitlines() or [""])[0][:200]])
json.dump(out, sys.stdout)
'''


def seed_pool_task(item):
    """compile ALL given (accepted) designs one after the other in ONE fresh interpreter under a PYTHONHASHSEED"""
    names, seed = item
    import json

    d = scratch_dir() / f"pool_{os.getpid()}_{seed}"
    d.mkdir(exist_ok=True)
    (d / "runner.py").write_text(POOL_RUNNER)
    jobs = []
    for name in names:
        bname, _, cfg = name.partition("@")
        f = d / f"{bname}.py"
        if not f.exists():
            f.write_text(POOL[name][0])
        jobs.append([name, str(f), cfg])
    (d / "jobs.json").write_text(json.dumps(jobs))
    env = dict(os.environ, PYTHONHASHSEED=str(seed))
    p = subprocess.run([sys.executable, str(d / "runner.py"), str(REPO), str(d / "jobs.json")], capture_output=True,
                       text=True, env=env, timeout=600)
    if p.returncode != 0 or not p.stdout:
        raise InfraError(f"pool subprocess seed {seed} failed: {p.stderr[-800:]}")
    return {n: [v, t] for n, v, t in json.loads(p.stdout)}


# ---------------------------------------------------------------------------------------------------
# model side
# ---------------------------------------------------------------------------------------------------
class Codes:
    """symbolic names of the scripts -> numbers of the model (stable: sorted pool order)"""

    def __init__(self):
        self.names = {}
        self.ents = {}
        for name in POOL:
            for tok in POOL[name][3].split():
                if tok.startswith("<arch:"):
                    self.ents.setdefault(f"{name.partition('#')[0].partition('@')[0]}/{tok[6:]}", len(self.ents) + 1)
                for pre in ("<pfx:", "N:", "A:", "D:"):
                    if tok.startswith(pre):
                        self.names.setdefault(tok[len(pre):], len(self.names) + 1)
        for n in RESERVED_OPTION:
            self.names.setdefault(n, len(self.names) + 1)
        self.name_of = {v: k for k, v in self.names.items()}
        self.ent_of = {v: k for k, v in self.ents.items()}

    def script(self, name):
        out = []
        for tok in POOL[name][3].split():
            if tok.startswith("<arch:"):
                tok = f"<arch:{self.ents[name.partition('#')[0].partition('@')[0] + '/' + tok[6:]]}"
            elif tok.startswith("<pfx:"):
                tok = f"<pfx:{self.names[tok[5:]]}"
            elif tok.startswith("N:"):
                tok = f"N:{self.names[tok[2:]]}"
            elif tok.startswith("A:"):
                tok = f"A:{self.names[tok[2:]]}"
            elif tok.startswith("D:"):
                tok = f"D:{self.names[tok[2:]]}"
            elif tok == "<scope:R":
                tok = "<scope:" + ",".join(str(self.names[n]) for n in RESERVED_OPTION)
            out.append(tok)
        return " ".join(out)

    def canon_model(self, snap):
        """model snapshot -> the format of `_snapshot`"""
        out = []
        for f in snap.split(" "):
            k, _, v = f.partition("=")
            if k in ("apply", "loop") and v.isdigit():
                v = str(min(int(v), 1))
            elif k == "pfxs":
                v = ",".join("_".join(self.name_of[int(c)] if int(c) < 1000 else str(int(c) - 1000) for c in p.split("."))
                             for p in v.split(",") if p)
            elif k == "inst":
                v = ".".join(sorted((self.ent_of[int(c)] for c in v.split(".") if c)))
            elif k == "dyn":
                v = ",".join(sorted(f"{self.ent_of[int(q.split(':')[0])]}:{self.name_of[int(q.split(':')[1])]}" for q in v.split(",") if q))
            out.append(f"{k}={v}")
        return " ".join(out) + " ndp= idk="

    def canon_real(self, snap):
        out = []
        for f in snap.split(" "):
            k, _, v = f.partition("=")
            out.append(f"{k}={v}")
        return " ".join(out)

    @staticmethod
    def same(model, real):
        """model snapshot == real snapshot, fields masked on the real side ("?": the tree has no attribute of the
        audited name any more) excepted"""
        if model == real:
            return True
        ms, rs = model.split(" "), real.split(" ")
        return len(ms) == len(rs) and all(a == b or b.endswith("=?") and a.partition("=")[0] == b.partition("=")[0]
                                          for a, b in zip(ms, rs))


def cfg_bits(flags_fixed, lib=True):
    return "".join("1" if f in flags_fixed else "0" for f in STATE_FLAGS) + ("1" if lib else "0")


def model_histories(codes, hists, bits):
    reqs = [f"run {bits} 0 " + " ; ".join(codes.script(n) for n in h) for h in hists]
    ans = lean_io.query("C11", reqs)
    out = []
    for a in ans:
        if a == "bad-op":
            raise InfraError("model driver rejected a history script")
        steps = []
        for part in a.split(" | "):
            verdict, _, snap = part.partition(" ")
            steps.append((verdict.split(":")[0] + (":" + verdict.split(":")[1] if verdict.startswith("rej") else ""),
                          verdict, codes.canon_model(snap)))
        out.append(steps)
    return out


# ---------------------------------------------------------------------------------------------------
# the check
# ---------------------------------------------------------------------------------------------------
def real_histories(hists, perturb=0):
    res = fresh_map(history_task, [(h, perturb) for h in hists])
    out = []
    for h, r in zip(hists, res):
        if r[0] != "ok":
            raise InfraError(f"history task failed for {h}: {r[1]}\n{r[2] if len(r) > 2 else ''}")
        out.append(r[1])
    return out


_WARM = [False]


def warm_parent():
    """compile three accepted designs in THIS process (fills linecache / FunctionDefinition caches of std functions)"""
    if _WARM[0]:
        return
    _WARM[0] = True
    import io
    import contextlib

    import_cohdl()
    from cohdl import std

    for n in ("a_comb", "a_seq", "a_coro"):
        try:
            with contextlib.redirect_stdout(io.StringIO()), contextlib.redirect_stderr(io.StringIO()):
                std.VhdlCompiler.to_string(load_design_module(POOL[n][0], tag="warm").E)
        except BaseException:  # noqa
            pass  # reported through the pristine baseline of the same design


def verdict_of(step):
    return ("ok", hashlib.sha256(step[1].encode()).hexdigest()[:16]) if step[0] == "ok" else ("rej", None)


def effect(base_step, step):
    """how a step differs from the fresh-interpreter baseline of the same design (None = no difference)"""
    if base_step[0] == "ok" and step[0] == "rej":
        return "spurious-reject"
    if base_step[0] == "rej" and step[0] == "ok":
        return "spurious-accept"
    if base_step[0] == "ok" and step[1] != base_step[1]:
        return "bytes-differ"
    return None


def shrink_history(hist, i, base, eff, perturb=0):
    """smallest sub-history (ending in hist[i]) on which design hist[i] still shows the effect"""
    cur = list(hist[: i + 1])
    # most leaks need one culprit: try every [c, victim] first (one batch of forks)
    cands = [[c, cur[-1]] for c in dict.fromkeys(cur[:-1])]
    for c, r in zip(cands, real_histories(cands, perturb)):
        if effect(base[c[-1]], r[-1]) == eff:
            return c
    # delta debugging on the prefix: drop chunks (halves, quarters, .. single elements) while the effect persists
    chunk = max(1, (len(cur) - 1) // 2)
    rounds = 0
    while len(cur) > 1 and rounds < 10:
        rounds += 1
        starts = list(range(0, len(cur) - 1, chunk))
        cands = [cur[:j] + cur[min(j + chunk, len(cur) - 1):] for j in starts]
        res = real_histories(cands, perturb)
        for c, r in zip(cands, res):
            if len(c) < len(cur) and effect(base[c[-1]], r[-1]) == eff:
                cur = c
                break
        else:
            if chunk == 1:
                break
            chunk = max(1, chunk // 2)
            continue
        chunk = max(1, min(chunk, (len(cur) - 1) // 2 or 1))
    return cur


def first_line_diff(a, b):
    la, lb = a.split("\n"), b.split("\n")
    for k, (x, y) in enumerate(zip(la, lb)):
        if x != y:
            return k + 1, x.strip(), y.strip()
    return min(len(la), len(lb)) + 1, "<end>", "<end>"


def run(ctx: Ctx):
    rng = ctx.rng
    codes = Codes()
    ctx.rule = (f"histories = sequences of compilations over a pool of {len(ACCEPTED)} accepted and {len(REJECTED)} rejected designs (each rejected "
                "design crashes at a different point: architecture, tracing inside sequential context / prefix scope / "
                "always / nested call / handler scope / inline entity, IR generation inside state machine+loop(+call), "
                "usage check; `name@K=V` = the same entity class re-configured by module-level flags: dynamic ports "
                "(std.add_entity_port) present/absent/more, rejected after the ports were added, class attributes changed), "
                "all in one process; [X, X] for every design, every [rejected, X, X], every [v1, v2, v1] over the "
                "configurations of one class, [accepted, X] and random histories; non-trivial = history contains a rejected "
                "design before an accepted one or two different configurations of one class; distinct = distinct history")

    # ---- baseline: every design alone in a fresh process (twice: repeated compile)
    singles = [[n, n] for n in POOL]
    base_runs = real_histories(singles)
    base = {}
    pool_ok = True
    for (n, _), steps in zip(singles, base_runs):
        base[n] = steps[0]
        exp, phase = POOL[n][1], POOL[n][2]
        got = "ok" if steps[0][0] == "ok" else "reject"
        if got != exp or (exp == "reject" and steps[0][2] != phase):
            pool_ok = False
            ctx.report(f"pool:{n}", f"pool design {n} is expected to be {exp} ({phase}) in a fresh interpreter but is {got} ({steps[0][2]}, {steps[0][1][:60]})",
                       {"design": n, "source": POOL[n][0], "expected": [exp, phase], "observed": steps[0][:3]}, no_failing_input=True)
    ctx.obligation("pool: every design has the intended verdict and crash phase in a fresh interpreter", pool_ok,
                   detail=f"{len(POOL)} designs")

    # ---- histories (the parent is warmed up now: the one-time source parsing of the std library is not repeated in
    # every child; the baseline above was taken from the pristine interpreter)
    warm_parent()
    hists = []
    plain_acc = [a for a in ACCEPTED if "@" not in a and "#" not in a]
    if ctx.quick:
        # one fork costs far more than a compilation: instead of one process per [r, x, x] the designs x are chained
        # in chunks of 5 behind the rejected design (order shuffled per seed, the always-rejected canary first);
        # a failing chain is minimised to [culprit, victim] afterwards.  thorough = the full matrix.
        for r in REJECTED:
            xs = list(plain_acc)
            rng.shuffle(xs)
            for c in range(0, len(xs), 5):
                hists.append([r] + (["r_trace_noctx"] if c == 0 else []) + [y for x in xs[c:c + 5] for y in (x, x)])
    else:
        for r in REJECTED:
            for x in list(POOL):
                hists.append([r, x, x])
    # compiler options / entry points of a step (additional_reserved_names with names that other designs use, to_ir,
    # to_vhdl_library, to_dir, traceback setting), each followed by plain compilations of every plain design
    for o in OPTION_STEPS:
        if POOL[o][1] != "ok":
            continue  # rejected option steps are part of REJECTED above
        xs = list(plain_acc)
        rng.shuffle(xs)
        if ctx.quick:
            hists.append([o] + xs)
            hists.append([o, o] + xs[::-1])
        else:
            hists += [[o, x, x] for x in POOL]
    # per-class state: every ordered pair of configurations of the SAME entity class (flags toggled between the
    # compilations: dynamic ports present / absent / more, rejected in the architecture or in tracing after the ports
    # were added, class attributes changed), as [v1, v2, v1] (includes [v, v, v])
    groups = {}
    for n in POOL:
        groups.setdefault(n.partition("@")[0], []).append(n)
    churn_bases = {c.partition("@")[0] for c in CHURN}
    for b_, vs in groups.items():
        if len(vs) > 1 and b_ not in churn_bases:
            hists += [[v1, v2, v1] for v1 in vs for v2 in vs]
    pairs = [[a, x] for a in ACCEPTED for x in POOL if x != a]
    hists += pairs if not ctx.quick else rng.sample(pairs, 20)
    n_rand = ctx.scale(25, 600)
    max_len = ctx.scale(6, 12)
    names = list(POOL)
    for _ in range(n_rand):
        k = rng.randrange(3, max_len + 1)
        hists.append([rng.choice(names) for _ in range(k)])
    seen, uniq = set(), []
    for h in hists:
        if tuple(h) not in seen and h not in singles:
            seen.add(tuple(h))
            uniq.append(h)
    # the pristine [n, n] runs of the baseline are part of the checked histories (same class compiled twice, for
    # every design of the pool, against its own first compile)
    # churn: MANY compilations in one interpreter (garbage collected between them) of structurally similar designs whose
    # contexts are bound methods of short-lived helper objects, callable objects, closures, nested functions - accepted
    # and rejected configurations mixed, some chains interleaved with unrelated designs - so that addresses of freed
    # per-elaboration objects are recycled by later compilations
    churn = []
    for k in range(ctx.scale(6, 30)):
        n = ctx.scale(40, 100)
        alphabet = list(CHURN) + (["a_comb", "a_coro", "o_kwargs", "a_inline"] if k % 3 == 2 else [])
        chain = [rng.choice(alphabet) for _ in range(n)]
        churn.append(chain)
    churn_set = {tuple(c) for c in churn}
    real = base_runs + real_histories(uniq) + real_histories(churn, perturb=-1)
    hists = singles + uniq + churn

    # ---- (b) the property: verdict and bytes after every history prefix = fresh baseline
    found = {}
    for h, steps in zip(hists, real):
        nontrivial = (any(POOL[x][1] == "reject" for x in h[:-1]) and any(POOL[x][1] == "ok" for x in h[1:])) or \
            len({x for x in h if "@" in x or x in groups and len(groups[x]) > 1}) > 1
        ctx.case(key=">".join(h), nontrivial=nontrivial, kind=f"len={len(h)}",
                 sample={"history": h, "verdicts": [s[0] for s in steps]})
        for x in h:
            ctx.dist["design:" + x] += 1
        for i, (x, st) in enumerate(zip(h, steps)):
            eff = effect(base[x], st)
            if eff is None:
                continue
            found.setdefault((tuple(h[:i]), eff), []).append((h, i))
    reported_prefixes = {}
    origin = {}

    def is_subseq(a, b):
        it = iter(b)
        return all(x in it for x in a)

    # minimise: shortest failing histories first, one report per (minimal culprit prefix, effect); a longer failing
    # prefix that contains an already established culprit (same effect) is explained by it
    for (prefix, eff), occ in sorted(found.items(), key=lambda kv: (len(kv[0][0]), kv[0])):
        if len(reported_prefixes) >= 8:
            break  # enough minimal failing histories (each minimisation costs forks); the count of failing steps is in the evidence
        h, i = occ[0]
        known = [p for (p, e) in reported_prefixes if e == eff and is_subseq(p, prefix)]
        if known:
            for p in known[:1]:
                reported_prefixes[(p, eff)].extend(hh[ii] for hh, ii in occ)
            continue
        small = list(prefix) + [h[i]] if len(prefix) <= 1 else shrink_history(h, i, base, eff, -1 if tuple(h) in churn_set else 0)
        key = (tuple(small[:-1]), eff)
        reported_prefixes.setdefault(key, []).extend([small[-1]] + [hh[ii] for hh, ii in occ if tuple(hh[:ii]) == key[0]])
        origin.setdefault(key, (h, i))
    steps_of = {tuple(h): st for h, st in zip(hists, real)}
    max_reports = 8
    for (prefix, eff), victims in sorted(reported_prefixes.items(), key=lambda kv: (len(kv[0][0]), kv[0]))[:max_reports]:
        victims = sorted(set(victims))
        v = victims[0]
        small = list(prefix) + [v]
        gc_mode = any(is_subseq(small, list(c)) for c in churn_set)
        # effects that depend on recycled addresses do not show in every run: re-run the minimised history three times
        reruns = real_histories([small] * 3, -1 if gc_mode else 0)
        steps = next((r_ for r_ in reruns if effect(base[v], r_[-1]) == eff), None)
        flaky = ""
        if steps is None:
            # not reproduced: report the history on which it was observed, with the observed data
            h0, i0 = origin[(prefix, eff)]
            small, v = list(h0[: i0 + 1]), h0[i0]
            prefix = tuple(small[:-1])
            steps = steps_of[tuple(h0)][: i0 + 1]
            gc_mode = tuple(h0) in churn_set
            flaky = " [depends on the addresses the allocator hands out: observed once, the minimised history did not show it in 3 re-runs; replay = the observed history]"
        st = steps[-1]
        if eff == "bytes-differ":
            ln, x, y = first_line_diff(base[v][1], st[1])
            what = f"emitted VHDL of `{v}` differs from its fresh-interpreter output (line {ln}: `{x}` -> `{y}`)"
        elif eff == "spurious-reject":
            what = f"`{v}` (accepted in a fresh interpreter) is rejected ({st[1]})"
        else:
            what = f"`{v}` (rejected in a fresh interpreter: {base[v][2]}) is accepted"
        sig = f"history:{'>'.join(prefix)}:{eff}" if prefix else f"nondeterministic:{v}:{eff}"
        lead = f"after the history [{', '.join(prefix)}] " if prefix else "compiled as the FIRST design of another process (same interpreter, same source) "
        ctx.report(sig, f"{lead}{what}{flaky}; also affected as last design: {victims[1:6]}",
                   {"history": small, "effect": eff, "gc_between_steps": gc_mode, "sources": {n: POOL[n][0] for n in set(small)},
                    "expected": list(base[v][:3]) if base[v][0] == "rej" else ["ok", "sha256:" + verdict_of(base[v])[1]],
                    "observed": list(st[:3]) if st[0] == "rej" else ["ok", "sha256:" + verdict_of(st)[1]],
                    "globals_after_each_step": [s[3] for s in steps]})
    ctx.extra["failing_history_steps"] = sum(len(o) for o in found.values())
    ctx.obligation("property: verdict and bytes of every design after every history prefix = first compile in a fresh process",
                   not reported_prefixes, detail=f"{sum(len(o) for o in found.values())} failing steps; " + f"{len(hists)} histories, {sum(len(h) for h in hists)} compilations, "
                   f"{len(reported_prefixes)} minimal failing histories (at most {max_reports} reported)")

    # ---- (a) model state vs real globals after every step
    cand_cfgs = []
    for mask in range(32):
        fixed = {f for b, f in enumerate(STATE_FLAGS) if mask >> b & 1}
        cand_cfgs.append(fixed)
    cand_cfgs.sort(key=lambda s: -len(s))  # the fully repaired configuration first
    matching, first_mismatch = None, None
    for fixed in cand_cfgs:
        model = model_histories(codes, hists, cfg_bits(fixed))
        ok = True
        for h, ms, rs in zip(hists, model, real):
            for i, (m, r) in enumerate(zip(ms, rs)):
                rv = "ok" if r[0] == "ok" else "rej:" + r[1]
                if m[0] != rv or not codes.same(m[2], codes.canon_real(r[3])):
                    ok = False
                    if len(fixed) == len(STATE_FLAGS) and (first_mismatch is None or len(h) < len(first_mismatch[0])):
                        first_mismatch = (h, i, m, rv, codes.canon_real(r[3]))
                    break
            if not ok and not (len(fixed) == len(STATE_FLAGS)):
                break
        if ok:
            matching = fixed
            break
    all_fixed = matching is not None and len(matching) == len(STATE_FLAGS)
    if matching is None:
        detail = "no configuration of the model reproduces the globals of this tree"
    else:
        missing = [f for f in STATE_FLAGS if f not in matching]
        detail = "tree behaves like the model with " + ("all repairs" if not missing else "these repairs MISSING: " + ", ".join(FLAG_PATCH[f] for f in missing))
    ctx.extra["model_configuration_of_tree"] = detail
    ctx.notes.append(detail)
    ctx.obligation("correspondence: module globals and verdict class after every step of every history = Lean model (Cfg.fixed)",
                   all_fixed, detail=detail)
    if not all_fixed and not reported_prefixes and first_mismatch is not None:
        h, i, m, rv, rs = first_mismatch
        diff = [f"{a} (model) vs {b} (real)" for a, b in zip(m[2].split(" "), rs.split(" ")) if a != b]
        ctx.report(f"state:{'>'.join(h[:i + 1])}", f"after the history [{', '.join(h[:i + 1])}] the module globals differ from the model: "
                   f"verdict {m[0]} vs {rv}; {diff[:6]}", {"history": h[: i + 1], "model": [m[0], m[2]], "real": [rv, rs],
                                                           "broken": "correspondence C11 model state vs module globals (theorem C11.compile_preserves_clean speaks about the model)",
                                                           "sources": {n: POOL[n][0] for n in set(h[: i + 1])}}, no_failing_input=True)

    # ---- fresh interpreters under different hash seeds: one subprocess per seed compiles EVERY accepted design of the
    # pool (plain and re-configured; accepted designs leave a clean state); every text must equal the baseline and the
    # texts of all other seeds.  A difference is confirmed with the design ALONE under two seeds (= the replay).
    seeds = ["0", "1", "2", "3", str(rng.randrange(4, 2 ** 32))] if ctx.quick else \
        [str(k) for k in range(8)] + [str(rng.randrange(8, 2 ** 32)) for _ in range(4)]
    seed_designs = [n for n in ACCEPTED if "#" not in n]
    res = fork_map(seed_pool_task, [(seed_designs, sd) for sd in seeds], fresh=False)
    per_seed = {}
    for sd, r in zip(seeds, res):
        if r[0] != "ok":
            raise InfraError(f"seed pool task {sd}: {r[1]}")
        per_seed[sd] = r[1]
    seed_bad = 0
    for n in seed_designs:
        for sd in seeds:
            ctx.case(key=f"seed:{n}:{sd}", nontrivial=False, kind="hashseed")
        texts = {sd: per_seed[sd][n] for sd in seeds}
        groups_ = {}
        for sd in seeds:
            groups_.setdefault(tuple(texts[sd]), []).append(sd)
        differs_from_base = [sd for sd in seeds if effect(base[n], texts[sd] + [None]) is not None]
        if len(groups_) == 1 and not differs_from_base:
            continue
        seed_bad += 1
        if len(groups_) > 1:
            (sa, *_), (sb, *_) = list(groups_.values())[:2]
        else:
            sa, sb = seeds[0], "harness"
        # confirm with the design alone in two fresh interpreters
        alone = {q: seed_task((n, q)) for q in (sa, sb) if q != "harness"}
        confirmed = len({tuple(v) for v in alone.values()}) > 1 or (sb == "harness" and effect(base[n], alone[sa] + [None]) is not None)
        ta = texts[sa]
        tb = texts[sb] if sb != "harness" else list(base[n][:2])
        ln, x, y = first_line_diff(ta[1], tb[1]) if ta[0] == "ok" and tb[0] == "ok" else \
            (0, ta[0] + " " + ta[1][:60].replace("\n", " "), tb[0] + " " + tb[1][:60].replace("\n", " "))
        ctx.report(f"hashseed:{n}", f"`{n}` compiled in fresh interpreters gives different results with PYTHONHASHSEED={sa} and "
                   f"{'PYTHONHASHSEED=' + sb if sb != 'harness' else 'in the harness process'} (line {ln}: `{x}` -> `{y}`); "
                   f"{len(groups_)} distinct results over seeds {seeds}; "
                   f"{'confirmed with the design alone' if confirmed else 'NOT reproduced with the design alone (depends on the designs compiled before it in the subprocess)'}",
                   {"design": n, "source": POOL[n][0], "seeds": [sa, sb], "seeds_tried": seeds, "distinct_results": len(groups_),
                    "confirmed_alone": confirmed,
                    "expected": "identical bytes", "observed": {sd: ("sha256:" + hashlib.sha256(texts[sd][1].encode()).hexdigest()[:16]) for sd in seeds}})
    ctx.obligation("property: bytes of every accepted pool design identical in fresh interpreters under PYTHONHASHSEED " + "/".join(seeds),
                   seed_bad == 0, detail=f"{len(seeds)} subprocesses x {len(seed_designs)} designs")

    # ---- perturbed allocation
    pert_designs = plain_acc if ctx.quick else ACCEPTED + ACCEPTED
    pert = real_histories([[n] for n in pert_designs[:len(ACCEPTED)]], perturb=3) + \
        real_histories([[n] for n in pert_designs[len(ACCEPTED):]], perturb=11)
    pert_bad = 0
    for n, steps in zip(pert_designs, pert):
        ctx.case(key=f"alloc:{n}", nontrivial=False, kind="perturbed-allocation")
        eff = effect(base[n], steps[0])
        if eff is not None:
            pert_bad += 1
            ctx.report(f"allocation:{n}", f"`{n}` compiled after allocating unrelated objects (different id() values) gives a different result ({eff})",
                       {"design": n, "source": POOL[n][0], "effect": eff})
    ctx.obligation("property: bytes identical under perturbed allocation (id() values moved)", pert_bad == 0)


def replay(ctx, data):
    r = data["replay"]
    if "history" in r:
        h = r["history"]
        base = real_histories([[h[-1]]])[0][0]
        attempts = real_histories([h] * 5, -1 if r.get("gc_between_steps") else 0)
        steps = next((a_ for a_ in attempts if effect(base, a_[-1]) is not None), attempts[0])
        for n, s in zip(h, steps):
            print(f"  {n:20s} {s[0]} {'' if s[0] == 'ok' else s[1]}   globals: {s[3]}")
        eff = effect(base, steps[-1])
        print("last design alone :", base[0], "" if base[0] == "ok" else base[1])
        print("after the history :", steps[-1][0], "" if steps[-1][0] == "ok" else steps[-1][1], "->", eff or "no difference")
        if "model" in r:
            codes = Codes()
            m = model_histories(codes, [h], cfg_bits(set(STATE_FLAGS)))[0][-1]
            real = codes.canon_real(steps[-1][3])
            print("model:", m[0], m[2])
            print("real :", real)
            return 0 if (eff is None and codes.same(m[2], real)) else 1
        return 0 if eff is None else 1
    if "seeds_tried" in r:
        n = r["design"]
        seeds = [q for q in r.get("seeds", r["seeds_tried"]) if q != "harness"]
        if len(seeds) < 2:
            seeds = r["seeds_tried"]
        outs = {q: seed_task((n, q)) for q in seeds}
        ref = outs[seeds[0]]
        bad = 0
        for q in seeds:
            same = outs[q] == ref
            print(f"PYTHONHASHSEED={q}: {outs[q][0]} sha256:{hashlib.sha256(outs[q][1].encode()).hexdigest()[:16]}"
                  f"{'' if same else '   <- differs from seed ' + seeds[0]}")
            bad += not same
        return 1 if bad else 0
    if "design" in r:
        n = r["design"]
        base = real_histories([[n]])[0][0]
        st = real_histories([[n]], perturb=3)[0][0]
        d = effect(base, st)
        print(d or "identical")
        return 0 if d is None else 1
    print("unknown replay format")
    return 2
