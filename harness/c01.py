"""C01 - coroutine -> state machine translation is clock-accurate.

Per generated coroutine body:
  (1) certificate: the real IR (std.VhdlCompiler.to_ir) of the process is exported as a state machine over
      abstract actions / conditions and the Lean-verified checker `closed` (Props/C01.lean,
      C01.validate_sound) is evaluated on (source body, real state machine).  `ok` proves - for that
      design, for all input sequences of any length and every interpretation of actions/conditions - that
      the state machine and the reference coroutine semantics agree after every clock.
  (2) end to end: the emitted VHDL is executed by harness/vhdl_sim.py on generated input sequences and
      compared per clock with the reference semantics (Lean `refStep` with concrete actions).  Covers the
      back end, the state signal declaration / default and the IR export itself.
  (3) mirror: the Lean mirror of the open-blocks algorithm (Model/CoroCompile.lean `compileSM`, about which
      C01.compile_correct is proved for all programs) is run on the source body and its machine is compared
      with the machine exported from the real IR - complete structure, states by position.
A failing certificate / a mirror difference is not by itself a violation: the failing-input search runs (2) on
many more sequences (exhaustive short ones + random) and reports the minimised sequence; if none is found the
violation is reported with `no-failing-input-found`.
"""

import itertools

from .common import Ctx, fork_map, load_design_module, import_cohdl, InfraError
from . import lean_io
from .vhdl_sim import Design

NC = 5  # condition ports c0..c4
NO = 3  # output ports o0..o2


# ---------------------------------------------------------------------------------------------------
# program generator
# ---------------------------------------------------------------------------------------------------


class Gen:
    def __init__(self, rng, size, depth, allow_rt_while=True):
        self.rng, self.depth = rng, depth
        self.budget = size
        self.next_val = 1
        self.subs = []  # bodies of sub-coroutines

    def act(self):
        k = self.next_val
        self.next_val += 1
        return ("act", self.rng.randrange(NO), k)

    def cond(self):
        return self.rng.randrange(NC)

    def block(self, depth, in_loop, in_sub, awaited, top=False):
        """returns (stmts, awaited_after) ; awaited = an await certainly happened since loop iteration start"""
        rng = self.rng
        out = []
        n = rng.choice([1, 2, 2, 3, 3, 4]) if not top else rng.choice([2, 3, 4, 5, 6])
        for i in range(n):
            if self.budget <= 0:
                break
            self.budget -= 1
            r = rng.random()
            if r < 0.30:
                out.append(self.act())
            elif r < 0.45:
                out.append(("await", self.cond()))
                awaited = True
            elif r < 0.52:
                out.append(("await", "t"))
                awaited = True
            elif r < 0.70 and depth > 0:
                c = self.cond()
                t, at = self.block(depth - 1, in_loop, in_sub, awaited)
                e, ae = (self.block(depth - 1, in_loop, in_sub, awaited) if rng.random() < 0.6 else ([], awaited))
                out.append(("if", c, t, e))
                awaited = at and ae
                if ends(t) and ends(e) and e:
                    break
            elif r < 0.86 and r >= 0.84:
                # a loop whose condition is false at compile time: documented as a delay of exactly one clock
                out.append(("whileF", rng.choice(["False", "LIMIT > 4", "ENABLE and not True"]), [self.act()] if rng.random() < 0.5 else []))
                awaited = True
            elif r < 0.84 and depth > 0:
                c = self.cond() if rng.random() < 0.7 else "t"
                b, _ = self.block(depth - 1, True, in_sub, False)
                if c == "t" and not has_exit(b) and not in_loop:
                    # an endless loop: fine, but nothing after it is reachable
                    out.append(("while", c, b))
                    break
                out.append(("while", c, b))
                awaited = False if c != "t" else awaited
            elif r < 0.91 and in_loop:
                if rng.random() < 0.5:
                    out.append(("brk",))
                else:
                    # `continue` before any await of the iteration is rejected by cohdl (endless loop in one
                    # clock); generate it rarely on purpose (malformed stream)
                    if awaited or rng.random() < 0.15:
                        out.append(("cont",))
                    else:
                        out.append(("brk",))
                break
            elif r < 0.945 and in_sub:
                out.append(("ret",))
                break
            elif r < 0.97 and depth > 0 and len(self.subs) < 3 and not in_sub:
                body, _ = self.block(depth - 1, False, True, False)
                if not body:
                    body = [self.act()]
                self.subs.append(body)
                out.append(("call", len(self.subs) - 1))
                awaited = awaited or certainly_awaits(body)
            elif r < 0.98 and not in_loop and not in_sub and depth == self.depth:
                out.append(("awaitF",))
                break
            else:
                out.append(self.act())
        return out, awaited


def ends(b):
    return bool(b) and b[-1][0] in ("brk", "cont", "ret", "awaitF")


def has_exit(b):
    for s in b:
        if s[0] in ("brk", "ret"):
            return True
        if s[0] == "if" and (has_exit(s[2]) or has_exit(s[3])):
            return True
    return False


def certainly_awaits(b):
    return any(s[0] == "await" for s in b)


def gen_program(rng, size, depth):
    g = Gen(rng, size, depth)
    body, _ = g.block(depth, False, False, False, top=True)
    if not body:
        body = [g.act()]
    return {"body": body, "subs": g.subs}


def enum_programs(max_size):
    """small programs enumerated systematically (thorough tier): sequences over a fixed alphabet of shapes"""
    atoms = [
        [("act", 0, 1)],
        [("await", 0)],
        [("await", "t")],
        [("if", 1, [("act", 1, 2)], [])],
        [("if", 1, [("await", 2), ("act", 1, 3)], [("act", 2, 4)])],
        [("while", 3, [("act", 2, 5), ("await", 0)])],
        [("while", "t", [("await", 2), ("if", 4, [("brk",)], [("cont",)])])],
        [("while", 3, [("await", "t"), ("if", 4, [("cont",)], []), ("act", 0, 6)])],
        [("whileF", "False", [])],
    ]
    for n in range(1, max_size + 1):
        for combo in itertools.product(range(len(atoms)), repeat=n):
            body = []
            for i, a in enumerate(combo):
                body += renumber(atoms[a], i * 10)
            yield {"body": body, "subs": []}


def enum_sub_programs():
    """systematic shapes of awaited sub-coroutines with returns: if/else where each side is empty, returns always,
    returns conditionally (nested if) or awaits, followed by more statements; called first / after an action"""
    sides = [
        [],
        [("ret",)],
        [("act", 1, 1)],
        [("act", 1, 1), ("ret",)],
        [("if", 2, [("ret",)], [])],
        [("if", 2, [("ret",)], [("act", 2, 2)])],
        [("if", 2, [("act", 2, 2)], [("ret",)])],
        [("await", 3), ("ret",)],
        [("await", "t")],
    ]
    tails = [[("act", 0, 5)], [("await", 4), ("act", 0, 5)], []]
    out = []
    for a in sides:
        for b in sides:
            for t in tails:
                sub = [("if", 1, a, b)] + t
                for pre in ([], [("act", 2, 7)]):
                    body = pre + [("call", 0), ("act", 0, 9)]
                    out.append({"body": renumber_prog(body, 0), "subs": [renumber_prog(sub, 20)]})
    return out


def renumber_prog(stmts, off):
    """give every action a distinct value (so that a trace identifies the statement)"""
    cnt = [off]

    def go(b):
        r = []
        for st in b:
            if st[0] == "act":
                cnt[0] += 1
                r.append(("act", st[1], cnt[0]))
            elif st[0] == "if":
                r.append(("if", st[1], go(st[2]), go(st[3])))
            elif st[0] == "while":
                r.append(("while", st[1], go(st[2])))
            else:
                r.append(st)
        return r

    return go(stmts)


def renumber(stmts, off):
    out = []
    for s in stmts:
        if s[0] == "act":
            out.append(("act", s[1], s[2] + off))
        elif s[0] == "if":
            out.append(("if", s[1], renumber(s[2], off), renumber(s[3], off)))
        elif s[0] == "while":
            out.append(("while", s[1], renumber(s[2], off)))
        else:
            out.append(s)
    return out


# ---------------------------------------------------------------------------------------------------
# rendering: python source and Lean s-expression
# ---------------------------------------------------------------------------------------------------


def render_block(stmts, ind, ent):
    pad = "    " * ind
    lines = []
    for s in stmts:
        k = s[0]
        if k == "act":
            lines.append(f"{pad}{ent}.o{s[1]} <<= {s[2]}")
        elif k == "await":
            lines.append(f"{pad}await true" if s[1] == "t" else f"{pad}await {ent}.c{s[1]}")
        elif k == "awaitF":
            lines.append(f"{pad}await false")
        elif k == "if":
            lines.append(f"{pad}if {ent}.c{s[1]}:")
            lines += render_block(s[2], ind + 1, ent) or [f"{pad}    pass"]
            if s[3]:
                lines.append(f"{pad}else:")
                lines += render_block(s[3], ind + 1, ent)
        elif k == "while":
            lines.append(f"{pad}while True:" if s[1] == "t" else f"{pad}while {ent}.c{s[1]}:")
            lines += render_block(s[2], ind + 1, ent) or [f"{pad}    pass"]
        elif k == "whileF":
            lines.append(f"{pad}while {s[1]}:")
            lines += render_block(s[2], ind + 1, ent) or [f"{pad}    pass"]
        elif k == "brk":
            lines.append(f"{pad}break")
        elif k == "cont":
            lines.append(f"{pad}continue")
        elif k == "ret":
            lines.append(f"{pad}return")
        elif k == "call":
            lines.append(f"{pad}await sub{s[1]}({ent})")
    return lines


def render_source(prog):
    out = ["import cohdl", "from cohdl import Bit, Port, Unsigned, Null, true, false", "from cohdl import std", "",
           "LIMIT = 3", "ENABLE = True", ""]
    for i, b in enumerate(prog["subs"]):
        out.append(f"async def sub{i}(e):")
        out += render_block(b, 1, "e") or ["    pass"]
        out.append("")
    out.append("class W(cohdl.Entity):")
    out.append("    clk = Port.input(Bit)")
    for i in range(NC):
        out.append(f"    c{i} = Port.input(Bit)")
    for i in range(NO):
        out.append(f"    o{i} = Port.output(Unsigned[10], default=Null)")
    out.append("    def architecture(self):")
    out.append("        @std.sequential(std.Clock(self.clk))")
    out.append("        async def proc():")
    out += render_block(prog["body"], 3, "self")
    return "\n".join(out) + "\n"


def stmt_sexp(stmts, k, subs):
    """cons-style: every statement carries its continuation"""
    if not stmts:
        return k
    s, rest = stmts[0], stmts[1:]
    r = stmt_sexp(rest, k, subs)
    t = s[0]
    if t == "act":
        return f"(act {s[1] * 1000 + s[2]} {r})"
    if t == "await":
        return f"(await {s[1]} {r})"
    if t == "awaitF":
        return "awaitF"
    if t == "whileF":
        return f"(await t {r})"
    if t == "if":
        return f"(ite {s[1]} {stmt_sexp(s[2], 'skip', subs)} {stmt_sexp(s[3], 'skip', subs)} {r})"
    if t == "while":
        return f"(while {s[1]} {stmt_sexp(s[2], 'skip', subs)} {r})"
    if t == "brk":
        return "brk"
    if t == "cont":
        return "cont"
    if t == "ret":
        return "ret"
    if t == "call":
        return f"(call {stmt_sexp(subs[s[1]], 'skip', subs)} {r})"
    raise AssertionError(t)


def prog_sexp(prog):
    return stmt_sexp(prog["body"], "skip", prog["subs"])


def prog_stats(prog):
    st = {"n": 0, "await": 0, "while": 0, "if": 0, "depth": 0, "await_in_branch": 0, "exits": 0, "call": 0}

    def go(b, d, in_branch, subs_seen):
        st["depth"] = max(st["depth"], d)
        for s in b:
            st["n"] += 1
            if s[0] == "await":
                st["await"] += 1
                if in_branch:
                    st["await_in_branch"] += 1
            elif s[0] == "if":
                st["if"] += 1
                go(s[2], d + 1, True, subs_seen)
                go(s[3], d + 1, True, subs_seen)
            elif s[0] == "while":
                st["while"] += 1
                go(s[2], d + 1, True, subs_seen)
            elif s[0] == "whileF":
                st["await"] += 1
                if in_branch:
                    st["await_in_branch"] += 1
            elif s[0] in ("brk", "cont", "ret"):
                st["exits"] += 1
            elif s[0] == "call":
                st["call"] += 1
                go(prog["subs"][s[1]], d + 1, in_branch, subs_seen)

    go(prog["body"], 0, False, set())
    return st


# ---------------------------------------------------------------------------------------------------
# real compiler: IR export + VHDL
# ---------------------------------------------------------------------------------------------------


class Unsupported(Exception):
    pass


def export_sm(entity_cls):
    """walk the real IR of the (single) sequential context and return the state machine s-expression"""
    from cohdl import std
    from cohdl._core._ir import _repr as ir

    tmpl = std.VhdlCompiler.to_ir(entity_cls)
    ctxs = [c for c in tmpl.contexts() if isinstance(c, ir.Sequential)]
    if len(ctxs) != 1:
        raise Unsupported("expected one sequential context")
    temps = {}

    def find_case(block):
        for s in block._content:
            if isinstance(s, ir.CaseWhen):
                return s
            if isinstance(s, ir.CodeBlock):
                r = find_case(s)
                if r is not None:
                    return r
            if isinstance(s, ir.If):
                r = find_case(s._body)
                if r is not None:
                    return r
        return None

    def find_body(block):
        # no case statement: single-state machine, the clocked body is the state's code
        for s in block._content:
            if isinstance(s, ir.If) and type(s._test).__name__ == "Event":
                return s._body
            if isinstance(s, ir.CodeBlock):
                r = find_body(s)
                if r is not None:
                    return r
        return None

    root = ctxs[0].code()
    case = find_case(root)
    state_sig = case._value if case is not None else None
    # states are identified by their position among the enumerators (names are irrelevant); the power-up value of
    # the state signal must be state 0 of the certificate
    order = {}
    if case is not None:
        first = case._branches[0].cond
        mem = type(first).__members__
        members = list(mem.keys()) if hasattr(mem, "keys") else [m.name for m in mem]
        order = {nm: i for i, nm in enumerate(members)}
        init = state_sig._root.default() if hasattr(state_sig._root, "default") else None
        if init is not None and order.get(init.name, 0) != 0:
            raise Unsupported("initial state is not the first enumerator")

    def state_index(val):
        if val.name not in order:
            raise Unsupported(f"unknown state {val.name}")
        return order[val.name]

    def cond_of(test):
        name = getattr(test, "_name", None)
        tn = type(test).__name__
        if tn.startswith("Port") or (name and name.startswith("c") and name[1:].isdigit()):
            if not (name and name[0] == "c" and name[1:].isdigit()):
                raise Unsupported(f"condition on {name}")
            return int(name[1:])
        key = id(test._root) if hasattr(test, "_root") else id(test)
        if key in temps:
            return temps[key]
        raise Unsupported(f"test on undefined temporary {tn}")

    def conv(stmts, k):
        if not stmts:
            return k
        s, rest = stmts[0], stmts[1:]
        if isinstance(s, ir.CodeBlock):
            return conv(list(s._content) + rest, k)
        if isinstance(s, (ir.Nop, ir.Comment)):
            return conv(rest, k)
        if isinstance(s, ir.Boolean):
            arg = s._arg
            res = s._result
            temps[id(res._root) if hasattr(res, "_root") else id(res)] = cond_of(arg)
            return conv(rest, k)
        if isinstance(s, ir.If):
            c = cond_of(s._test)
            t = conv([s._body], "nil")
            e = conv([s._orelse], "nil")
            return f"(ite {c} {t} {e} {conv(rest, k)})"
        if isinstance(s, ir.SignalAssignment):
            tgt, src = s._target, s._source
            if state_sig is not None and tgt._root is state_sig._root:
                return f"(trans {state_index(src)} {conv(rest, k)})"
            nm = getattr(tgt, "_name", None)
            if not (nm and nm[0] == "o" and nm[1:].isdigit()) or tgt._ref_spec:
                raise Unsupported(f"assignment to {nm}")
            val = int(src) if not hasattr(src, "to_int") else src.to_int()
            return f"(act {int(nm[1:]) * 1000 + val} {conv(rest, k)})"
        raise Unsupported(f"statement {type(s).__name__}")

    if case is None:
        body = find_body(root)
        if body is None:
            raise Unsupported("no clocked body")
        return f"(sm {conv([body], 'nil')})"
    codes = {}
    for val, blk in case._branches:
        codes[state_index(val)] = conv([blk], "nil")
    if case._default is not None and not case._default.empty():
        raise Unsupported("default branch of the state case is not empty")
    n = max(codes) + 1
    return "(sm " + " ".join(codes.get(i, "nil") for i in range(n)) + ")"


def compile_task(src):
    """returns dict(ok, vhdl, sm | unsupported) or dict(ok=False, errtype, err)"""
    import_cohdl()
    from cohdl import std

    try:
        mod = load_design_module(src, "c01")
        text = std.VhdlCompiler.to_string(mod.W)
    except BaseException as e:  # noqa
        return {"ok": False, "errtype": type(e).__name__, "err": str(e)[-300:]}
    res = {"ok": True, "vhdl": text}
    try:
        # a second module object of the same source: the IR export must not depend on the first compilation
        mod2 = load_design_module(src, "c01x")
        res["sm"] = export_sm(mod2.W)
    except Unsupported as e:
        res["unsupported"] = str(e)
    return res


def export_task(src):
    import_cohdl()
    mod = load_design_module(src, "c01x")
    try:
        return {"sm": export_sm(mod.W)}
    except Unsupported as e:
        return {"unsupported": str(e)}


def sim_task(task):
    vhdl, seqs = task
    res = []
    for ins in seqs:
        d = Design(vhdl)
        d.set("clk", 0)
        for i in range(NC):
            d.set(f"c{i}", 0)
        d.initialise()
        out = []
        for m in ins:
            for i in range(NC):
                d.set(f"c{i}", (m >> i) & 1)
            d.settle()
            d.clock()
            out.append(",".join("-" if d.get(f"o{j}") is None else str(d.get(f"o{j}")) for j in range(NO)))
        res.append(";".join(out))
    return res


def gen_inputs(rng, n_seq, length):
    seqs = []
    for _ in range(n_seq):
        style = rng.random()
        p = rng.choice([0.2, 0.5, 0.8])
        seq = []
        for _ in range(length):
            if style < 0.15:
                seq.append((1 << NC) - 1)
            elif style < 0.25:
                seq.append(0)
            else:
                seq.append(sum((1 << i) for i in range(NC) if rng.random() < p))
        seqs.append(seq)
    return seqs


def first_diff(a, b):
    xa, xb = a.split(";"), b.split(";")
    for i, (x, y) in enumerate(zip(xa, xb)):
        if x != y:
            return i
    return None


def end_to_end(prog_sx, vhdl, seqs):
    """returns None or (seq, clock, expected, observed)"""
    model = lean_io.query("C01", [f"reftrace {prog_sx} | {NO} " + " ".join(map(str, s)) for s in seqs])
    impl = sim_task((vhdl, seqs))
    for s, m, i in zip(seqs, model, impl):
        if m != i:
            k = first_diff(m, i)
            if k is None:
                k = min(len(m.split(";")), len(i.split(";"))) - 1
            return (s[: k + 1], k, m.split(";")[k] if k < len(m.split(";")) else m, i.split(";")[k])
    return None


def shrink_seq(prog_sx, vhdl, seq):
    """minimise a failing input sequence: drop clocks, then clear bits"""
    def fails(s):
        return bool(s) and end_to_end(prog_sx, vhdl, [s]) is not None

    seq = list(seq)
    i = 0
    while i < len(seq):
        cand = seq[:i] + seq[i + 1 :]
        if fails(cand):
            seq = cand
        else:
            i += 1
    for i in range(len(seq)):
        for b in range(NC):
            if seq[i] >> b & 1:
                cand = list(seq)
                cand[i] &= ~(1 << b)
                if fails(cand):
                    seq = cand
    return seq


def prog_variants(prog):
    """one-step reductions of a program: drop a statement, replace a compound statement by one of its bodies"""
    def block_variants(b):
        for i, st in enumerate(b):
            yield b[:i] + b[i + 1 :]
            if st[0] == "if":
                yield b[:i] + st[2] + b[i + 1 :]
                yield b[:i] + st[3] + b[i + 1 :]
                for v in block_variants(st[2]):
                    yield b[:i] + [("if", st[1], v, st[3])] + b[i + 1 :]
                for v in block_variants(st[3]):
                    yield b[:i] + [("if", st[1], st[2], v)] + b[i + 1 :]
            elif st[0] == "while":
                for v in block_variants(st[2]):
                    yield b[:i] + [("while", st[1], v)] + b[i + 1 :]
            elif st[0] == "call":
                pass
    for v in block_variants(prog["body"]):
        yield {"body": v, "subs": prog["subs"]}
    for k, sb in enumerate(prog["subs"]):
        for v in block_variants(sb):
            if v:
                yield {"body": prog["body"], "subs": prog["subs"][:k] + [v] + prog["subs"][k + 1 :]}


def _valid(prog):
    """break/continue only inside loops (a reduction may have removed the loop)"""
    def ok(b, in_loop):
        for st in b:
            if st[0] in ("brk", "cont") and not in_loop:
                return False
            if st[0] == "if" and not (ok(st[2], in_loop) and ok(st[3], in_loop)):
                return False
            if st[0] == "while" and not ok(st[2], True):
                return False
        return True
    return ok(prog["body"], False) and all(ok(sb, False) for sb in prog["subs"])


def program_fails(prog, rng_seed=1):
    """does this program still show a property failure on the current tree? returns (seq, info) or None"""
    import random
    src, sx = render_source(prog), prog_sexp(prog)
    r = fork_map(compile_task, [src])[0]
    if r[0] != "ok" or not r[1]["ok"]:
        return None
    rr = random.Random(rng_seed)
    seqs = [list(q) for q in itertools.product([0, (1 << NC) - 1], repeat=6)] + gen_inputs(rr, 40, 40)
    try:
        bad = end_to_end(sx, r[1]["vhdl"], seqs)
    except Exception:
        return None
    if bad is None:
        return None
    return bad, src, sx, r[1]


def shrink_program(prog, budget=80):
    cur = prog
    progress = True
    while progress and budget > 0:
        progress = False
        for v in prog_variants(cur):
            if budget <= 0:
                break
            if not v["body"] or not _valid(v):
                continue
            budget -= 1
            if program_fails(v) is not None:
                cur = v
                progress = True
                break
    return cur


def run(ctx: Ctx):
    rng = ctx.rng
    ctx.rule = ("coroutine bodies generated over the grammar act | await cond | await true | await false | if/else | "
                "while cond / while True | break | continue | return | awaited sub-coroutine (nesting depth <= 4), "
                "conditions = input ports, actions = distinct constants written to output ports (a trace identifies which "
                "statements ran in which order); non-trivial = accepted by the real compiler, >= 2 states and an await "
                "inside a branch or loop; distinct = distinct source bodies")
    n_prog = ctx.scale(500, 4000)
    progs = [gen_program(rng, rng.choice([6, 10, 16, 24]), rng.choice([2, 3, 4])) for _ in range(n_prog)]
    subs_sys = enum_sub_programs()
    progs += subs_sys if not ctx.quick else [subs_sys[i] for i in sorted(rng.sample(range(len(subs_sys)), 150))]
    if not ctx.quick:
        progs += list(enum_programs(3))
    srcs = [render_source(p) for p in progs]
    sxs = [prog_sexp(p) for p in progs]

    compiled = fork_map(compile_task, srcs)
    accepted = []
    for p, src, sx, r in zip(progs, srcs, sxs, compiled):
        if r[0] != "ok":
            raise InfraError(f"compile task crashed: {r[1]}")
        r = r[1]
        if not r["ok"]:
            ctx.dist["rejected:" + r["errtype"]] += 1
            ctx.case(key=None, nontrivial=False, kind="rejected-by-compiler")
            continue
        accepted.append((p, src, sx, r["vhdl"], r))
    if len(accepted) < len(progs) // 3:
        raise InfraError(f"generator validity too low: {len(accepted)}/{len(progs)} accepted")

    reqs, todo = [], []
    for (p, src, sx, vhdl, e) in accepted:
        if "unsupported" in e:
            ctx.dist["ir-unsupported"] += 1
            todo.append((p, src, sx, vhdl, None))
            continue
        reqs.append(f"validate {sx} | {e['sm']}")
        reqs.append(f"compile {sx}")
        todo.append((p, src, sx, vhdl, e["sm"]))
    answers = iter(lean_io.query("C01", reqs))
    # designs the real compiler rejects: does the mirror reject them too?  (statistics only - rejecting is safe)
    rej = [sx for p, sx, r in zip(progs, sxs, compiled) if not r[1]["ok"]]
    for a in lean_io.query("C01", [f"compile {sx}" for sx in rej]) if rej else []:
        ctx.dist["rejected-by-compiler:mirror-" + ("rejects" if a == "reject" else "accepts")] += 1

    n_cert_ok = n_cert_fail = n_e2e_bad = 0
    n_mir_ok = n_mir_bad = 0
    n_seq, seq_len = ctx.scale(4, 12), ctx.scale(24, 120)
    sim_jobs, sim_meta = [], []
    for p, src, sx, vhdl, sm in todo:
        st = prog_stats(p)
        nstates = sm.count("(trans") if sm else 0
        nontrivial = (sm is not None and len(sm) > 10 and st["await"] >= 1 and (st["await_in_branch"] >= 1))
        ctx.case(key=sx, nontrivial=nontrivial, kind="accepted",
                 sample={"source": src.split("async def proc():")[1][:400], "stmt": sx[:300], "sm": (sm or "")[:300]})
        for k in ("await", "while", "if", "exits", "call"):
            ctx.dist[f"stmt:{k}"] += st[k]
        ctx.dist[f"depth:{st['depth']}"] += 1
        cert = next(answers) if sm is not None else "unsupported"
        mirror = next(answers) if sm is not None else None
        seqs = gen_inputs(rng, n_seq, seq_len)
        if mirror is not None:
            if mirror == "bad-op" or not (mirror == "reject" or mirror.startswith("(sm")):
                raise InfraError(f"model driver answered {mirror!r} to compile")
            if mirror == sm:
                n_mir_ok += 1
            else:
                n_mir_bad += 1
        if cert.startswith("ok"):
            n_cert_ok += 1
        elif cert.startswith("fail"):
            n_cert_fail += 1
        elif cert == "unsupported":
            pass
        else:
            raise InfraError(f"model driver answered {cert!r}")
        if (cert.startswith("fail") or (mirror is not None and mirror != sm)) and n_cert_fail + n_mir_bad <= 40:
            # failing-input search: many more sequences, exhaustive short ones first (bounded number of designs:
            # a change that breaks many designs is caught on the first ones)
            seqs = [list(s) for s in itertools.product([0, (1 << NC) - 1], repeat=8)] + gen_inputs(rng, 300, 80) + seqs
        sim_jobs.append((sx, vhdl, seqs))
        sim_meta.append((p, src, sx, vhdl, sm, cert, mirror))

    # model traces in one driver call, simulations in a worker pool, comparison here
    flat = [f"reftrace {sx} | {NO} " + " ".join(map(str, s)) for sx, _, seqs in sim_jobs for s in seqs]
    model_flat = iter(lean_io.query("C01", flat))
    sims = fork_map(sim_task, [(vhdl, seqs) for _, vhdl, seqs in sim_jobs], fresh=False, chunk=4)
    n_mir_reported = 0
    for (p, src, sx, vhdl, sm, cert, mirror), (_, _, seqs), r in zip(sim_meta, sim_jobs, sims):
        model = [next(model_flat) for _ in seqs]
        if r[0] != "ok":
            ctx.report("c01:sim-error:" + sx[:80], f"emitted VHDL of an accepted coroutine cannot be executed: {r[1]}",
                       {"source": src, "error": r[1]})
            n_e2e_bad += 1
            continue
        bad = None
        for sq, m, i in zip(seqs, model, r[1]):
            if m != i:
                k = first_diff(m, i)
                bad = (sq[: (k if k is not None else len(sq) - 1) + 1],)
                break
        if bad is not None:
            n_e2e_bad += 1
            if n_e2e_bad > 4:
                continue  # enough minimised replays; the count is reported in the obligation
            small = shrink_program(p)
            pf = program_fails(small)
            if pf is not None:
                (bad, src, sx, rr2) = pf
                vhdl, sm = rr2["vhdl"], rr2.get("sm")
            seq = shrink_seq(sx, vhdl, bad[0])
            b2 = end_to_end(sx, vhdl, [seq])
            ctx.report("c01:trace:" + sx[:200],
                       f"coroutine body and emitted design disagree at clock {b2[1]} of input sequence {seq}: expected outputs {b2[2]}, observed {b2[3]} (certificate: {cert})",
                       {"source": src, "stmt": sx, "sm": sm, "inputs": seq, "clock": b2[1], "expected": b2[2],
                        "observed": b2[3], "certificate": cert})
        else:
            if cert.startswith("fail"):
                ctx.report("c01:certificate:" + sx[:200],
                           f"certificate `closed` fails ({cert}) for an accepted coroutine but no failing input sequence was found",
                           {"source": src, "stmt": sx, "sm": sm, "certificate": cert,
                            "theorem": "C01.validate_sound hypothesis closed = true is not met for this design"},
                           no_failing_input=True)
            if mirror is not None and mirror != sm:
                n_mir_reported += 1
                if n_mir_reported <= 4:
                    ctx.report("c01:mirror:" + sx[:200],
                               "the state machine of the real IR differs from the Lean mirror of the open-blocks algorithm "
                               f"(compileSM) for an accepted coroutine but no failing input sequence was found (certificate: {cert})",
                               {"source": src, "stmt": sx, "sm": sm, "mirror": mirror, "certificate": cert,
                                "theorem": "C01.compile_correct speaks about compileSM; the correspondence compileSM = real "
                                           "state machine no longer holds for this design"},
                               no_failing_input=True)
    ctx.obligation("certificates: closed(source body, real state machine) = true for every accepted generated design",
                   n_cert_fail == 0, kind="certificate", detail=f"{n_cert_ok} ok, {n_cert_fail} failed, {ctx.dist['ir-unsupported']} not exportable")
    ctx.obligation("correspondence: Lean mirror compileSM(source body) = state machine exported from the real IR (complete "
                   "structure, states by position) for every accepted generated design",
                   n_mir_bad == 0, detail=f"{n_mir_ok} equal, {n_mir_bad} different; rejected designs: "
                   f"{ctx.dist['rejected-by-compiler:mirror-rejects']} rejected by the mirror too, "
                   f"{ctx.dist['rejected-by-compiler:mirror-accepts']} accepted by the mirror")
    ctx.obligation("correspondence: emitted VHDL trace = reference coroutine semantics on generated input sequences",
                   n_e2e_bad == 0, detail=f"{len(sim_jobs)} designs x {n_seq} sequences x {seq_len} clocks")
    ctx.extra["certificates_ok"] = n_cert_ok
    ctx.extra["mirror_equal"] = n_mir_ok
    ctx.extra["accepted"] = len(accepted)
    ctx.extra["generated"] = len(progs)
    if ctx.dist["ir-unsupported"] > len(accepted) // 4:
        raise InfraError("too many designs whose IR could not be exported")


def _e2e_task(job):
    sx, vhdl, seqs = job
    return end_to_end(sx, vhdl, seqs)


def replay(ctx, data):
    r = data["replay"]
    c = fork_map(compile_task, [r["source"]])[0][1]
    if not c["ok"]:
        print("rejected:", c)
        return 0
    if "inputs" not in r:
        e = fork_map(export_task, [r["source"]])[0][1]
        print(lean_io.query("C01", [f"validate {r['stmt']} | {e['sm']}"])[0])
        m = lean_io.query("C01", [f"compile {r['stmt']}"])[0]
        print("real  :", e["sm"])
        print("mirror:", m, "(equal)" if m == e["sm"] else "(DIFFERENT)")
        return 1
    bad = end_to_end(r["stmt"], c["vhdl"], [r["inputs"]])
    print("inputs:", r["inputs"], "->", bad)
    return 1 if bad else 0
