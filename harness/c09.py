"""C09 - compile-time evaluation of primitives agrees with the emitted run-time logic.

Two ties:
 (a) the Python objects of /repo (Bit / BitVector / Unsigned / Signed / Integer methods and cohdl.op) are run on
     every operator x operand-kind pair x width x value (exhaustive for small widths, random up to 128 bit) and
     compared with the Lean mirror `pyFold` (type, width, value, raised / not raised).  `pyFold` is proved equal
     to the documented semantics `spec` (Props/C09.lean) wherever the specification is defined.
 (b) the property itself: for the same operation a design with CONSTANT operands (folded by the tracer; the
     constant the emitted VHDL drives on the output port is read back through harness.vhdl_sim) is compared with
     the same design with PORT-fed operands simulated on those values, and with `spec`.
A difference between the folded constant and the simulated run-time logic is the violation; its failing input is
(operator, operand types, operand values).
"""

import itertools
import os

from .common import Ctx, compile_many, fork_map, import_cohdl
from . import lean_io
from .vhdl_sim import Design, VhdlTypeError, VhdlRuntimeError

BINOPS = ["add", "sub", "mul", "tdiv", "fdiv", "mod", "rem", "shl", "shr", "and", "or", "xor", "cat",
          "eq", "ne", "lt", "gt", "le", "ge"]
UNOPS = ["neg", "abs", "inv", "bool", "signed", "unsigned", "bitvector", "msb", "lsb"]
PAROPS = ["resize", "index", "slice", "msbn", "lsbn"]

PY_EXPR = {  # source text of the operation inside a traced function
    "add": "({a}) + ({b})", "sub": "({a}) - ({b})", "mul": "({a}) * ({b})", "tdiv": "op.truncdiv({a}, {b})",
    "fdiv": "({a}) // ({b})", "mod": "({a}) % ({b})", "rem": "op.rem({a}, {b})", "shl": "({a}) << ({b})",
    "shr": "({a}) >> ({b})", "and": "({a}) & ({b})", "or": "({a}) | ({b})", "xor": "({a}) ^ ({b})",
    "cat": "({a}) @ ({b})", "eq": "({a}) == ({b})", "ne": "({a}) != ({b})", "lt": "({a}) < ({b})",
    "gt": "({a}) > ({b})", "le": "({a}) <= ({b})", "ge": "({a}) >= ({b})",
    "neg": "-({a})", "abs": "abs({a})", "inv": "~({a})", "bool": "bool({a})", "signed": "({a}).signed",
    "unsigned": "({a}).unsigned", "bitvector": "({a}).bitvector", "msb": "({a}).msb()", "lsb": "({a}).lsb()",
    "resize": "({a}).resize({p1}, zeros={p2})", "index": "({a})[{p1}]", "slice": "({a})[{p1}:{p2}]",
    "msbn": "({a}).msb({p1})", "lsbn": "({a}).lsb({p1})",
}


# ---------------------------------------------------------------------------------------------------
# operand tokens:  u<w>:<n>  s<w>:<signed value>  v<w>:<n>  b:<0|1>  i:<int>  I:<int>  n  f
# ---------------------------------------------------------------------------------------------------

def tok_kind(t):
    return t[0]


def tok_width(t):
    return int(t[1:t.index(":")]) if t[0] in "usv" else None


def tok_value(t):
    return int(t[t.index(":") + 1:]) if ":" in t else None


def values_of(kind, w):
    if kind in "uv":
        return range(1 << w)
    return range(-(1 << (w - 1)), 1 << (w - 1))


def mk_obj(tok):
    """the cohdl object of /repo for an operand token (inside a worker, after import_cohdl())"""
    import cohdl
    k = tok[0]
    if tok == "n":
        return cohdl.Null
    if tok == "f":
        return cohdl.Full
    v = tok_value(tok)
    if k == "b":
        return cohdl.Bit(v)
    if k == "i":
        return v
    if k == "I":
        return cohdl.Integer(v)
    w = tok_width(tok)
    if k == "u":
        return cohdl.Unsigned[w](v)
    if k == "s":
        return cohdl.Signed[w](v)
    return cohdl.BitVector[w](format(v, f"0{w}b"))


def canon(r):
    """canonical token of a result object: type, width, value"""
    import cohdl
    if r is NotImplemented:
        return "err"
    if isinstance(r, (cohdl.Unsigned, cohdl.Signed)):
        k = "u" if isinstance(r, cohdl.Unsigned) else "s"
        if type(r) is not (cohdl.Unsigned if k == "u" else cohdl.Signed)[r.width]:
            return f"?{type(r)}"
        if any(str(b) not in "01" for b in r):
            return f"{k}{r.width}:U"
        return f"{k}{r.width}:{r.to_int()}"
    if isinstance(r, cohdl.BitVector):
        if type(r) is not cohdl.BitVector[r.width]:
            return f"?{type(r)}"
        s = str(r)
        if any(c not in "01" for c in s):
            return f"v{r.width}:U"
        return f"v{r.width}:{int(s, 2)}"
    if isinstance(r, cohdl.Bit):
        return f"b:{str(r)}"
    if isinstance(r, bool):
        return f"B:{int(r)}"
    if isinstance(r, int):
        return f"i:{r}"
    if isinstance(r, cohdl.Integer):
        return f"I:{r.get_value()}"
    if r is cohdl.Null:
        return "n"
    if r is cohdl.Full:
        return "f"
    return f"?{type(r).__name__}"


def py_apply(form, o, objs, params):
    import cohdl
    from cohdl import op
    import operator
    if form == "bin":
        a, b = objs
        f = {"add": op.add, "sub": op.sub, "mul": op.mul, "tdiv": op.truncdiv, "fdiv": op.floordiv, "mod": op.mod,
             "rem": op.rem, "shl": op.lshift, "shr": op.rshift, "and": op.and_, "or": op.or_, "xor": op.xor,
             "cat": op.matmul, "eq": op.eq, "ne": op.ne, "lt": op.lt, "gt": op.gt, "le": op.le, "ge": op.ge}[o]
        return f(a, b)
    if form == "un":
        (a,) = objs
        if o == "neg":
            return op.neg(a)
        if o == "abs":
            return abs(a)
        if o == "inv":
            return op.inv(a)
        if o == "bool":
            return bool(a)
        if o in ("signed", "unsigned", "bitvector"):
            return getattr(a, o)
        if o == "msb":
            return a.msb()
        if o == "lsb":
            return a.lsb()
    if form == "par":
        (a,) = objs
        p1, p2 = params
        if o == "resize":
            return a.resize(p1, zeros=p2)
        if o == "index":
            return a[p1]
        if o == "slice":
            return a[p1:p2]
        if o == "msbn":
            return a.msb(p1)
        if o == "lsbn":
            return a.lsb(p1)
    raise AssertionError(f"unknown operation {form} {o}")


def split_line(line):
    f = line.split(" ")
    form = f[0] if f[0] != "binold" else "bin"
    if form == "bin":
        return form, f[1], f[2:4], ()
    if form == "un":
        return form, f[1], f[2:3], ()
    return form, f[1], f[2:3], (int(f[3]), int(f[4]))


def py_eval_line(line):
    form, o, toks, params = split_line(line)
    try:
        objs = [mk_obj(t) for t in toks]
    except BaseException as e:  # noqa
        return "bad-operand"
    try:
        r = py_apply(form, o, objs, params)
        res = canon(r)
    except BaseException:  # noqa
        return "err"
    # the operation must not modify its operands
    for t, ob in zip(toks, objs):
        if t not in ("n", "f") and canon(ob) != t:
            return res + "+mutated"
    return res


def _py_chunk(lines):
    import_cohdl()
    return [py_eval_line(l) for l in lines]


# ---------------------------------------------------------------------------------------------------
# case generation
# ---------------------------------------------------------------------------------------------------

def vec_types(maxw):
    return [(k, w) for k in "usv" for w in range(1, maxw + 1)]


def operand_tokens(kind, w, extra_ints=None):
    return [f"{kind}{w}:{v}" for v in values_of(kind, w)]


def int_tokens(lo, hi, prefix="i"):
    return [f"{prefix}:{v}" for v in range(lo, hi + 1)]


ARITH = ("add", "sub", "mul", "tdiv", "mod", "rem", "shl", "shr")


def gen_exhaustive(maxw, maxw_other=None):
    """all operators x kind pairs x widths <= maxw (arithmetic and shifts) / maxw_other (bitwise, concatenation,
    comparisons, unary, indexing) x all values x both orders, ints in and slightly out of range"""
    maxw_other = maxw_other or maxw
    for o in BINOPS:
        vts = vec_types(maxw if o in ARITH else maxw_other)
        # vector x vector
        for (ka, wa) in vts:
            ta = operand_tokens(ka, wa)
            for (kb, wb) in vts:
                interesting = (ka == kb) or o in ("cat", "shl", "shr", "eq", "ne")
                if not interesting and (wa > 2 or wb > 2):
                    continue  # mixed kinds are rejected for every value; small widths are enough
                tb = operand_tokens(kb, wb)
                for a in ta:
                    for b in tb:
                        yield f"bin {o} {a} {b}"
            # vector x {int, Integer, Bit, Null, Full} in both orders
            lo, hi = -(1 << wa) - 1, (1 << wa) + 1
            others = int_tokens(lo, hi, "i") + int_tokens(max(lo, -3), min(hi, 3), "I") + ["b:0", "b:1", "n", "f"]
            for a in ta:
                for b in others:
                    yield f"bin {o} {a} {b}"
                    yield f"bin {o} {b} {a}"
        # scalars among themselves
        scal = ["b:0", "b:1", "n", "f"] + int_tokens(-5, 5, "I")
        for a in scal:
            for b in scal:
                if {a[0], b[0]} <= {"b", "I"} and "I" in (a[0], b[0]) and o in ("and", "or", "xor"):
                    continue  # Bit <op> Integer reads a private attribute of Integer; Integer bitwise is Python's own
                yield f"bin {o} {a} {b}"
        if o in ("and", "or", "xor"):
            continue  # bitwise operators on Integer / int are Python's own (not modelled; VHDL integers have none)
        for a in int_tokens(-5, 5, "I"):
            for b in int_tokens(-5, 5, "i"):
                yield f"bin {o} {a} {b}"
                yield f"bin {o} {b} {a}"
        if o in ("tdiv", "rem"):
            for a in int_tokens(-9, 9, "i"):
                for b in int_tokens(-9, 9, "i"):
                    if tok_value(b) != 0:
                        yield f"bin {o} {a} {b}"
    vts = vec_types(maxw_other)
    for o in UNOPS:
        for (ka, wa) in vts:
            for a in operand_tokens(ka, wa):
                yield f"un {o} {a}"
        for a in ["b:0", "b:1"] + int_tokens(-3, 3, "I"):
            yield f"un {o} {a}"
    for (ka, wa) in vts:
        for a in operand_tokens(ka, wa):
            for p1 in range(-1, wa + 2):
                yield f"par index {a} {p1} 0"
                yield f"par msbn {a} {p1} 0"
                yield f"par lsbn {a} {p1} 0"
                for p2 in range(0, wa + 2):
                    yield f"par slice {a} {p1} {p2}"
            for t in range(1, wa + 4):
                for z in range(0, 3):
                    yield f"par resize {a} {t} {z}"


def rand_vec(rng, kind, w):
    mode = rng.random()
    if mode < 0.15:
        v = rng.choice([0, 1, (1 << w) - 1, 1 << (w - 1), (1 << (w - 1)) - 1])
    elif mode < 0.3:
        v = rng.getrandbits(w) >> rng.randrange(w)
    else:
        v = rng.getrandbits(w)
    v &= (1 << w) - 1
    if kind == "s" and v >= 1 << (w - 1):
        v -= 1 << w
    return f"{kind}{w}:{v}"


def rand_int_for(rng, kind, w):
    lo, hi = (0, (1 << w) - 1) if kind == "u" else (-(1 << (w - 1)), (1 << (w - 1)) - 1)
    m = rng.random()
    if m < 0.2:
        return rng.choice([lo, hi, 0, 1, -1 if kind == "s" else 1, hi - 1])
    if m < 0.4:
        return rng.randint(lo, hi) >> rng.randrange(w) if kind == "u" else rng.randint(lo, hi) // (1 << rng.randrange(w))
    return rng.randint(lo, hi)


def gen_random_wide(rng, count):
    """wide operands (up to 128 bit), in-range ints; div-like operators are biased to large quotients so that
    an inexact (floating point) division is seen"""
    out = []
    for _ in range(count):
        o = rng.choice(BINOPS)
        k = rng.choice("us") if o not in ("and", "or", "xor", "cat", "eq", "ne") else rng.choice("usv")
        wa = rng.choice([5, 7, 8, 16, 31, 32, 33, 53, 54, 55, 63, 64, 65, 100, 128])
        same = o in ("and", "or", "xor") or rng.random() < 0.4
        wb = wa if same else rng.choice([1, 2, 3, 8, 16, 32, 54, 64, 65, 128])
        a = rand_vec(rng, k, wa)
        form = rng.random()
        if o in ("shl", "shr"):
            b = rng.choice([f"i:{rng.randrange(0, wa + 3)}", f"u8:{rng.randrange(0, min(255, wa + 3))}"])
            out.append(f"bin {o} {a} {b}")
        elif form < 0.6 or k == "v" or o == "cat":
            out.append(f"bin {o} {a} {rand_vec(rng, k, wb)}")
        elif form < 0.8:
            out.append(f"bin {o} {a} i:{rand_int_for(rng, k, wa)}")
        else:
            out.append(f"bin {o} i:{rand_int_for(rng, k, wa)} {a}")
    for _ in range(count // 8):
        a = rand_vec(rng, rng.choice("usv"), rng.choice([8, 33, 64, 128]))
        wa = tok_width(a)
        out.append(f"un {rng.choice(UNOPS)} {a}")
        hi = rng.randrange(wa)
        out.append(f"par slice {a} {hi} {rng.randrange(hi + 1)}")
        out.append(f"par index {a} {rng.randrange(wa)} 0")
        out.append(f"par resize {a} {wa + rng.randrange(0, 70)} 0")
    return out


# ---------------------------------------------------------------------------------------------------
# tie (b): constant design vs port-fed design
# ---------------------------------------------------------------------------------------------------

HEADER = '''
import cohdl
from cohdl import std, Bit, BitVector, Unsigned, Signed, Integer, Port, op, Null, Full
'''


def type_src(tok_or_res):
    k = tok_or_res[0]
    if k in "usv":
        w = tok_width(tok_or_res)
        return {"u": "Unsigned", "s": "Signed", "v": "BitVector"}[k] + f"[{w}]"
    if k in "bB":
        return "Bit"
    if k in "iI":
        return "Integer"
    raise ValueError(tok_or_res)


def const_src(tok):
    k = tok[0]
    if tok == "n":
        return "Null"
    if tok == "f":
        return "Full"
    v = tok_value(tok)
    if k == "b":
        return f"Bit({v})"
    if k == "i":
        return f"({v})"
    if k == "I":
        return f"Integer({v})"
    w = tok_width(tok)
    if k == "u":
        return f"Unsigned[{w}]({v})"
    if k == "s":
        return f"Signed[{w}]({v})"
    return f'BitVector[{w}]("{format(v, f"0{w}b")}")'


def is_port_kind(tok):
    return tok[0] in "usvbI"


def case_expr(line, names):
    form, o, toks, params = split_line(line)
    d = {"a": names[0]}
    if len(names) > 1:
        d["b"] = names[1]
    if params:
        d["p1"], d["p2"] = params
    return PY_EXPR[o].format(**d)


def const_design(cases):
    """cases: [(line, result_token)] -> source of an entity whose outputs o<i> are driven by the folded constants"""
    src = [HEADER]
    for i, (line, _res) in enumerate(cases):
        _form, _o, toks, _p = split_line(line)
        for j, t in enumerate(toks):
            src.append(f"k{i}_{j} = {const_src(t)}")
    src.append("class E(cohdl.Entity):")
    for i, (_line, res) in enumerate(cases):
        src.append(f"    o{i} = Port.output({type_src(res)})")
    src.append("    def architecture(self):")
    src.append("        @std.concurrent")
    src.append("        def logic():")
    for i, (line, _res) in enumerate(cases):
        _form, _o, toks, _p = split_line(line)
        src.append(f"            self.o{i} <<= {case_expr(line, [f'k{i}_{j}' for j in range(len(toks))])}")
    return "\n".join(src) + "\n"


def shape_of(line):
    """operation with the values of port-fed operands abstracted away: (form, op, operand types, literal operands, params)"""
    form, o, toks, params = split_line(line)
    return (form, o, tuple((t[:t.index(":")] if is_port_kind(t) else t) for t in toks), params)


def port_design(shapes):
    """shapes: [(shape, result token)] -> entity with input ports p<s>_<j> and one output o<s> per shape"""
    src = [HEADER, "class E(cohdl.Entity):"]
    body = []
    for s, (shape, res_type) in enumerate(shapes):
        form, o, tys, params = shape
        names = []
        for j, t in enumerate(tys):
            if t[0] in "usvbI" and ":" not in t:
                src.append(f"    p{s}_{j} = Port.input({type_src(t + ':0')})")
                names.append(f"self.p{s}_{j}")
            else:
                names.append(const_src(t))
        src.append(f"    o{s} = Port.output({type_src(res_type)})")
        line = " ".join([form, o] + ["x"] * len(tys) + [str(p) for p in params])
        body.append(f"            self.o{s} <<= {case_expr(line, names)}")
    src.append("    def architecture(self):")
    src.append("        @std.concurrent")
    src.append("        def logic():")
    return "\n".join(src + body) + "\n"


def res_value(tok):
    """what Design.get returns for a port holding the result token"""
    return None if tok.endswith(":U") else tok_value(tok)


def _sim_const(task):
    vhdl, n = task
    d = Design(vhdl)
    d.initialise()
    d.settle()
    return [d.get(f"o{i}") for i in range(n)]


def _sim_port(task):
    """valuations: per shape a list of [(j, value)]; returns per shape the list of output values"""
    vhdl, valuations = task
    d = Design(vhdl)
    steps = max(len(v) for v in valuations)
    out = [[] for _ in valuations]
    first = True
    for t in range(steps):
        for s, vals in enumerate(valuations):
            for j, v in vals[min(t, len(vals) - 1)]:
                d.set(f"p{s}_{j}", v)
        if first:
            d.initialise()
            first = False
        d.settle()
        for s, vals in enumerate(valuations):
            if t < len(vals):
                out[s].append(d.get(f"o{s}"))
    return out


def _sim_any(task):
    try:
        return _sim_const(task[1:]) if task[0] == "const" else _sim_port(task[1:])
    except (VhdlTypeError, VhdlRuntimeError) as e:
        return f"{type(e).__name__}: {e}"


def port_valuation(line):
    _form, _o, toks, _p = split_line(line)
    return [(j, tok_value(t)) for j, t in enumerate(toks) if is_port_kind(t)]


def kinds_sig(line):
    form, o, toks, params = split_line(line)
    return f"{o}:" + ",".join(t[0] for t in toks)


def size_key(line):
    form, o, toks, params = split_line(line)
    return (sum((tok_width(t) or 0) for t in toks), sum(abs(tok_value(t) or 0) for t in toks), line)


def _bundle_batch(jobs):
    """jobs: [(src, kind, arg)] compiled and simulated one after the other in this freshly forked process"""
    from .common import compile_task
    out = []
    for src, kind, arg in jobs:
        c = compile_task((src, "E"))
        if not c["ok"]:
            out.append(("rejected", f"{c['errtype']}: {c['err'][-160:]}"))
        else:
            out.append(("ok", _sim_any((kind, c["vhdl"], arg))))
    return out


def _run_bundles(bundles, mk_src, mk_task):
    """compile + simulate bundles; a bundle that is rejected or not executable is bisected down to single items.
    Returns {item index: value | error string}."""
    out = {}
    todo = bundles
    while todo:
        jobs = []
        for b in todo:
            kind, _v, arg = mk_task(None, [it for _i, it in b])
            jobs.append((mk_src([it for _i, it in b]), kind, arg))
        tasks = [jobs[i:i + 2] for i in range(0, len(jobs), 2)]
        res = []
        for r in fork_map(_bundle_batch, tasks, fresh=True):
            if r[0] != "ok":
                raise RuntimeError(f"design worker failed: {r[1]}")
            res.extend(r[1])
        errors = {}
        for bi, (st, r) in enumerate(res):
            if st == "rejected":
                errors[bi] = "rejected: " + r
            elif isinstance(r, str):
                errors[bi] = f"not-executable: {r}"
            else:
                for (i, _it), v in zip(todo[bi], r):
                    out[i] = v
        nxt = []
        for bi, msg in errors.items():
            if len(todo[bi]) == 1:
                out[todo[bi][0][0]] = msg
            else:
                h = len(todo[bi]) // 2      # bisect towards the offending item(s)
                nxt.extend([todo[bi][:h], todo[bi][h:]])
        todo = nxt
    return out


def run_tie_b(ctx, cases, label):
    """cases: [(line, fold_result_token, spec_token)] with a defined spec and a successful fold.
    Returns list of disagreements (line, kind, detail)."""
    by_shape = {}
    for line, res, spec in cases:
        by_shape.setdefault((shape_of(line), type_src(spec)), []).append((line, res, spec))
    shapes = list(by_shape.items())
    # constant designs: bundles of <= 100 cases; port designs: bundles of <= 12 shapes
    flat = [(line, spec) for _k, cs in shapes for line, _r, spec in cs]
    cb = [list(enumerate(flat))[i:i + 100] for i in range(0, len(flat), 100)]
    cres = _run_bundles(cb, const_design, lambda vhdl, items: ("const", vhdl, len(items)))
    pitems = [((shape, cs[0][2]), [port_valuation(l) for l, _r, _s in cs]) for (shape, _rty), cs in shapes]
    pb = [list(enumerate(pitems))[i:i + 12] for i in range(0, len(pitems), 12)]
    pres = _run_bundles(pb, lambda items: port_design([sh for sh, _v in items]),
                        lambda vhdl, items: ("port", vhdl, [v for _sh, v in items]))
    problems = []
    n_cmp = 0
    k = 0
    for si, ((shape, rty), cs) in enumerate(shapes):
        pr = pres[si]
        if isinstance(pr, str):
            problems.append((min((l for l, _r, _s in cs), key=size_key), "port-design-" + pr.split(":")[0], pr, shape))
            pr = None
        for i, (line, res, spec) in enumerate(cs):
            cv = cres[k]
            k += 1
            pv = pr[i] if pr is not None else "-"
            sv = res_value(spec)
            n_cmp += 1
            ctx.dist[f"{label}:{split_line(line)[1]}"] += 1
            if isinstance(cv, str):
                problems.append((line, "const-design-" + cv.split(":")[0], cv, shape))
                cv = "-"
            if cv != "-" and pv != "-" and cv != pv:
                problems.append((line, "fold-differs-from-runtime", f"constant design drives {cv}, port-fed design computes {pv} (documented value {sv})", shape))
            elif pv != "-" and pv != sv:
                problems.append((line, "runtime-differs-from-spec", f"port-fed design computes {pv}, documented value {sv}", shape))
            elif cv != "-" and cv != sv:
                problems.append((line, "fold-differs-from-spec", f"constant design drives {cv}, documented value {sv}", shape))
    return problems, n_cmp, len(shapes)


def replay_sources(line, spec_tok):
    return {"constant_design": const_design([(line, spec_tok)]), "port_design": port_design([(shape_of(line), spec_tok)]),
            "port_values": port_valuation(line)}


def confirm_case(line, spec_tok):
    """(b) on one case: returns (const_value | error string, port_value | error string)"""
    srcs = replay_sources(line, spec_tok)
    cc, pc = compile_many([(srcs["constant_design"], "E"), (srcs["port_design"], "E")])
    if cc["ok"]:
        try:
            cv = _sim_const((cc["vhdl"], 1))[0]
        except (VhdlTypeError, VhdlRuntimeError) as e:
            cv = f"{type(e).__name__}"
    else:
        cv = f"rejected:{cc['errtype']}"
    if pc["ok"]:
        try:
            pv = _sim_port((pc["vhdl"], [[port_valuation(line)]]))[0][0]
        except (VhdlTypeError, VhdlRuntimeError) as e:
            pv = f"{type(e).__name__}"
    else:
        pv = f"rejected:{pc['errtype']}"
    return cv, pv, srcs


# ---------------------------------------------------------------------------------------------------
# tie (b), conversions: `<target> <<= <source>` where the target is an object of every declared kind, one of
# its `.unsigned` / `.signed` / `.bitvector` views, a slice (optionally viewed) or an element, and the source is
# a compile-time constant (folded into a literal by the back end) or a port holding the same value.
# Third leg: the Python object model (`_assign` on the same view of a Python-side object).
# case line:  conv <K><W> <view> <hi> <lo> <src-token>      (hi = lo = -1: whole object; view `elem`: element hi)
# ---------------------------------------------------------------------------------------------------

VIEWS = ["plain", "unsigned", "signed", "bitvector"]


def conv_parse(line):
    f = line.split(" ")
    return f[1][0], int(f[1][1:]), f[2], int(f[3]), int(f[4]), f[5]


def conv_form(line):
    """target shape + source type; literal-only sources (int, Null, Full) of one target share the form `lit`"""
    k, w, view, hi, lo, src = conv_parse(line)
    return (k, w, view, hi, lo, src[:src.index(":")] if is_port_kind(src) else "lit")


def conv_target(name, view, hi, lo):
    if view == "elem":
        return f"{name}[{hi}]"
    t = name + (f"[{hi}:{lo}]" if hi >= 0 else "")
    return t if view == "plain" else f"{t}.{view}"


def conv_const_design(lines):
    src = [HEADER]
    for i, line in enumerate(lines):
        src.append(f"k{i} = {const_src(conv_parse(line)[5])}")
    src.append("class E(cohdl.Entity):")
    for i, line in enumerate(lines):
        k, w, *_ = conv_parse(line)
        src.append(f"    o{i} = Port.output({type_src(f'{k}{w}:0')})")
    src += ["    def architecture(self):", "        @std.concurrent", "        def logic():"]
    for i, line in enumerate(lines):
        k, w, view, hi, lo, _s = conv_parse(line)
        src.append(f"            {conv_target(f'self.o{i}', view, hi, lo)} <<= k{i}")
    return "\n".join(src) + "\n"


def conv_port_design(forms):
    """one input port p<f> and one output o<f> per form"""
    src = [HEADER, "class E(cohdl.Entity):"]
    body = []
    for f, (k, w, view, hi, lo, sty) in enumerate(forms):
        src.append(f"    p{f} = Port.input({type_src(sty + ':0')})")
        src.append(f"    o{f} = Port.output({type_src(f'{k}{w}:0')})")
        body.append(f"            {conv_target(f'self.o{f}', view, hi, lo)} <<= self.p{f}")
    src += ["    def architecture(self):", "        @std.concurrent", "        def logic():"]
    return "\n".join(src + body) + "\n"


def _raw_bits(v):
    return v.bits if hasattr(v, "bits") else str(getattr(v, "v", v))


def _conv_sim(task):
    """('const', vhdl, n) -> [bits]; ('port', vhdl, [[values of form f]]) -> [[bits]]"""
    try:
        d = Design(task[1])
        if task[0] == "const":
            d.initialise()
            d.settle()
            return [_raw_bits(d.get_raw(f"o{i}")) for i in range(task[2])]
        vals = task[2]
        out = [[] for _ in vals]
        for t in range(max(len(v) for v in vals)):
            for f, v in enumerate(vals):
                d.set(f"p{f}", v[min(t, len(v) - 1)])
            if t == 0:
                d.initialise()
            d.settle()
            for f, v in enumerate(vals):
                if t < len(v):
                    out[f].append(_raw_bits(d.get_raw(f"o{f}")))
        return out
    except (VhdlTypeError, VhdlRuntimeError) as e:
        return f"{type(e).__name__}: {e}"


def _conv_model_chunk(lines):
    """Python object model: `_assign` on the same view of a fresh (uninitialised) Python-side object"""
    import_cohdl()
    out = []
    for line in lines:
        k, w, view, hi, lo, src = conv_parse(line)
        try:
            obj = mk_type(k, w)()
            tgt = obj
            if view == "elem":
                tgt = obj[hi]
            else:
                if hi >= 0:
                    tgt = tgt[hi:lo]
                if view != "plain":
                    tgt = getattr(tgt, view)
            tgt._assign(mk_obj(src))
            out.append("".join(str(b) for b in obj)[::-1])
        except BaseException:  # noqa
            out.append("rejected")
    return out


def mk_type(k, w):
    import cohdl
    return {"u": cohdl.Unsigned, "s": cohdl.Signed, "v": cohdl.BitVector}[k][w]


def gen_conv(widths, thorough):
    """targets of every declared kind and width in `widths`; sources of every kind with width <= the width of the
    assigned part, all values (MSB-set included); ints / Null / Full as literal-only sources"""
    for k in "usv":
        for w in widths:
            parts = [("whole", -1, -1, w)]
            if w >= 3:
                parts += [("slice", w - 1, w - 2, 2), ("slice", w - 2, 0, w - 1)]
                if thorough:
                    parts += [("slice", 1, 1, 1), ("slice", w - 1, 1, w - 1)]
            for _kind, hi, lo, pw in parts:
                for view in VIEWS:
                    for sk in "usv":
                        for sw in [x for x in sorted(set(widths) | {1, 2}) if x <= pw]:
                            if not thorough and pw - sw > 2 and sw > 1:
                                continue
                            for t in operand_tokens(sk, sw):
                                yield f"conv {k}{w} {view} {hi} {lo} {t}"
                    ints = sorted({0, 1, (1 << pw) - 1, 1 << (pw - 1), -(1 << (pw - 1)), -1, (1 << (pw - 1)) - 1})
                    for t in [f"i:{v}" for v in ints] + ["n", "f", "b:1"]:
                        yield f"conv {k}{w} {view} {hi} {lo} {t}"
            for i in sorted({0, w - 1}):
                for t in ["b:0", "b:1", "i:0", "i:1", "n", "f", "u1:1", "v1:1"]:
                    yield f"conv {k}{w} elem {i} -1 {t}"


def conv_size_key(line):
    k, w, view, hi, lo, src = conv_parse(line)
    return (w + (tok_width(src) or 0), abs(tok_value(src) or 0), line)


def conv_sig(line):
    k, w, view, hi, lo, src = conv_parse(line)
    return f"{k}{'[:]' if hi >= 0 and view != 'elem' else ''}.{view}<-{src[0]}"


def conv_replay(line):
    r = {"case": line, "constant_design": conv_const_design([line])}
    if is_port_kind(conv_parse(line)[5]):
        r["port_design"] = conv_port_design([conv_form(line)])
        r["port_value"] = tok_value(conv_parse(line)[5])
    return r


def _conv_batch(jobs):
    """jobs: [('const', src, n) | ('port', src, [[values]])]; compiled and simulated one after the other in this
    (freshly forked) process -> [list of bits | 'rejected:<errtype>' | 'not-executable:<msg>']"""
    from .common import compile_task
    out = []
    for kind, src, arg in jobs:
        c = compile_task((src, "E"))
        if not c["ok"]:
            out.append("rejected:" + c["errtype"])
            continue
        r = _conv_sim((kind, c["vhdl"], arg))
        out.append(r if isinstance(r, list) else "not-executable:" + str(r)[:120])
    return out


def _conv_run(jobs, per_task=12):
    tasks = [jobs[i:i + per_task] for i in range(0, len(jobs), per_task)]
    out = []
    for t, r in zip(tasks, fork_map(_conv_batch, tasks, fresh=True)):
        if r[0] != "ok":
            raise RuntimeError(f"conversion worker failed: {r[1]}")
        out.extend(r[1])
    return out


def conv_eval(lines, quick=True):
    """-> {line: (const bits | 'rejected..' | None (not probed), port bits | 'rejected..' | None, model bits | 'rejected')}"""
    model = {}
    chunks = list(chunked(lines, 1500))
    for c, r in zip(chunks, fork_map(_conv_model_chunk, chunks, fresh=False, chunk=1)):
        if r[0] != "ok":
            raise RuntimeError(f"python worker failed: {r[1]}")
        model.update(zip(c, r[1]))
    forms = {}
    for l in lines:
        forms.setdefault(conv_form(l), []).append(l)
    const, port = {}, {}
    # round 1: per form one constant design with the values the object model accepts, one probe design with
    # values it rejects (quick: first and last), and the port-fed design
    good, bad, pjobs = [], [], []
    for form, ls in forms.items():
        acc = [l for l in ls if model[l] != "rejected"]
        rej = [l for l in ls if model[l] == "rejected"]
        if acc:
            good.append(acc)
        if rej:
            bad.append(rej if not quick or len(rej) <= 2 else [rej[0], rej[-1]])
        if form[5] != "lit":
            pjobs.append((form, ls))
    res = _conv_run([("const", conv_const_design(b), len(b)) for b in good]) + \
        _conv_run([("const", conv_const_design(b), len(b)) for b in bad]) + \
        _conv_run([("port", conv_port_design([f]), [[tok_value(conv_parse(l)[5]) for l in ls]]) for f, ls in pjobs])
    singles = []
    for b, r in zip(good + bad, res[:len(good) + len(bad)]):
        if isinstance(r, list):
            const.update(zip(b, r))
        elif len(b) == 1 or model[b[0]] == "rejected":
            for l in b:
                const[l] = r
        else:
            singles.extend(b)   # an accepted-by-the-model bundle was rejected: every value on its own
    for (f, ls), r in zip(pjobs, res[len(good) + len(bad):]):
        if isinstance(r, list):
            port.update(zip(ls, r[0]))
        else:
            for l in ls:
                port[l] = r
    for l, r in zip(singles, _conv_run([("const", conv_const_design([l]), 1) for l in singles], per_task=20)):
        const[l] = r[0] if isinstance(r, list) else r
    return {l: (const.get(l), port.get(l), model[l]) for l in lines}, len(forms)


def run_conversions(ctx):
    lines = list(gen_conv(ctx.scale([1, 2, 4], [1, 2, 3, 4, 6]), not ctx.quick))
    res, n_forms = conv_eval(lines, ctx.quick)
    bad = {}
    n_cmp = n_rej = 0
    for l in lines:
        cv, pv, mv = res[l]
        ctx.evaluations += 1
        ctx.dist["conv:" + conv_sig(l)] += 1
        vals = {"constant design": cv, "port-fed design": pv, "python object model": mv}
        acc = {n: v for n, v in vals.items() if v is not None and not v.startswith(("rejected", "not-executable"))}
        if any(v is not None and v.startswith("not-executable") for v in vals.values()):
            kind = "conv-not-executable"
        elif len(acc) >= 2 and len(set(acc.values())) > 1:
            kind = "conv-fold-vs-runtime" if ("constant design" in acc and len(set(v for n, v in acc.items() if n != "constant design")) == 1) else "conv-disagreement"
        else:
            kind = None
        if len(acc) >= 2:
            n_cmp += 1
            ctx.distinct.add(l)
        else:
            n_rej += 1
        if kind:
            c = (kind, conv_sig(l))
            if c not in bad or conv_size_key(l) < conv_size_key(bad[c][0]):
                bad[c] = (l, vals)
    ctx.obligation(f"correspondence (b, conversions): folded constant = port-fed design = Python `_assign` on {n_cmp} accepted "
                   f"assignments in {n_forms} target/source forms ({n_rej} rejected or literal-only-and-rejected)", not bad,
                   detail=f"{len(bad)} disagreeing classes")
    for (kind, c), (l, vals) in sorted(bad.items()):
        k, w, view, hi, lo, src = conv_parse(l)
        stmt = f"{conv_target({'u': 'Unsigned', 's': 'Signed', 'v': 'BitVector'}[k] + f'[{w}] object', view, hi, lo)} <<= {const_src(src)}"
        ctx.report(f"{kind}:{c}", f"`{stmt}`: " + "; ".join(f"{n}: {v}" for n, v in vals.items() if v is not None),
                   {**conv_replay(l), "observed": vals, "statement": stmt})


# ---------------------------------------------------------------------------------------------------
# tie (b), method / subscript chains: `x[h:l]`, `x[i]`, `.msb(k)`, `.lsb(k)`, `.msb(rest=r)`, `.lsb(rest=r)`,
# `.left(k)`, `.right(k)`, `.msb()`, `.lsb()`, `.left()`, `.right()` nested 1..4 deep, interleaved with
# `.unsigned / .signed / .bitvector` views and `resize`, on an operand x of every kind and width 10..12.
# Legs: constant design (x = module-level constant, chain folded by the tracer), port-fed design (x = input port,
# simulated on all / many values), the Python objects, and plain integer arithmetic on the bit pattern.
# chain text:  <K><W> step;step;...   with steps  s<h>,<l> | i<i> | m<k> | l<k> | M<r> | L<r> | f<k> | r<k> |
#              m | l | f | r | vu | vs | vv | z<t>
# ---------------------------------------------------------------------------------------------------

def chain_parse(text):
    head, _, steps = text.partition(" ")
    return head[0], int(head[1:]), [st for st in steps.split(";") if st]


def _step_args(st):
    return [int(x) for x in st[1:].split(",")] if len(st) > 1 and st[0] != "v" else []


def chain_step(k, w, n, st):
    """integer semantics of one step on (kind, width, bit pattern); kind 'b' = Bit.  None = not applicable."""
    c, a = st[0], _step_args(st)
    if k == "b":
        return None
    if c == "v":
        return ({"u": "u", "s": "s", "v": "v"}[st[1]], w, n)
    if c == "z":
        if k == "v" or a[0] < w:
            return None
        if k == "s" and n >> (w - 1):
            n |= ((1 << a[0]) - 1) ^ ((1 << w) - 1)
        return (k, a[0], n)
    if c == "s":
        h, l = a
        return ("v", h - l + 1, (n >> l) & ((1 << (h - l + 1)) - 1)) if 0 <= l <= h < w else None
    if c == "i":
        return ("b", 1, (n >> a[0]) & 1) if 0 <= a[0] < w else None
    if not a:   # .msb() .lsb() .left() .right()
        return ("b", 1, (n >> (w - 1)) & 1 if c in "mf" else n & 1)
    cnt = a[0] if c in "mlfr" else w - a[0]
    if not 1 <= cnt <= w:
        return None
    return ("v", cnt, n >> (w - cnt) if c in "mMf" else n & ((1 << cnt) - 1))


def chain_eval(text, n):
    k, w, steps = chain_parse(text)
    cur = (k, w, n)
    for st in steps:
        cur = chain_step(*cur, st)
        if cur is None:
            return None
    return cur


def chain_expr(text, name):
    _k, _w, steps = chain_parse(text)
    e = name
    for st in steps:
        c, a = st[0], _step_args(st)
        if c == "v":
            e += {"u": ".unsigned", "s": ".signed", "v": ".bitvector"}[st[1]]
        elif c == "z":
            e += f".resize({a[0]})"
        elif c == "s":
            e += f"[{a[0]}:{a[1]}]"
        elif c == "i":
            e += f"[{a[0]}]"
        else:
            meth = {"m": "msb", "l": "lsb", "M": "msb", "L": "lsb", "f": "left", "r": "right"}[c]
            e += f".{meth}({'' if not a else (('rest=' if c in 'ML' else '') + str(a[0]))})"
    return e


def chain_depth(text):
    return sum(1 for st in chain_parse(text)[2] if st[0] not in "vz")


def chain_key(text):
    k, w, steps = chain_parse(text)
    return (chain_depth(text), len(steps), sum(sum(_step_args(st)) for st in steps), text)


def gen_chain(rng, k, w):
    depth = rng.choice([1, 2, 3, 3, 4, 4])
    cur = (k, w)
    steps = []
    for d in range(depth):
        if rng.random() < 0.3:
            v = rng.choice("usv")
            steps.append("v" + v)
            cur = (v, cur[1])
        if cur[0] != "v" and cur[1] < 14 and rng.random() < 0.15:
            t = cur[1] + rng.randrange(0, 3)
            steps.append(f"z{t}")
            cur = (cur[0], t)
        cw = cur[1]
        last = d == depth - 1
        kinds = ["s"] * 4 + ["m", "l", "M", "L", "f", "r"]
        if last:
            kinds += ["i", "i", "m0", "l0", "f0", "r0"]
        c = rng.choice(kinds)
        need = depth - d   # keep enough width for the remaining steps
        if c == "s":
            lo = rng.randrange(0, max(1, cw - need + 1))
            if rng.random() < 0.6 and cw - need >= 1:
                lo = max(lo, 1) if lo + need <= cw else lo   # non-zero offsets matter
            hi = rng.randrange(min(cw - 1, lo + need - 1), cw)
            steps.append(f"s{hi},{lo}")
            cur = ("v", hi - lo + 1)
        elif c == "i":
            steps.append(f"i{rng.randrange(cw)}")
            break
        elif len(c) == 2:
            steps.append(c[0])
            break
        else:
            cnt = rng.randrange(min(cw, need), cw + 1)
            if cnt == cw and cw > need and rng.random() < 0.7:
                cnt -= 1
            steps.append(f"{c}{cnt if c in 'mlfr' else cw - cnt}")
            cur = ("v", cnt)
    if rng.random() < 0.25 and steps[-1][0] not in "im lfr".replace(" ", "") or False:
        pass
    if cur[0] in "usv" and steps and len(steps[-1]) > 1 and rng.random() < 0.25:
        steps.append("v" + rng.choice("usv"))
    return f"{k}{w} " + ";".join(steps)


def systematic_chains(k, w):
    """small deterministic family (depth 2..4, non-zero offsets on the outer slices) so that the minimal replay
    does not depend on the seed"""
    out = []
    for a, b in ((1, 1), (2, 1), (1, 0), (0, 1), (0, 0)):
        out += [f"{k}{w} s{w - 1},{a};s{w - 2 - a},{b};s1,0", f"{k}{w} s{w - 1},{a};s{w - 2 - a},{b};i0",
                f"{k}{w} s{w - 1},{a};s{w - 2 - a},{b};s2,1;i1", f"{k}{w} s{w - 1},{a};s2,{b}"]
    out += [f"{k}{w} m{w - 1};l{w - 3};m2", f"{k}{w} M1;L1;f2;r", f"{k}{w} s10,2;s6,1;s3,2", f"{k}{w} s10,2;s6,1;i3",
            f"{k}{w} vu;s9,2;vs;l4;vu;z6", f"{k}{w} f9;r7;m"]
    return [c for c in out if chain_eval(c, 0) is not None]


def chain_const_design(k, w, consts, chains):
    src = [HEADER] + [f"c{j} = {const_src(f'{k}{w}:{v if k != chr(115) or v < (1 << (w - 1)) else v - (1 << w)}')}" for j, v in enumerate(consts)]
    src.append("class E(cohdl.Entity):")
    body = []
    for i, ch in enumerate(chains):
        rk, rw, _ = chain_eval(ch, 0)
        for j in range(len(consts)):
            src.append(f"    o{i * len(consts) + j} = Port.output({type_src(f'{rk}{rw}:0' if rk != 'b' else 'b:0')})")
            body.append(f"            self.o{i * len(consts) + j} <<= {chain_expr(ch, f'c{j}')}")
    src += ["    def architecture(self):", "        @std.concurrent", "        def logic():"]
    return "\n".join(src + body) + "\n"


def chain_port_design(k, w, chains):
    src = [HEADER, "class E(cohdl.Entity):", f"    p = Port.input({type_src(f'{k}{w}:0')})"]
    body = []
    for i, ch in enumerate(chains):
        rk, rw, _ = chain_eval(ch, 0)
        src.append(f"    o{i} = Port.output({type_src(f'{rk}{rw}:0' if rk != 'b' else 'b:0')})")
        body.append(f"            self.o{i} <<= {chain_expr(ch, 'self.p')}")
    src += ["    def architecture(self):", "        @std.concurrent", "        def logic():"]
    return "\n".join(src + body) + "\n"


def _to_pat(v, w):
    return None if v is None else v & ((1 << w) - 1)


def _chain_batch(jobs):
    """jobs: ('const', src, n_outputs, None) | ('port', src, n_outputs, (kind, values)) -> [[pattern per output]] per value
    | 'rejected:..' | 'not-executable:..' (raw bit patterns as unsigned ints; None for metavalues)"""
    from .common import compile_task
    out = []
    for kind, src, n, arg in jobs:
        c = compile_task((src, "E"))
        if not c["ok"]:
            out.append("rejected:" + c["errtype"] + ": " + c["err"][-120:])
            continue
        try:
            d = Design(c["vhdl"])

            def read():
                r = []
                for i in range(n):
                    b = _raw_bits(d.get_raw(f"o{i}"))
                    r.append(int(b, 2) if set(b) <= {"0", "1"} else None)
                return r
            if kind == "const":
                d.initialise()
                d.settle()
                out.append([read()])
            else:
                res = []
                for t, v in enumerate(arg[1]):
                    d.set("p", v if arg[0] != "s" or v < (1 << (arg[2] - 1)) else v - (1 << arg[2]))
                    if t == 0:
                        d.initialise()
                    d.settle()
                    res.append(read())
                out.append(res)
        except (VhdlTypeError, VhdlRuntimeError) as e:
            out.append(f"not-executable:{type(e).__name__}: {e}"[:160])
    return out


def _chain_model_chunk(task):
    """Python objects of /repo: the chain applied to the constant object, for every value"""
    import_cohdl()
    k, w, chains, values = task
    out = []
    for ch in chains:
        expr = compile(chain_expr(ch, "x"), "<chain>", "eval")
        row = []
        for v in values:
            x = mk_obj(f"{k}{w}:{v if k != 's' or v < (1 << (w - 1)) else v - (1 << w)}")
            try:
                r = canon(eval(expr, {"x": x}))
            except BaseException:  # noqa
                r = "err"
            row.append(r)
        out.append(row)
    return out


def chain_expected_token(ch, v):
    rk, rw, n = chain_eval(ch, v)
    if rk == "b":
        return f"b:{n}"
    if rk == "s" and n >> (rw - 1):
        return f"s{rw}:{n - (1 << rw)}"
    return f"{rk}{rw}:{n}"


def chain_run(configs):
    """configs: [(k, w, chains, consts, values)] -> per config dict with 'const', 'port' results per chain
    ([patterns per const] / [patterns per value] / error string) and 'model' tokens"""
    results = [{"const": {}, "port": {}} for _ in configs]
    todo = [(ci, which, list(cfg[2])[i:i + 16]) for ci, cfg in enumerate(configs) for which in ("const", "port")
            for i in range(0, len(cfg[2]), 16)]
    while todo:
        jobs = []
        for ci, which, chains in todo:
            k, w, _c, consts, values = configs[ci]
            if which == "const":
                jobs.append(("const", chain_const_design(k, w, consts, chains), len(chains) * len(consts), None))
            else:
                jobs.append(("port", chain_port_design(k, w, chains), len(chains), (k, values, w)))
        res = fork_map(_chain_batch, [[j] for j in jobs], fresh=True)
        nxt = []
        for (ci, which, chains), r in zip(todo, res):
            if r[0] != "ok":
                raise RuntimeError(f"chain worker failed: {r[1]}")
            r = r[1][0]
            if isinstance(r, str):
                if len(chains) == 1:
                    results[ci][which][chains[0]] = r
                else:
                    h = len(chains) // 2
                    nxt += [(ci, which, chains[:h]), (ci, which, chains[h:])]
                continue
            nc = len(configs[ci][3])
            for i, ch in enumerate(chains):
                if which == "const":
                    results[ci][which][ch] = r[0][i * nc:(i + 1) * nc]
                else:
                    results[ci][which][ch] = [row[i] for row in r]
        todo = nxt
    return results


def run_chains(ctx):
    rng = ctx.rng
    cfgs = ctx.scale([("v", 12, 128), ("u", 11, 128), ("s", 10, 1024)],
                     [(k, w, 1 << w) for k in "usv" for w in (10, 11, 12)])
    n_random = ctx.scale(28, 150)
    configs = []
    for k, w, nvals in cfgs:
        chains = systematic_chains(k, w)
        while len(chains) < len(systematic_chains(k, w)) + n_random:
            c = gen_chain(rng, k, w)
            if chain_eval(c, 0) is not None and c not in chains:
                chains.append(c)
        allv = list(range(1 << w))
        values = allv if nvals >= len(allv) else sorted(set(
            [0, (1 << w) - 1, 1 << (w - 1), 0x555 & ((1 << w) - 1), 0xAAA & ((1 << w) - 1)] + rng.sample(allv, nvals - 5)))
        consts = [0xB72 & ((1 << w) - 1), rng.choice(values), 0x5A5 & ((1 << w) - 1) | (1 << (w - 1))]
        configs.append((k, w, chains, consts, values))
    results = chain_run(configs)
    mtasks = [(k, w, chains, sorted(set(consts)) if not ctx.quick else sorted(set(consts + values[:8] + values[-4:]))) for k, w, chains, consts, values in configs]
    models = fork_map(_chain_model_chunk, mtasks, fresh=False, chunk=1)
    bad = {}
    n_cmp = 0
    for (k, w, chains, consts, values), res, mt, mo in zip(configs, results, mtasks, models):
        if mo[0] != "ok":
            raise RuntimeError(f"python worker failed: {mo[1]}")
        for ci, ch in enumerate(chains):
            ctx.evaluations += 1
            ctx.dist[f"chain:depth{chain_depth(ch)}"] += 1
            ctx.distinct.add("chain " + ch)
            rk, rw, _ = chain_eval(ch, 0)
            cr, pr = res["const"].get(ch), res["port"].get(ch)
            problem = None
            # Python objects vs integer semantics
            for v, tok in zip(mt[3], mo[1][ci]):
                if tok != chain_expected_token(ch, v):
                    problem = ("chain-python-vs-spec", f"Python objects give {tok} for x = {v}, bit arithmetic {chain_expected_token(ch, v)}", v)
                    break
            if isinstance(pr, str):
                problem = ("chain-port-design-" + pr.split(":")[0], pr)
            elif isinstance(cr, str):
                problem = ("chain-const-design-" + cr.split(":")[0], cr)
            else:
                for v, got in zip(consts, cr):
                    n_cmp += 1
                    exp = chain_eval(ch, v)[2]
                    if got != exp:
                        problem = ("chain-fold-vs-spec", f"x = {v} ({format(v, f'0{w}b')}): constant design drives {got}, Python objects / bit arithmetic {exp}", v)
                        break
                for v, got in zip(values, pr):
                    n_cmp += 1
                    exp = chain_eval(ch, v)[2]
                    if got != exp:
                        # the folded side (constant design on the probe constants, Python objects) follows the bit
                        # arithmetic: the run-time logic differs from what the same chain folds to for x = v
                        problem = ("chain-fold-vs-runtime", f"x = {v} ({format(v, f'0{w}b')}): folded at compile time (Python objects / bit arithmetic) the chain gives {exp}, the port-fed design selects {got}", v)
                        break
            if problem:
                c = (problem[0], k)
                if c not in bad or chain_key(ch) < chain_key(bad[c][0]):
                    bad[c] = (ch, problem[1], w, problem[2] if len(problem) > 2 else 0xB72 & ((1 << w) - 1))
    ctx.obligation(f"correspondence (b, method/subscript chains): folded constant = port-fed design = Python objects = bit arithmetic "
                   f"on {sum(len(c[2]) for c in configs)} chains (depth 1..4) x operand values ({n_cmp} comparisons)", not bad,
                   detail=f"{len(bad)} disagreeing classes")
    for (kind, k), (ch, detail, w, val) in sorted(bad.items()):
        expr = chain_expr(ch, "x")
        ctx.report(f"{kind}:{k}", f"`{expr}` with x : {type_src(f'{k}{w}:0')}: {detail}",
                   {"case": "chain " + ch, "expression": expr, "detail": detail, "value": val,
                    "constant_design": chain_const_design(k, w, [val], [ch]),
                    "port_design": chain_port_design(k, w, [ch])})


# ---------------------------------------------------------------------------------------------------

def chunked(it, n):
    buf = []
    for x in it:
        buf.append(x)
        if len(buf) >= n:
            yield buf
            buf = []
    if buf:
        yield buf


def eval_all(lines):
    """-> [(py, model, spec)]"""
    model = lean_io.query("C09", lines)
    chunks = list(chunked(lines, 4000))
    res = fork_map(_py_chunk, chunks, fresh=False, chunk=1)
    py = []
    for c, r in zip(chunks, res):
        if r[0] != "ok":
            raise RuntimeError(f"python worker failed: {r[1]}")
        py.extend(r[1])
    out = []
    for l, p, m in zip(lines, py, model):
        f = m.split(" ")
        if len(f) != 2:
            raise RuntimeError(f"model answer {m!r} for {l!r}")
        out.append((p, f[0], f[1]))
    return out


def canon_model(m):
    return "err" if m.startswith("err-") else m


def run(ctx: Ctx):
    rng = ctx.rng
    maxw_a = ctx.scale(4, 5)
    maxw_b = ctx.scale(2, 3)
    ctx.rule = ("(a) every operator/method x operand kind pair (Unsigned, Signed, BitVector, Bit, int, Integer, Null, Full; both "
                f"orders) x widths <= {maxw_a} (arithmetic, shifts; 3 for the other operators in the quick tier) x all values (ints also slightly outside the representable range), plus random "
                "operands up to 128 bit: Python object of /repo vs Lean pyFold; (b) every case with a defined specification, "
                f"widths <= {maxw_b}: constant design vs port-fed design vs spec.  non-trivial = the specification defines a result; "
                "distinct = distinct (operator, operands)")
    lines = list(gen_exhaustive(maxw_a, ctx.scale(3, 5)))
    n_exh = len(lines)
    wide = gen_random_wide(rng, ctx.scale(4000, 200000))
    lines += wide
    triples = eval_all(lines)

    mism_model = {}   # class -> minimal line where python != model
    mism_spec = {}    # class -> minimal line where python != spec (spec defined): candidate property failure
    n_mm = n_ms = 0
    b_cases = []
    for idx, (line, (py, mo, sp)) in enumerate(zip(lines, triples)):
        defined = sp != "none"
        o = split_line(line)[1]
        ctx.evaluations += 1
        ctx.dist[f"a:{o}"] += 1
        if defined:
            ctx.distinct.add(line)
        if len(ctx.samples) < 6 and defined and idx % 9973 == 17:
            ctx.samples.append({"case": line, "python": py, "pyFold": mo, "spec": sp})
        if py == "bad-operand":
            raise RuntimeError(f"operand of {line!r} cannot be constructed")
        if py != canon_model(mo):
            n_mm += 1
            c = kinds_sig(line)
            if c not in mism_model or size_key(line) < size_key(mism_model[c][0]):
                mism_model[c] = (line, py, mo, sp)
        if defined and py != sp:
            n_ms += 1
            c = kinds_sig(line)
            if c not in mism_spec or size_key(line) < size_key(mism_spec[c][0]):
                mism_spec[c] = (line, py, mo, sp)
        if defined and py == sp and idx < n_exh and any(is_port_kind(t) for t in split_line(line)[2]) \
                and kinds_sig(line) != "cat:b,b":   # `a & b` of two std_logic: vhdl_sim cannot resolve the overload
            ws = [tok_width(t) or 0 for t in split_line(line)[2]]
            if max(ws) <= maxw_b and (tok_width(sp) or 0) <= 8:
                b_cases.append((line, py, sp))
    ctx.exhaustive = True
    ctx.obligation(f"correspondence (a): Python objects of /repo = Lean pyFold (type, width, value, raised) on {len(lines)} cases "
                   f"({n_exh} exhaustive for widths <= {maxw_a}, {len(wide)} random up to 128 bit)", n_mm == 0,
                   detail=f"{n_mm} mismatches in {len(mism_model)} operator/kind classes")

    # (b) exhaustively on the small cases + a sample of the wide ones
    wide_ok = [(l, py, sp) for l, (py, mo, sp) in zip(wide, triples[n_exh:]) if sp != "none" and py == sp]
    rng.shuffle(wide_ok)
    b_cases += wide_ok[: ctx.scale(300, 3000)]
    problems, n_cmp, n_shapes = run_tie_b(ctx, b_cases, "b")
    ctx.evaluations += n_cmp
    classes_b = {}
    for line, kind, detail, shape in problems:
        c = (kind, kinds_sig(line))
        if c not in classes_b or size_key(line) < size_key(classes_b[c][0]):
            classes_b[c] = (line, detail)
    ctx.obligation(f"correspondence (b): constant design = port-fed design = spec on {n_cmp} cases in {n_shapes} operation shapes",
                   not problems, detail=f"{len(problems)} disagreements in {len(classes_b)} classes")

    run_conversions(ctx)
    run_chains(ctx)

    reported = set()
    # 1. python fold differs from the documented / run-time value: confirm through the designs and report
    for c, (line, py, mo, sp) in sorted(mism_spec.items()):
        cv, pv, srcs = confirm_case(line, sp)
        sv = res_value(sp)
        if cv != pv:
            reported.add(c)
            ctx.report(f"fold-vs-runtime:{c}",
                       f"`{line}`: folded at compile time the operation gives {py} (constant design: {cv}); the emitted run-time logic "
                       f"computes {pv} for the same operands (documented: {sp})",
                       {"case": line, "python_fold": py, "constant_design_output": cv, "port_design_output": pv, "spec": sp,
                        "model_pyFold": mo, **srcs})
        else:
            ctx.report(f"fold-vs-spec:{c}",
                       f"`{line}`: the Python object gives {py}, the specification {sp}, but constant and port-fed design agree ({cv})",
                       {"case": line, "python_fold": py, "constant_design_output": cv, "port_design_output": pv, "spec": sp,
                        "broken": "theorem C09.*_fold_eq_spec no longer applies to the code: pyFold differs from the Python object", **srcs},
                       no_failing_input=True)
    # 2. disagreements found by (b) itself
    for (kind, c), (line, detail) in sorted(classes_b.items()):
        if c in reported:
            continue
        sp = lean_io.query("C09", [line])[0].split(" ")[1]
        srcs = replay_sources(line, sp)
        if kind in ("fold-differs-from-runtime", "port-design-rejected", "port-design-not-executable",
                    "const-design-rejected", "const-design-not-executable"):
            ctx.report(f"{kind}:{c}", f"`{line}`: {detail}", {"case": line, "kind": kind, "detail": detail, "spec": sp, **srcs})
        else:
            ctx.report(f"{kind}:{c}", f"`{line}`: {detail}",
                       {"case": line, "kind": kind, "detail": detail, "spec": sp,
                        "broken": "the Lean specification differs from the emitted logic although fold and run time agree", **srcs},
                       no_failing_input=True)
    # 3. the mirror is out of date but no property failure was found for that class
    for c, (line, py, mo, sp) in sorted(mism_model.items()):
        if c in reported or c in mism_spec:
            continue
        ctx.report(f"model-mismatch:{c}",
                   f"`{line}`: Python object gives {py}, Lean pyFold gives {mo} (spec {sp}); no input found on which fold and run time differ",
                   {"case": line, "python_fold": py, "model_pyFold": mo, "spec": sp,
                    "broken": "correspondence (a): Lean pyFold no longer mirrors cohdl/_core for this operator/kind class"},
                   no_failing_input=True)


def replay(ctx, data):
    r = data["replay"]
    line = r["case"]
    if line.startswith("chain "):
        ch = line[len("chain "):]
        k, w, _steps = chain_parse(ch)
        values = sorted({r.get("value", 0), 0xB72 & ((1 << w) - 1), 0x5A5 & ((1 << w) - 1) | (1 << (w - 1)), (1 << w) - 1, 0x555 & ((1 << w) - 1)})
        res = chain_run([(k, w, [ch], values, values)])[0]
        mo = _chain_model_chunk((k, w, [ch], values))[0]
        exp = [chain_eval(ch, v)[2] for v in values]
        print("expression       :", r.get("expression"), f"  x : {type_src(f'{k}{w}:0')}")
        print("x values         :", values)
        print("bit arithmetic   :", exp)
        print("python objects   :", mo)
        print("constant design  :", res["const"].get(ch))
        print("port-fed design  :", res["port"].get(ch))
        ok = res["const"].get(ch) == exp and res["port"].get(ch) == exp and mo == [chain_expected_token(ch, v) for v in values]
        return 0 if ok else 1
    if line.startswith("conv "):
        res, _n = conv_eval([line], False)
        cv, pv, mv = res[line]
        print("case                :", r.get("statement", line))
        print("constant design     :", cv)
        print("port-fed design     :", pv)
        print("python object model :", mv)
        acc = [v for v in (cv, pv, mv) if v is not None and not v.startswith(("rejected", "not-executable"))]
        return 0 if len(set(acc)) <= 1 and not any(v and v.startswith("not-executable") for v in (cv, pv, mv)) else 1
    py = fork_map(_py_chunk, [[line]], fresh=False)[0]
    mo, sp = lean_io.query("C09", [line])[0].split(" ")
    print("case         :", line)
    print("python fold  :", py[1][0] if py[0] == "ok" else py)
    print("Lean pyFold  :", mo)
    print("Lean spec    :", sp)
    if sp == "none":
        return 0 if (py[0] == "ok" and py[1][0] == canon_model(mo)) else 1
    cv, pv, _ = confirm_case(line, sp)
    print("constant design output:", cv)
    print("port-fed design output:", pv)
    ok = py[0] == "ok" and py[1][0] == sp and cv == pv == res_value(sp)
    return 0 if ok else 1
