"""The upstream designs of /repo/tests/reference_builds as a corpus for per-design validators (their cocotb test
benches cannot run here; cocotb is stubbed so that the modules import).  Used by C08 (definite-assignment certificate
on the real IR) and available to C06 / C07 style certificates: rarely used features (inline VHDL, noreset, records,
AXI register maps, SPI, ...) appear here that the generators do not produce."""

import hashlib
import importlib.util
import inspect
import sys
import types

from .common import REPO, fork_map, import_cohdl


def _stub_cocotb():
    class Any:
        def __init__(self, *a, **k):
            pass

        def __call__(self, *a, **k):
            if len(a) == 1 and callable(a[0]) and not k:
                return a[0]
            return Any()

        def __getattr__(self, n):
            if n.startswith("__"):
                raise AttributeError(n)
            return Any()

    for name in ["cocotb", "cocotb.clock", "cocotb.triggers", "cocotb.binary", "cocotb_test", "cocotb_test.simulator",
                 "cocotb.types", "cocotb.handle", "cocotb.utils", "cocotb.result"]:
        if name in sys.modules:
            continue
        m = types.ModuleType(name)

        def _ga(n, Any=Any):
            if n.startswith("__"):
                raise AttributeError(n)
            return Any()

        m.__getattr__ = _ga
        sys.modules[name] = m


def corpus_files():
    return sorted(str(p) for p in (REPO / "tests" / "reference_builds").rglob("test_*.py"))


def _task(args):
    path, extract, need_text = args
    import_cohdl()
    _stub_cocotb()
    tests = str(REPO / "tests")
    if tests not in sys.path:
        sys.path.insert(1, tests)
    import cohdl
    from cohdl import std

    name = "rb_" + hashlib.md5(path.encode()).hexdigest()[:8]
    try:
        spec = importlib.util.spec_from_file_location(name, path)
        mod = importlib.util.module_from_spec(spec)
        sys.modules[name] = mod
        spec.loader.exec_module(mod)
    except BaseException as e:  # noqa
        return {"ok": False, "path": path, "errtype": "import:" + type(e).__name__}
    out = []
    for n, obj in sorted(vars(mod).items()):
        if inspect.isclass(obj) and issubclass(obj, cohdl.Entity) and obj.__module__ == name:
            try:
                item = {"entity": n}
                if need_text or extract is None:
                    item["vhdl"] = std.VhdlCompiler.to_string(obj)
                if extract is not None and not need_text:
                    item["extra"] = extract(obj)
                elif extract is not None:
                    # a second module object, so that the extraction does not depend on the first compilation
                    spec2 = importlib.util.spec_from_file_location(name + "x", path)
                    mod2 = importlib.util.module_from_spec(spec2)
                    sys.modules[name + "x"] = mod2
                    spec2.loader.exec_module(mod2)
                    item["extra"] = extract(getattr(mod2, n))
                out.append(item)
            except BaseException as e:  # noqa
                out.append({"entity": n, "error": type(e).__name__})
    return {"ok": True, "path": path, "designs": out}


def compile_corpus(extract=None, need_text=True):
    """returns [{path, designs: [{entity, vhdl, extra} | {entity, error}]}]; extract(EntityClass) runs in the worker"""
    res = fork_map(_task, [(p, extract, need_text) for p in corpus_files()], batch=4)
    out = []
    for r in res:
        if r[0] == "ok" and r[1].get("ok"):
            out.append(r[1])
    return out
