"""C02 - operators and expressions compute their documented value at run time.

Tie: type-directed generator of expression trees over Bit / BitVector / Unsigned / Signed / bool / Python-int
operands (ports, shadow signals with varying default values, typed constants).  Many expressions per
design, one output port each, in a concurrent and in a clocked context.  Each design is compiled by the
real compiler of /repo's working tree; the emitted VHDL is executed by harness/vhdl_sim.py on ALL operand
valuations (small widths) or corner + random valuations (widths up to 64) and every output is compared
with `evalSpec` of the Lean model (Model/C02.lean; Props/C02.lean proves that the VHDL the model expects,
`lower e`, evaluates to `evalSpec e` under numeric_std for all widths and values).
  (a) accept / reject and result type + width  vs  `typeOf`
  (b) value of the emitted logic              vs  `evalSpec`      <- the property; a difference is a VIOLATION
  (c) emitted text (temporaries inlined)       vs  `lower e`       <- diagnostic only
Outside the documented domain (excluded, see notes/C02.md): division by zero, run-time index that can
exceed the vector, Python ints that are not representable in the vector operand's type, 'U'/'X' inputs.
"""

import itertools
import re

from .common import Ctx, fork_map, load_design_module, import_cohdl, InfraError
from . import lean_io
from .vhdl_sim import Design, VhdlTypeError, VhdlRuntimeError
from .vhdl_parse import Parser, VhdlSyntaxError

# ---------------------------------------------------------------------------------------------------
# types:  ("u", w) ("s", w) ("bv", w) ("bit",) ("bool",) ("int",)
# trees:  ("p", i, shadow) ("lit", ty, v) ("i", k) ("ar", op, a, b) ("bo", op, a, b) ("inv", a) ("neg", a)
#         ("abs", a) ("cmp", op, a, b) ("chain", op1, op2, a, b, c) ("shl", a, n) ("shr", a, n) ("cat", a, b)
#         ("idx", a, i) ("slc", a, hi, lo) ("idxrt", a, n) ("sgn", a) ("uns", a) ("bv", a) ("rsz", a, w)
#         ("truth", a) ("not", a) ("and", a, b) ("or", a, b) ("any", [..]) ("all", [..]) ("ite", c, a, b)
#         ("sel", arg, [(key, e)..], default|None)
# ---------------------------------------------------------------------------------------------------

BIT, BOOL, INT = ("bit",), ("bool",), ("int",)
AOPS = ["add", "sub", "mul", "div", "mod", "rem"]
LOPS = ["and", "or", "xor"]
COPS = ["eq", "ne", "lt", "gt", "le", "ge"]
PY_A = {"add": "+", "sub": "-", "mul": "*", "mod": "%"}
PY_L = {"and": "&", "or": "|", "xor": "^"}
PY_C = {"eq": "==", "ne": "!=", "lt": "<", "gt": ">", "le": "<=", "ge": ">="}


def ty_str(t):
    return {"u": "u%d", "s": "s%d", "bv": "bv%d"}[t[0]] % t[1] if len(t) == 2 else t[0]


def ty_py(t):
    if t[0] == "u":
        return f"Unsigned[{t[1]}]"
    if t[0] == "s":
        return f"Signed[{t[1]}]"
    if t[0] == "bv":
        return f"BitVector[{t[1]}]"
    return "Bit"  # bit and bool results are observed through a Bit port


def width(t):
    return t[1] if len(t) == 2 else 1


def is_vec(t):
    return t[0] in ("u", "s", "bv")


def fits(t, k):
    if t[0] in ("u", "bv"):
        return 0 <= k < (1 << t[1])
    if t[0] == "s":
        return -(1 << (t[1] - 1)) <= k < (1 << (t[1] - 1))
    if t[0] == "bit":
        return k in (0, 1)
    return False


def to_sexp(e):
    k = e[0]
    if k == "sh":
        return to_sexp(e[2])
    if k == "p":
        return f"(p {e[1]} {ty_str(e[3])})"
    if k == "lit":
        return f"(lit {ty_str(e[1])} {e[2]})"
    if k == "i":
        return f"(i {e[1]})"
    if k in ("ar", "bo", "cmp"):
        return f"({k} {e[1]} {to_sexp(e[2])} {to_sexp(e[3])})"
    if k == "chain":
        _, o1, o2, a, b, c = e
        return f"(and (cmp {o1} {to_sexp(a)} {to_sexp(b)}) (cmp {o2} {to_sexp(b)} {to_sexp(c)}))"
    if k in ("inv", "neg", "abs", "sgn", "uns", "bv", "truth", "not"):
        return f"({k} {to_sexp(e[1])})"
    if k in ("shl", "shr", "cat", "idxrt", "and", "or"):
        return f"({k} {to_sexp(e[1])} {to_sexp(e[2])})"
    if k == "idx":
        return f"(idx {to_sexp(e[1])} {e[2]})"
    if k == "slc":
        return f"(slc {to_sexp(e[1])} {e[2]} {e[3]})"
    if k == "rsz":
        return f"(rsz {to_sexp(e[1])} {e[2]})"
    if k == "tlit":
        # a width-less literal arm (Full / Null / python int / bit string) whose type is only fixed by the target:
        # its documented value is the literal AT THE TARGET's type and width (Full = all ones of the target)
        return f"(lit {ty_str(e[2])} {e[3]})"
    if k == "conv":
        return f"(conv {to_sexp(e[1])} {ty_str(e[2])})"
    if k == "rszz":
        # x.resize(w, zeros=z): z zero bits appended on the right, then extended to w = (x resized to w) << z
        return f"(shl (rsz {to_sexp(e[1])} {e[2]}) (i {e[3]}))"
    if k in ("any", "all"):
        op = "or" if k == "any" else "and"
        xs = e[1]
        if len(xs) == 1:
            return f"(truth {to_sexp(xs[0])})"
        acc = f"({op} {to_sexp(xs[0])} {to_sexp(xs[1])})"
        for x in xs[2:]:
            acc = f"({op} {acc} {to_sexp(x)})"
        return acc
    if k == "ite":
        return f"(ite {to_sexp(e[1])} {to_sexp(e[2])} {to_sexp(e[3])})"
    if k == "sel":
        _, arg, branches, default = e
        br = list(branches)
        rest = to_sexp(default) if default is not None else to_sexp(br[-1][1])
        if default is None:
            br = br[:-1]
        for key, val in reversed(br):
            rest = f"(sel {to_sexp(arg)} {key} {to_sexp(val)} {rest})"
        return rest
    raise AssertionError(e)


def lit_py(t, v):
    if t[0] == "u":
        return f"Unsigned[{t[1]}]({v})"
    if t[0] == "s":
        return f"Signed[{t[1]}]({v})"
    if t[0] == "bv":
        return f'BitVector[{t[1]}]("{v:0{t[1]}b}")'
    if t[0] == "bit":
        return f"Bit({v})"
    raise AssertionError(t)


def to_py(e):
    k = e[0]
    if k == "sh":
        return f"f{e[1]}"
    if k == "p":
        # qualifier kind of the operand: input Port | local Signal with default (q) | local Signal without default (g)
        # | Variable (v, clocked designs); all followers carry the value of port i
        return {False: f"self.p{e[1]}", True: f"q{e[1]}", "q": f"q{e[1]}", "g": f"g{e[1]}", "v": f"v{e[1]}"}[e[2]]
    if k == "lit":
        return lit_py(e[1], e[2])
    if k == "i":
        return f"({e[1]})"
    if k == "ar":
        a, b = to_py(e[2]), to_py(e[3])
        if e[1] == "div":
            return f"op.truncdiv({a}, {b})"
        if e[1] == "rem":
            return f"op.rem({a}, {b})"
        return f"({a} {PY_A[e[1]]} {b})"
    if k == "bo":
        return f"({to_py(e[2])} {PY_L[e[1]]} {to_py(e[3])})"
    if k == "cmp":
        return f"({to_py(e[2])} {PY_C[e[1]]} {to_py(e[3])})"
    if k == "chain":
        _, o1, o2, a, b, c = e
        return f"({to_py(a)} {PY_C[o1]} {to_py(b)} {PY_C[o2]} {to_py(c)})"
    if k == "inv":
        return f"(~{to_py(e[1])})"
    if k == "neg":
        return f"(-{to_py(e[1])})"
    if k == "abs":
        return f"abs({to_py(e[1])})"
    if k == "shl":
        return f"({to_py(e[1])} << {to_py(e[2])})"
    if k == "shr":
        return f"({to_py(e[1])} >> {to_py(e[2])})"
    if k == "cat":
        return f"({to_py(e[1])} @ {to_py(e[2])})"
    if k == "idx":
        return f"{to_py(e[1])}[{e[2]}]"
    if k == "slc":
        return f"{to_py(e[1])}[{e[2]}:{e[3]}]"
    if k == "idxrt":
        return f"{to_py(e[1])}[{to_py(e[2])}]"
    if k == "sgn":
        return f"{to_py(e[1])}.signed"
    if k == "uns":
        return f"{to_py(e[1])}.unsigned"
    if k == "bv":
        return f"{to_py(e[1])}.bitvector"
    if k == "rsz":
        return f"{to_py(e[1])}.resize({e[2]})"
    if k == "tlit":
        if e[1] in ("Full", "Null"):
            return e[1]
        if e[1] == "str":
            return f'"{e[3]:0{e[2][1]}b}"'
        return f"({e[3]})"
    if k == "conv":
        return to_py(e[1])  # implicit: the conversion happens because the target (output port) has another type
    if k == "rszz":
        return f"{to_py(e[1])}.resize({e[2]}, zeros={e[3]})"
    if k == "truth":
        return f"bool({to_py(e[1])})"
    if k == "not":
        return f"(not {to_py(e[1])})"
    if k == "and":
        return f"({to_py(e[1])} and {to_py(e[2])})"
    if k == "or":
        return f"({to_py(e[1])} or {to_py(e[2])})"
    if k in ("any", "all"):
        return f"{k}([{', '.join(to_py(x) for x in e[1])}])"
    if k == "ite":
        return f"({to_py(e[2])} if {to_py(e[1])} else {to_py(e[3])})"
    if k == "sel":
        _, arg, branches, default = e
        targ = arg_type(arg)
        items = ", ".join(f"{sel_key_py(targ, key)}: {to_py(val)}" for key, val in branches)
        d = f", default={to_py(default)}" if default is not None else ""
        return f"cohdl.select_with({to_py(arg)}, {{{items}}}{d})"
    raise AssertionError(e)


def sel_key_py(targ, key):
    if targ[0] == "bv":
        return f'"{key:0{targ[1]}b}"'
    if targ[0] == "bit":
        return f"Bit({key})"
    return str(key)


def arg_type(arg):
    """type of a select_with argument: generated as a port / view only, the type is stored on the node"""
    return arg[-1]


def children(e):
    k = e[0]
    if k in ("p", "lit", "i", "sh", "tlit"):
        return []
    if k in ("ar", "bo", "cmp"):
        return [e[2], e[3]]
    if k == "chain":
        return [e[3], e[4], e[5]]
    if k in ("any", "all"):
        return list(e[1])
    if k == "conv":
        return [e[1]]
    if k == "sel":
        return [e[1]] + [v for _, v in e[2]] + ([e[3]] if e[3] is not None else [])
    return [x for x in e[1:] if isinstance(x, tuple) and x and isinstance(x[0], str) and x[0] in KINDS_]


KINDS_ = {"p", "lit", "i", "sh", "tlit", "ar", "bo", "inv", "neg", "abs", "cmp", "chain", "shl", "shr", "cat", "idx", "slc", "idxrt",
          "sgn", "uns", "bv", "rsz", "rszz", "conv", "truth", "not", "and", "or", "any", "all", "ite", "sel"}


def size(e):
    return 1 + sum(size(c) for c in children(e))


def shape(e):
    """canonical operator/operand-kind shape (widths and values stripped): the stable part of a signature"""
    k = e[0]
    if k == "sh":
        return "shared[" + shape(e[2]) + "]"
    if k == "p":
        return {False: "", True: "sig:", "q": "sig:", "g": "sig:", "v": "var:"}[e[2]] + e[3][0]
    if k == "lit":
        return "lit-" + e[1][0]
    if k == "i":
        return "int" if e[1] >= 0 else "negint"
    if k == "tlit":
        return f"arm-{e[1]}-{e[2][0]}"
    if k == "conv":
        return f"conv-{e[2][0]}(" + shape(e[1]) + ")"
    head = k + ("-" + e[1] if k in ("ar", "bo", "cmp") else "") + (f"-{e[1]}-{e[2]}" if k == "chain" else "")
    return head + "(" + ",".join(shape(c) for c in children(e)) + ")"


def ops_in(e, acc):
    k = e[0]
    if k in ("ar", "bo", "cmp"):
        acc.append(f"{k}-{e[1]}")
    elif k == "tlit":
        acc.append("arm-literal-" + e[1])
    elif k == "sh":
        acc.append("shared-object")
        ops_in(e[2], acc)
    elif k not in ("p", "lit", "i"):
        acc.append(k)
    for c in children(e):
        ops_in(c, acc)
    return acc


ALIAS_ROOTS = {"p", "sh", "lit", "i", "uns", "sgn", "bv", "slc", "idx", "idxrt"}


def same_object(e):
    """identity of the Python object an expression denotes when it is exactly one existing object (a port, signal,
    variable or named sub-expression, possibly through if-expressions / select_with whose branches all denote that
    same object), else None.  Views and slices create a new qualifier object on every evaluation, so two of them
    are never `the same object` for cohdl's branch merging."""
    k = e[0]
    if k == "p":
        return ("p", e[1], "q" if e[2] is True else e[2])
    if k == "sh":
        return ("sh", e[1])
    if k == "ite":
        a, b = same_object(e[2]), same_object(e[3])
        return a if (a is not None and a == b) else None
    if k == "sel":
        objs = [same_object(v) for _, v in e[2]] + ([same_object(e[3])] if e[3] is not None else [])
        return objs[0] if (objs and objs[0] is not None and all(o == objs[0] for o in objs)) else None
    return None


def shared_of(shadows):
    """named sub-objects of a design: list of (tree, type, where) - stored under the key "shared" of the shadows dict"""
    return shadows.get("shared", [])


def sj(shadows):
    """json-able form of the shadows dict (string keys only)"""
    return {str(k): v for k, v in shadows.items()}


def shadow_ports(shadows):
    return {k: v for k, v in shadows.items() if k not in ("shared", "g", "v", "reassign")}


def shared_used(e, acc=None):
    acc = set() if acc is None else acc
    if e[0] == "sh":
        acc.add(e[1])
    for c in children(e):
        shared_used(c, acc)
    return acc


def tree_type(e):
    """type of an object chain (port / slice / view / constant index)"""
    k = e[0]
    if k == "p":
        return e[3]
    if k == "sh":
        return e[3]
    if k == "slc":
        return ("bv", e[2] - e[3] + 1)
    if k in ("uns", "sgn", "bv"):
        return ({"uns": "u", "sgn": "s", "bv": "bv"}[k], tree_type(e[1])[1])
    if k == "idx":
        return BIT
    raise AssertionError(e)


# ---------------------------------------------------------------------------------------------------
# generator
# ---------------------------------------------------------------------------------------------------


class Gen:
    def __init__(self, rng, ports, maxw, shadows, shared=()):
        self.rng = rng
        self.ports = ports  # list of types
        self.maxw = maxw
        self.shadows = {i for i in shadows if isinstance(i, int)}  # inputs followed by a local Signal with default
        self.plain = set(shadows.get("g", ())) if isinstance(shadows, dict) else set()   # ... by a Signal without default
        self.vars = set(shadows.get("v", ())) if isinstance(shadows, dict) else set()    # ... by a Variable
        self.shared = list(shared)  # [(tree, type, where)]: named sub-objects reused by several expressions

    def sh(self, j):
        return ("sh", j, self.shared[j][0], self.shared[j][1])

    def chain(self, i, steps, want_nested=True):
        """an object chain over port i: nested slices (enclosing slice usually not starting at bit 0), slices of
        views, views of slices - everything that stays a reference into the port (no Temporary)"""
        r = self.rng
        e = self.port(i)
        nslices = 0
        for _ in range(steps):
            t = tree_type(e)
            w = t[1]
            if w >= 2 and (r.random() < 0.65 or (want_nested and nslices < 2)):
                # keep at least 2 bits while further slices are wanted
                minw = 2 if (want_nested and nslices < 1 and w >= 3) else 1
                nw = r.randint(minw, w - 1) if w - 1 >= minw else w
                lo_max = w - nw
                lo = r.randint(1, lo_max) if (lo_max >= 1 and r.random() < 0.8) else r.randint(0, lo_max)
                e = ("slc", e, lo + nw - 1, lo)
                nslices += 1
            else:
                e = (r.choice([v for v, kk in (("uns", "u"), ("sgn", "s"), ("bv", "bv")) if kk != t[0]]), e)
        return e

    def shared_leaf(self, t):
        """a leaf of type t built on one of the design's shared sub-objects (the object itself, a view of it, an
        index or a slice into it), or None"""
        r = self.rng
        if not self.shared:
            return None
        order = list(range(len(self.shared)))
        r.shuffle(order)
        for j in order:
            st = self.shared[j][1]
            if st == t:
                return self.sh(j)
            if t == BIT and is_vec(st):
                return ("idx", self.sh(j), r.randrange(st[1]))
            if is_vec(t) and is_vec(st):
                view = {"u": "uns", "s": "sgn", "bv": "bv"}[t[0]]
                if st[1] == t[1]:
                    return (view, self.sh(j))
                if st[1] > t[1]:
                    lo = r.randrange(st[1] - t[1] + 1)
                    sl = ("slc", self.sh(j), lo + t[1] - 1, lo)
                    return sl if t[0] == "bv" else (view, sl)
                if t[0] in ("u", "s") and r.random() < 0.5:
                    base = self.sh(j) if st[0] == t[0] else (view, self.sh(j))
                    return ("rsz", base, t[1])
        return None

    force_var = False  # snapshot expressions: read inputs through their Variable whenever there is one

    def gen_value(self, t, d):
        """an expression whose ROOT is documented to produce a value (a Temporary), not an alias of an object:
        arithmetic, resize, shift, concat, comparison, abs/neg/invert, bitwise, boolean operator, if-expression,
        select_with - never a bare object, view, slice or index"""
        for _ in range(30):
            e = self.try_gen(t, d)
            if e is None or e[0] in ALIAS_ROOTS:
                continue
            # `x if c else x` / a select_with whose branches are all the SAME object is that object (no Temporary is
            # created: _MergedBranch returns the common object) - recursively, e.g.
            # `(select_with(k, {0: v, 1: v}) if c else (v if d else v))` is `v`: an alias, not a value
            if same_object(e) is not None:
                continue
            return e
        return None

    def port(self, i, kind=None):
        """operand reading input i through one of its qualifier kinds (chosen independently per operand position)"""
        if kind is None and self.force_var and i in self.vars and self.rng.random() < 0.85:
            kind = "v"
        if kind is None:
            kinds = self.kinds_of(i)
            kind = False if (len(kinds) == 1 or self.rng.random() < 0.45) else self.rng.choice(kinds[1:])
        return ("p", i, kind, self.ports[i])

    def kinds_of(self, i):
        return [False] + (["q"] if i in self.shadows else []) + (["g"] if i in self.plain else []) + (["v"] if i in self.vars else [])

    def same_type_pair(self, pred):
        """two DIFFERENT inputs of exactly the same type (qualifier kinds chosen independently), or None"""
        r = self.rng
        c = [(i, j) for i, a in enumerate(self.ports) for j, b in enumerate(self.ports) if i != j and a == b and pred(a)]
        if not c:
            return None
        i, j = r.choice(c)
        ka, kb = r.choice(self.kinds_of(i)), r.choice(self.kinds_of(j))
        return self.port(i, ka), self.port(j, kb)

    def ports_of(self, pred):
        return [i for i, t in enumerate(self.ports) if pred(t)]

    def rand_int_for(self, t):
        r = self.rng
        w = t[1]
        if t[0] == "s":
            lo, hi = -(1 << (w - 1)), (1 << (w - 1)) - 1
        else:
            lo, hi = 0, (1 << w) - 1
        c = r.random()
        if c < 0.3:
            return r.choice([lo, hi, 0, 1 if hi >= 1 else 0, max(lo, -1)])
        return r.randint(lo, hi)

    def leaf(self, t):
        """smallest NON-constant expression of type t (constant-only sub-expressions are folded at compile
        time - property C09 - and typed constants are only generated as right operands, see `maybe_lit`)"""
        r = self.rng
        if self.shared and t != BOOL and r.random() < 0.45:
            e = self.shared_leaf(t)
            if e is not None:
                return e
        if t == BOOL:
            if self.shared and r.random() < 0.4:
                return ("truth", self.sh(r.randrange(len(self.shared))))
            c = self.ports_of(lambda x: x[0] in ("u", "s", "bit", "bv"))
            return ("truth", self.port(r.choice(c)))
        exact = self.ports_of(lambda x: x == t)
        if exact and r.random() < 0.8:
            return self.port(r.choice(exact))
        vecs = self.ports_of(is_vec)
        if t == BIT:
            if vecs and (not exact or r.random() < 0.6):
                i = r.choice(vecs)
                return ("idx", self.port(i), r.randrange(self.ports[i][1]))
            return self.port(r.choice(exact))
        w = t[1]
        view = {"u": "uns", "s": "sgn", "bv": "bv"}[t[0]]
        same_w = self.ports_of(lambda x: is_vec(x) and x[1] == w and x != t)
        if same_w and r.random() < 0.6:
            return (view, self.port(r.choice(same_w)))
        if t[0] in ("u", "s"):
            narrower = self.ports_of(lambda x: x[0] == t[0] and x[1] < w)
            if narrower and r.random() < 0.6:
                return ("rsz", self.port(r.choice(narrower)), w)
        wider = self.ports_of(lambda x: is_vec(x) and x[1] > w)
        if wider and r.random() < 0.7:
            i = r.choice(wider)
            lo = r.randrange(self.ports[i][1] - w + 1)
            sl = ("slc", self.port(i), lo + w - 1, lo)
            return sl if t[0] == "bv" else (view, sl)
        if exact:
            return self.port(r.choice(exact))
        if same_w:
            return (view, self.port(r.choice(same_w)))
        # zero-extend any narrower vector
        i = r.choice(vecs)
        pt = self.ports[i]
        if pt[1] > w:
            sl = ("slc", self.port(i), w - 1, 0)
            return sl if t[0] == "bv" else (view, sl)
        base = self.port(i) if pt[0] == "u" else ("uns", self.port(i))
        ext = ("rsz", base, w) if pt[1] < w else base
        return ext if t[0] == "u" else (view, ext)

    def maybe_lit(self, e, t):
        """typed constant as RIGHT operand of a binary operator"""
        if t != BOOL and self.rng.random() < 0.12:
            return ("lit", t, self.rng.randrange(2) if t == BIT else self.rand_int_for(t))
        return e

    def gen(self, t, d):
        r = self.rng
        if d <= 0 or r.random() < 0.12:
            return self.leaf(t)
        for _ in range(8):
            e = self.try_gen(t, d)
            if e is not None:
                return e
        return self.leaf(t)

    def num_operands(self, kind, w, d, allow_int=True):
        """two operands of kind u/s around width w, possibly one python int"""
        r = self.rng
        a = self.gen((kind, w), d - 1)
        if allow_int and r.random() < 0.3:
            k = ("i", self.rand_int_for((kind, w)))
            return (a, k) if r.random() < 0.6 else (k, a)
        return a, None

    def try_gen(self, t, d):
        r = self.rng
        g = self.gen
        if t == BOOL:
            c = r.choice(["cmp", "cmp", "cmp", "cmpint", "cmpbv", "cmpbit", "cmpbool", "chain", "truth", "not", "and", "or", "any", "all", "ite"])
            if c in ("cmp", "cmpint", "chain"):
                kind = r.choice("us")
                wa, wb = r.randint(1, self.maxw), r.randint(1, self.maxw)
                if c == "cmp" and r.random() < 0.35:
                    pr = self.same_type_pair(lambda x: x[0] in ("u", "s"))
                    if pr is not None:
                        return ("cmp", r.choice(COPS), pr[0], pr[1])
                if c == "cmp":
                    return ("cmp", r.choice(COPS), g((kind, wa), d - 1), self.maybe_lit(g((kind, wb), d - 1), (kind, wb)))
                if c == "cmpint":
                    a = g((kind, wa), d - 1)
                    k = self.rand_int_for((kind, wa)) if r.random() < 0.7 else (r.randint(0, 2 << wa) if kind == "u" else r.randint(-(2 << wa), 2 << wa))
                    return ("cmp", r.choice(COPS), a, ("i", k)) if r.random() < 0.6 else ("cmp", r.choice(COPS), ("i", k), a)
                b = g((kind, wb), d - 1)
                a = g((kind, wa), d - 1) if r.random() < 0.7 else ("i", self.rand_int_for((kind, wb)))
                cc = g((kind, r.randint(1, self.maxw)), d - 1) if r.random() < 0.7 else ("i", self.rand_int_for((kind, wb)))
                return ("chain", r.choice(COPS), r.choice(COPS), a, b, cc)
            if c == "cmpbv":
                w = r.randint(1, self.maxw)
                return ("cmp", r.choice(["eq", "ne"]), g(("bv", w), d - 1), self.maybe_lit(g(("bv", w), d - 1), ("bv", w)))
            if c == "cmpbit":
                return ("cmp", r.choice(["eq", "ne"]), g(BIT, d - 1), g(BIT, d - 1))
            if c == "cmpbool":
                return ("cmp", r.choice(["eq", "ne"]), g(BOOL, d - 1), g(BOOL, d - 1))
            if c == "truth":
                # explicit bool() of an operand that is already boolean is only probed by the operator matrix:
                # in a clocked context the result of `bool(<boolean Temporary>)` is never assigned on this tree
                # (finding `value:truth(truth(or(u,u)))`), random trees would only re-find it under unstable shapes
                tt = self.truthy_type()
                return (c, g(tt if tt != BOOL else BIT, d - 1))
            if c == "not":
                return (c, g(self.truthy_type(), d - 1))
            if c in ("and", "or"):
                return (c, g(self.truthy_type(), d - 1), g(self.truthy_type(), d - 1))
            if c in ("any", "all"):
                return (c, [g(self.truthy_type(), d - 1) for _ in range(r.randint(1, 4))])
            return ("ite", g(self.truthy_type(), d - 1), g(BOOL, d - 1), g(BOOL, d - 1))
        if t == BIT:
            c = r.choice(["bo", "bo", "inv", "idx", "idx", "idxrt", "ite", "sel"])
            if c == "bo":
                return ("bo", r.choice(LOPS), g(BIT, d - 1), self.maybe_lit(g(BIT, d - 1), BIT))
            if c == "inv":
                return ("inv", g(BIT, d - 1))
            if c == "idx":
                w = r.randint(1, self.maxw)
                return ("idx", g((r.choice(["u", "s", "bv"]), w), d - 1), r.randrange(w))
            if c == "idxrt":
                k = r.randint(1, 3)
                w = r.randint(1 << k, max(1 << k, self.maxw))
                if w > max(self.maxw, 8):
                    return None
                # base and index are objects (ports, shadow signals, views of them): run-time indexing of / with a
                # Temporary is rejected by cohdl (finding `reject:idxrt(...)`, probed by the operator matrix)
                bases = self.ports_of(lambda x: is_vec(x))
                idxs = self.ports_of(lambda x: x[0] == "u" and (1 << x[1]) <= max(p[1] for p in self.ports if is_vec(p)))
                if not bases or not idxs:
                    return None
                ni = r.choice(idxs)
                ok = [b for b in bases if self.ports[b][1] >= (1 << self.ports[ni][1])]
                if not ok:
                    return None
                bi = r.choice(ok)
                base = self.port(bi)
                if r.random() < 0.4:
                    base = (r.choice(["uns", "sgn", "bv"]), base)
                n = self.port(ni)
                return ("idxrt", base, n)
            if c == "ite":
                return ("ite", g(self.truthy_type(), d - 1), g(BIT, d - 1), g(BIT, d - 1))
            return self.gen_sel(t, d)
        kind, w = t
        if kind in ("u", "s"):
            c = r.choice(["add", "sub", "mul", "div", "mod", "rem", "bo", "inv", "shl", "shr", "view", "rsz", "ite", "sel", "addint", "divint", "mulint"]
                         + (["neg", "abs"] if kind == "s" else []))
            if c in ("add", "sub", "div", "mod", "rem", "bo") and r.random() < 0.25:
                pr = self.same_type_pair(lambda x: x == t)
                if pr is not None:
                    return ("bo", r.choice(LOPS), pr[0], pr[1]) if c == "bo" else ("ar", c, pr[0], pr[1])
            if c in ("add", "sub"):
                w2 = r.randint(1, w)
                a, b = g((kind, w), d - 1), g((kind, w2), d - 1)
                if r.random() < 0.5:
                    return ("ar", c, a, self.maybe_lit(b, (kind, w2)))
                return ("ar", c, b, self.maybe_lit(a, (kind, w)))
            if c == "addint":
                a = g((kind, w), d - 1)
                k = ("i", self.rand_int_for(t))
                op = r.choice(["add", "sub"])
                return ("ar", op, a, k) if r.random() < 0.5 else ("ar", op, k, a)
            if c == "mul":
                if w < 2:
                    return None
                wa = r.randint(1, w - 1)
                return ("ar", "mul", g((kind, wa), d - 1), g((kind, w - wa), d - 1))
            if c == "mulint":
                if w % 2:
                    return None
                a = g((kind, w // 2), d - 1)
                k = ("i", self.rand_int_for((kind, w // 2)))
                return ("ar", "mul", a, k) if r.random() < 0.5 else ("ar", "mul", k, a)
            if c == "div":
                return ("ar", "div", g((kind, w), d - 1), g((kind, r.randint(1, self.maxw)), d - 1))
            if c in ("mod", "rem"):
                return ("ar", c, g((kind, r.randint(1, self.maxw)), d - 1), g((kind, w), d - 1))
            if c == "divint":
                a = g((kind, w), d - 1)
                k = self.rand_int_for(t)
                op = r.choice(["div", "mod", "rem"])
                if r.random() < 0.5:
                    return ("ar", op, a, ("i", k if k != 0 else 1 if fits(t, 1) else -1))
                return ("ar", op, ("i", k), a)
            if c == "bo":
                return ("bo", r.choice(LOPS), g(t, d - 1), self.maybe_lit(g(t, d - 1), t))
            if c == "inv":
                return ("inv", g(t, d - 1))
            if c in ("neg", "abs"):
                return (c, g(t, d - 1))
            if c in ("shl", "shr"):
                a = g(t, d - 1)
                if r.random() < 0.4:
                    n = ("i", r.choice([0, 1, w - 1, w, w + 1, r.randint(0, w + 2)]))
                else:
                    n = g(("u", r.randint(1, min(4, self.maxw))), d - 1)
                return (c, a, n)
            if c == "view":
                other = r.choice([x for x in ("u", "s", "bv") if x != kind])
                return ("uns" if kind == "u" else "sgn", g((other, w), d - 1))
            if c == "rsz":
                return ("rsz", g((kind, r.randint(1, w)), d - 1), w)
            if c == "ite":
                return ("ite", g(self.truthy_type(), d - 1), g(t, d - 1), g(t, d - 1))
            return self.gen_sel(t, d)
        # bv
        c = r.choice(["bo", "inv", "cat", "cat", "slc", "slc", "view", "ite", "sel"])
        if c == "bo":
            return ("bo", r.choice(LOPS), g(t, d - 1), g(t, d - 1))
        if c == "inv":
            return ("inv", g(t, d - 1))
        if c == "cat":
            if w < 2:
                return None
            wa = r.randint(1, w - 1)
            return ("cat", self.cat_operand(wa, d), self.cat_operand(w - wa, d))
        if c == "slc":
            ws = r.randint(w, max(w, self.maxw))
            lo = r.randrange(ws - w + 1)
            return ("slc", g((r.choice(["u", "s", "bv"]), ws), d - 1), lo + w - 1, lo)
        if c == "view":
            return ("bv", g((r.choice(["u", "s"]), w), d - 1))
        if c == "ite":
            return ("ite", g(self.truthy_type(), d - 1), g(t, d - 1), g(t, d - 1))
        return self.gen_sel(t, d)

    def cat_operand(self, w, d):
        r = self.rng
        if w == 1 and r.random() < 0.6:
            return self.gen(BIT, d - 1)
        return self.gen((r.choice(["u", "s", "bv"]), w), d - 1)

    def truthy_type(self):
        r = self.rng
        c = r.choice(["bit", "bool", "bool", "u", "s", "bv"])
        if c == "bit":
            return BIT
        if c == "bool":
            return BOOL
        return (c, r.randint(1, self.maxw))

    def gen_sel(self, t, d):
        r = self.rng
        cands = self.ports_of(lambda x: (is_vec(x) and x[1] <= 3) or x == BIT)
        if not cands:
            return None
        i = r.choice(cands)
        targ = self.ports[i]
        arg = self.port(i)
        if targ == BIT:
            keys = [0, 1]
        elif targ[0] == "s":
            keys = list(range(-(1 << (targ[1] - 1)), 1 << (targ[1] - 1)))
        else:
            keys = list(range(1 << targ[1]))
        r.shuffle(keys)
        full = r.random() < 0.3
        n = len(keys) if full else r.randint(1, max(1, len(keys) - 1))
        branches = [(k, self.gen(t, d - 1)) for k in keys[:n]]
        default = None if (full and n == len(keys)) else self.gen(t, d - 1)
        return ("sel", arg, branches, default, targ) if False else ("sel", arg, branches, default)


def malformed(rng, gen):
    """expressions the width/kind rules reject (separate stream): mixed signedness, width mismatch, ..."""
    g = gen.gen
    mw = gen.maxw
    w = rng.randint(1, mw)
    w2 = rng.choice([x for x in range(1, mw + 2) if x != w])
    c = rng.randrange(12)
    if c == 0:
        return ("ar", rng.choice(AOPS), g(("u", w), 1), g(("s", w2), 1))
    if c == 1:
        return ("bo", rng.choice(LOPS), g(("u", w), 1), g(("u", w2), 1))
    if c == 2:
        return ("bo", rng.choice(LOPS), g(("u", w), 1), g(("bv", w), 1))
    if c == 3:
        return ("cmp", rng.choice(COPS), g(("u", w), 1), g(("s", w), 1))
    if c == 4:
        return ("cmp", rng.choice(["lt", "ge"]), g(("bv", w), 1), g(("bv", w), 1))
    if c == 5:
        return ("cmp", "eq", g(("bv", w), 1), g(("bv", w2), 1))
    if c == 6:
        return ("ar", rng.choice(["add", "sub"]), g(("s", w), 1), ("i", (1 << (w - 1)) + rng.randint(0, 3)))
    if c == 7:
        return ("shl", g(("bv", w), 1), ("i", 1))
    if c == 8:
        return ("shr", g(("u", w), 1), g(("s", w2), 1))
    if c == 9:
        return ("rsz", g(("u", w + 1), 1), w)
    if c == 10:
        return ("abs", g(("u", w), 1))
    return ("ar", "add", g(("u", w), 1), g(BIT, 1))


# ---------------------------------------------------------------------------------------------------
# designs
# ---------------------------------------------------------------------------------------------------

HEADER = '''
import cohdl
from cohdl import std, Bit, BitVector, Unsigned, Signed, Port, Signal, Variable, Null, Full
from cohdl import op

TYPES = {}

def rec(k, v):
    d = cohdl.TypeQualifier.decay(v) if isinstance(v, cohdl.TypeQualifier) else v
    t = type(d)
    TYPES[k] = t.__name__ + (str(t.width) if hasattr(t, "width") else "")

class E(cohdl.Entity):
    clk = Port.input(Bit)
'''


def design_source(ports, shadows, exprs, out_types, clocked, record=True):
    """exprs: list of trees; out_types: list of model types (bool observed through a Bit port)"""
    lines = [HEADER]
    for i, t in enumerate(ports):
        lines.append(f"    p{i} = Port.input({ty_py(t)})\n")
    for k, t in enumerate(out_types):
        lines.append(f"    o{k} = Port.output({ty_py(t)})\n")
    lines.append("\n    def architecture(self):\n")
    shared = shared_of(shadows)
    reassign = {int(k): v for k, v in shadows.get("reassign", {}).items()}
    plain = sorted(shadows.get("g", ()))
    variables = sorted(shadows.get("v", ())) if clocked else []
    shadows = shadow_ports(shadows)
    for i in plain:
        lines.append(f"        g{i} = Signal[{ty_py(ports[i])}](name='g{i}')\n")
    for i in variables:
        lines.append(f"        v{i} = Variable[{ty_py(ports[i])}](name='v{i}')\n")
    for i, dflt in sorted(shadows.items()):
        lines.append(f"        q{i} = Signal[{ty_py(ports[i])}]({lit_py(ports[i], dflt) if ports[i][0] == 'bv' else dflt}, name='q{i}')\n")
    if shadows or plain:
        lines.append("\n        @std.concurrent\n        def shadow():\n")
        for i in sorted(shadows):
            lines.append(f"            q{i}.next = self.p{i}\n")
        for i in plain:
            lines.append(f"            g{i}.next = self.p{i}\n")
    for j, (tree, _, where) in enumerate(shared):
        if where == "arch":
            lines.append(f"        f{j} = {to_py(tree)}\n")
    if clocked:
        lines.append("\n        @std.sequential(std.Clock(self.clk))\n        def logic():\n")
    else:
        lines.append("\n        @std.concurrent\n        def logic():\n")
    for i in variables:
        lines.append(f"            v{i}.value = self.p{i}\n")
    for j, (tree, _, where) in enumerate(shared):
        if where != "arch":
            lines.append(f"            f{j} = {to_py(tree)}\n")
    # the Variables are reassigned AFTER the named sub-expressions were evaluated and BEFORE the outputs use them
    for i, tree in sorted(reassign.items()):
        if i in variables:
            lines.append(f"            v{i}.value = {to_py(tree)}\n")
    for k, e in enumerate(exprs):
        lines.append(f"            r{k} = {to_py(e)}\n")
        if record:
            lines.append(f"            std.as_pyeval(rec, {k}, r{k})\n")
        lines.append(f"            self.o{k} <<= r{k}\n")
    if not exprs:
        lines.append("            pass\n")
    return "".join(lines)


REAL_TY = {"Bit": "bit", "_Boolean": "bool", "bool": "bool", "_BooleanLiteral": "bool"}


def canon_real_type(s):
    if s is None:
        return None
    m = re.fullmatch(r"(Unsigned|Signed|BitVector)(\d+)", s)
    if m:
        return {"Unsigned": "u", "Signed": "s", "BitVector": "bv"}[m.group(1)] + m.group(2)
    return REAL_TY.get(s, "other:" + s)


def _compile_task(src):
    """compile one generated design with the real compiler; returns vhdl + recorded result types"""
    import_cohdl()
    from cohdl import std

    try:
        mod = load_design_module(src, tag="c02")
        text = std.VhdlCompiler.to_string(mod.E)
        return {"ok": True, "vhdl": text, "types": {k: v for k, v in mod.TYPES.items()}}
    except BaseException as e:  # noqa
        return {"ok": False, "errtype": type(e).__name__, "err": str(e)[-400:]}


def compile_designs(srcs):
    out = []
    for r in fork_map(_compile_task, srcs):
        out.append(r[1] if r[0] == "ok" else {"ok": False, "errtype": "HarnessError", "err": r[1]})
    return out


class Design2(Design):
    """`(x) & (y)` of two std_logic values assigned to a std_logic_vector target is legal VHDL (the target type
    resolves the overload); the shared interpreter rejects it as ambiguous - see SHARED-CHANGE-REQUEST in
    notes/C02.md.  Locally: the result is an untyped vector like a string literal, typed by the assignment."""

    def _concat(self, a, b):
        from .vhdl_sim import SL, Vec

        if isinstance(a, SL) and isinstance(b, SL):
            return Vec(None, a.v + b.v)
        return super()._concat(a, b)

    def _arith(self, op, a, b):
        """a division by zero while the delta cycles of a valuation are still settling (or at time zero, from
        default values) must not abort the run: numeric_std-style, the result is all-'X'; if the divisor is
        still zero when the design has settled the output is 'X' (= None), which only valuations outside the
        documented domain may show"""
        from .vhdl_sim import Vec, allx

        try:
            return super()._arith(op, a, b)
        except VhdlRuntimeError as e:
            if "division by zero" not in str(e):
                raise
            va, vb = isinstance(a, Vec), isinstance(b, Vec)
            if va and vb:
                return allx(a.kind, a.width if op == "/" else b.width)
            if va:
                return allx(a.kind, a.width)
            if vb:
                return allx(b.kind, b.width)
            raise


def _fresh_design(vhdl, nports, inits):
    """elaborate + initialise on the first valuation of `inits` that does not abort (division by zero at
    time zero is outside the documented domain)"""
    last = None
    for v in inits:
        d = Design2(vhdl)
        d.set("clk", 0)
        for i in range(nports):
            d.set(f"p{i}", v[i])
        try:
            d.initialise()
            return d, None
        except (VhdlTypeError, VhdlRuntimeError) as e:
            last = f"{type(e).__name__}: {e}"
    return None, last


def _sim_task(task):
    """(vhdl, n ports, n outputs, clocked, valuations, init candidates) -> ('ok', rows) | ('elab-error', msg);
    a row is the list of outputs or ('err', kind, msg) when the valuation aborts the simulation"""
    vhdl, nports, nouts, clocked, vals, inits = task
    try:
        d, msg = _fresh_design(vhdl, nports, inits)
    except (VhdlTypeError, VhdlRuntimeError, VhdlSyntaxError) as e:
        return ("elab-error", f"{type(e).__name__}: {e}")
    if d is None:
        return ("elab-error", msg)
    res = []
    for v in vals:
        try:
            for i, x in enumerate(v):
                d.set(f"p{i}", x)
            d.settle()
            if clocked:
                d.clock("clk")
            res.append([d.get(f"o{k}") for k in range(nouts)])
        except (VhdlTypeError, VhdlRuntimeError) as e:
            res.append(("err", type(e).__name__, str(e)[:200]))
            # the design state may be inconsistent after an aborted delta cycle: rebuild
            d, msg = _fresh_design(vhdl, nports, inits)
            if d is None:
                return ("elab-error", msg)
    return ("ok", res)


def raw_value(t, x):
    """valuations carry raw bit patterns; Design.set takes two's complement for signed"""
    if t[0] == "s" and x >= (1 << (t[1] - 1)):
        return x - (1 << t[1])
    return x


def valuations(rng, ports, exhaustive_bits, n_random):
    bits = sum(width(t) for t in ports)
    if bits <= exhaustive_bits:
        ranges = [range(1 << width(t)) for t in ports]
        return [tuple(raw_value(t, x) for t, x in zip(ports, v)) for v in itertools.product(*ranges)], True
    vals = set()
    corners = []
    for t in ports:
        w = width(t)
        c = {0, 1 % (1 << w), (1 << w) - 1, 1 << (w - 1), (1 << (w - 1)) - 1 if w > 1 else 0, (1 << w) - 2 if w > 1 else 0, 2 % (1 << w), 3 % (1 << w)}
        corners.append(sorted(c))
    for _ in range(n_random):
        v = []
        for t, c in zip(ports, corners):
            w = width(t)
            m = rng.random()
            if m < 0.45:
                x = rng.choice(c)
            elif m < 0.6:
                x = rng.randrange(min(1 << w, 8))
            elif m < 0.7:
                x = (1 << w) - 1 - rng.randrange(min(1 << w, 8))
            else:
                x = rng.randrange(1 << w)
            v.append(raw_value(t, x))
        vals.add(tuple(v))
    return sorted(vals), False


def env_str(v):
    return "(" + " ".join(str(x) for x in v) + ")"


# ---------------------------------------------------------------------------------------------------
# emitted text vs `lower e` (diagnostic)
# ---------------------------------------------------------------------------------------------------


def _norm_ast(n, rename):
    if isinstance(n, tuple):
        if n and n[0] == "name":
            return ("name", rename.get(n[1].lower(), n[1].lower()))
        if n and n[0] == "call":
            return ("call", n[1].lower(), tuple(_norm_ast(a, rename) for a in n[2]))
        return tuple(_norm_ast(x, rename) for x in n)
    if isinstance(n, list):
        return tuple(_norm_ast(x, rename) for x in n)
    if isinstance(n, str):
        return n.lower()
    return n


def emitted_expr_asts(vhdl, nouts):
    """inline the temporaries of the concurrent `logic` block: {k: AST of the expression driving o<k>}"""
    from .vhdl_parse import parse

    units = parse(vhdl)
    arch = [u for u in units if u["unit"] == "architecture"][-1]
    defs = {}
    for s in arch["stmts"]:
        if s["stmt"] == "cassign" and s["target"][0] == "name":
            defs[s["target"][1].lower()] = ("expr", s["expr"])
        elif s["stmt"] == "select" and s["target"][0] == "name":
            defs[s["target"][1].lower()] = ("select", s)

    def inline(n, depth=0):
        if depth > 200:
            raise ValueError("cycle")
        if isinstance(n, tuple) and n and n[0] == "name":
            nm = n[1].lower()
            if nm.startswith("temp") or nm.startswith("buffer_") or re.fullmatch(r"q\d+", nm):
                d = defs.get(nm)
                if d is None:
                    return n
                if d[0] == "expr":
                    return inline(d[1], depth + 1)
                s = d[1]
                brs = s["branches"]
                arg = inline(s["sel"], depth + 1)
                items = [(inline(v, depth + 1), c) for v, c in brs]
                # last branch is the `others` / final alternative
                acc = items[-1][0]
                for v, c in reversed(items[:-1]):
                    acc = ("call", "cohdl_select", (arg, inline(c, depth + 1) if c is not None else ("name", "others"), v, acc))
                return acc
            return n
        if isinstance(n, tuple):
            if n and n[0] == "call":
                return ("call", n[1], tuple(inline(a, depth + 1) for a in n[2]))
            return tuple(inline(x, depth + 1) if isinstance(x, (tuple, list)) else x for x in n)
        if isinstance(n, list):
            return tuple(inline(x, depth + 1) for x in n)
        return n

    out = {}
    for k in range(nouts):
        d = defs.get(f"o{k}")
        if d is None or d[0] != "expr":
            continue
        out[k] = _norm_ast(inline(d[1]), {})
    return out


def strip_result_cast(ast):
    """the assignment to the Bit port wraps a boolean result in cohdl_bool_to_std_logic"""
    if isinstance(ast, tuple) and ast and ast[0] == "call" and ast[1] == "cohdl_bool_to_std_logic" and len(ast[2]) == 1:
        return ast[2][0]
    return ast


def model_text_ast(text):
    try:
        return _norm_ast(Parser(text).expr(), {})
    except Exception:
        return None


# ---------------------------------------------------------------------------------------------------
# the check
# ---------------------------------------------------------------------------------------------------


def make_ports(rng, small, maxw):
    """operand ports of one design"""
    ports = []
    if small:
        # total width small enough for an exhaustive sweep
        budget = rng.randint(6, 9)
        kinds = ["u", "s", "u", "s", "bv", "bit"]
        rng.shuffle(kinds)
        for kd in kinds:
            if kd == "bit":
                if budget >= 1:
                    ports.append(BIT)
                    budget -= 1
                continue
            w = rng.randint(1, min(maxw, max(1, budget - 1)))
            if budget - w < 0:
                continue
            ports.append((kd, w))
            budget -= w
            if budget <= 0:
                break
        if not any(t[0] == "u" for t in ports):
            ports.append(("u", 1))
        # two inputs of exactly the same type (needed for same-type operand pairs with different qualifier kinds)
        nums = [t for t in ports if t[0] in ("u", "s") and sum(width(x) for x in ports) + t[1] <= 10]
        if nums and rng.random() < 0.6:
            ports.append(rng.choice(nums))
    else:
        for kd in ["u", "u", "s", "s", "bv", "bv"]:
            w = rng.choice([1, 2, 3, 5, 7, 8, 13, 16, 31, 32, 33, 48, 63, 64]) if rng.random() < 0.7 else rng.randint(1, maxw)
            if len(ports) in (1, 3) and rng.random() < 0.5:
                w = ports[-1][1]  # same type as the previous input of this kind
            ports.append((kd, min(w, maxw)))
        ports += [BIT, BIT]
    return ports


def root_type(rng, maxw):
    c = rng.choice(["u", "u", "s", "s", "bv", "bit", "bool", "bool"])
    if c == "bit":
        return BIT
    if c == "bool":
        return BOOL
    return (c, rng.randint(1, maxw))


def parse_model_type(s):
    if s.startswith("err") or s == "bad-op":
        return None
    if s in ("bit", "bool", "int"):
        return (s,)
    m = re.fullmatch(r"(bv|u|s)(\d+)", s)
    return (m.group(1), int(m.group(2)))


class DesignCase:
    def __init__(self, ports, shadows, exprs, clocked, small):
        self.ports, self.shadows, self.exprs, self.clocked, self.small = ports, shadows, exprs, clocked, small
        self.types = None
        self.src = None


def build_designs(ctx, n_designs, per_design, depth, small, maxw, clocked_ratio=0.35):
    rng = ctx.rng
    designs = []
    for _ in range(n_designs):
        ports = make_ports(rng, small, maxw)
        shadows = {}
        for i, t in enumerate(ports):
            if rng.random() < 0.4:
                if t == BIT:
                    shadows[i] = rng.randrange(2)
                elif t[0] == "s":
                    shadows[i] = rng.choice([-(1 << (t[1] - 1)), -1 if t[1] > 1 else 0, (1 << (t[1] - 1)) - 1, 0, rng.randint(-(1 << (t[1] - 1)), (1 << (t[1] - 1)) - 1)])
                else:
                    shadows[i] = rng.choice([0, (1 << t[1]) - 1, rng.randrange(1 << t[1])])
        clocked = rng.random() < clocked_ratio
        shadows["g"] = [i for i in range(len(ports)) if rng.random() < 0.35]
        shadows["v"] = [i for i in range(len(ports)) if clocked and rng.random() < 0.3]
        g = Gen(rng, ports, maxw, shadows)
        exprs = []
        add_shared(rng, g, shadows, exprs, rng.randint(0, 2))
        for _ in range(per_design):
            t = root_type(rng, maxw)
            e = g.gen(t, rng.randint(1, depth))
            if is_vec(t) and rng.random() < 0.25:
                e, _ = root_convert(rng, g, e, t, maxw if not small else 8)
            exprs.append(e)
        rng.shuffle(exprs)
        designs.append(DesignCase(ports, shadows, exprs, clocked, small))
    return designs


def add_shared(rng, g, shadows, exprs, n, direct=True):
    """give the design n named sub-objects (nested slices / slices of views / views of slices) and, for each, a few
    outputs that read the SAME object directly and through several views - sharing of one qualifier object between
    several printed expressions is what a per-expression generator never produces"""
    cands = [i for i, t in enumerate(g.ports) if is_vec(t) and t[1] >= 3]
    if not cands or n <= 0:
        return
    shared = []
    for _ in range(n):
        i = rng.choice(cands)
        tree = g.chain(i, rng.randint(2, 4))
        shared.append((tree, tree_type(tree), rng.choice(["arch", "logic"])))
    shadows["shared"] = shared
    g.shared = shared
    if not direct:
        return
    for j, (tree, t, _) in enumerate(shared):
        f = g.sh(j)
        uses = []
        if is_vec(t):
            w = t[1]
            uses += [f, ("uns", f), ("sgn", f), ("bv", f), ("idx", f, rng.randrange(w)), ("inv", ("uns", f)),
                     ("shr", ("sgn", f), ("i", 1)), ("ar", "add", ("uns", f), g.gen(("u", rng.randint(1, w)), 1)),
                     ("cmp", rng.choice(COPS), ("sgn", f), ("i", rng.randint(-2, 2))), ("cat", f, ("bv", f))]
            if w >= 2:
                lo = rng.randrange(w - 1)
                uses += [("slc", f, rng.randint(lo, w - 1), lo), ("uns", ("slc", f, w - 1, 1))]
        else:
            uses += [f, ("inv", f), ("truth", f)]
        rng.shuffle(uses)
        exprs.extend(uses[: rng.randint(3, 5)])


def slice_designs(ctx):
    """designs dedicated to sub-object sharing: one vector port of 6..8 bits (+ a small operand), 2-3 shared object
    chains, all their views / indices / sub-slices as separate outputs plus random expressions over them; <= 11 input
    bits, so every design is swept over ALL operand valuations"""
    rng = ctx.rng
    out = []
    for n in range(ctx.scale(6, 40)):
        w0 = rng.randint(5, 8)
        ports = [(rng.choice(["bv", "u", "s"]), w0), (rng.choice(["u", "s"]), rng.randint(1, 10 - w0)), BIT]
        shadows = {}
        if rng.random() < 0.3:
            shadows[0] = rng.randrange(1 << (w0 - 1))
        shadows["g"] = [i for i in range(len(ports)) if rng.random() < 0.3]
        g = Gen(rng, ports, 4, shadows)
        exprs = []
        g.ports = [ports[0]]  # chains over the wide port
        add_shared(rng, g, shadows, exprs, rng.randint(2, 3))
        g.ports = ports
        for _ in range(4):
            exprs.append(g.gen(root_type(rng, 4), 2))
        rng.shuffle(exprs)
        out.append(DesignCase(ports, shadows, exprs, n % 3 == 2, True))
    return out


def conv_targets(t, maxw):
    """types a result of type t may drive (implicit conversion on assignment, value / pattern preserving)"""
    if t[0] == "u":
        return [("u", w) for w in range(t[1] + 1, min(maxw, t[1] + 3) + 1)] + \
               [("s", w) for w in range(t[1] + 1, min(maxw, t[1] + 3) + 1)] + [("bv", t[1])]
    if t[0] == "s":
        return [("s", w) for w in range(t[1] + 1, min(maxw, t[1] + 3) + 1)] + [("bv", t[1])]
    if t[0] == "bv":
        return [("u", t[1]), ("s", t[1])]
    return []


def has_conv(e):
    return e[0] in ("conv", "tlit") or any(has_conv(c) for c in children(e))


def full_value(t):
    return -1 if t[0] == "s" else (1 << t[1]) - 1


def literal_arm(rng, tgt, form=None):
    """an arm whose type is fixed only by the target: Full / Null / python int / bit string"""
    forms = ["Full", "Null", "int"] if tgt[0] in ("u", "s") else ["Full", "Null", "str"]
    form = form or rng.choice(forms)
    if form == "Full":
        return ("tlit", "Full", tgt, full_value(tgt))
    if form == "Null":
        return ("tlit", "Null", tgt, 0)
    w = tgt[1]
    if tgt[0] == "s":
        v = rng.choice([-(1 << (w - 1)), -1, (1 << (w - 1)) - 1, rng.randint(-(1 << (w - 1)), (1 << (w - 1)) - 1)])
    else:
        v = rng.choice([(1 << w) - 1, 1 << (w - 1), rng.randrange(1 << w)])
    return ("tlit", form, tgt, v)


def typed_arm(rng, g, tgt, d=1):
    """a typed arm that the target accepts (narrower or equal width, convertible kind)"""
    w = tgt[1]
    if tgt[0] == "u":
        src = ("u", rng.randint(1, w))
    elif tgt[0] == "s":
        src = ("u", rng.randint(1, w - 1)) if (w > 1 and rng.random() < 0.5) else ("s", rng.randint(1, w))
    else:
        src = (rng.choice(["bv", "u", "s"]), w)
    e = g.gen(src, d)
    return e if src == tgt else ("conv", e, tgt)


def merged_root(rng, g, tgt, depth=1):
    """an if-expression / select_with typed by its TARGET: arms are typed values of smaller width / other kind and
    width-less literals (Full, Null, int, bit string) in every position"""
    def arm(allow_nested):
        c = rng.random()
        if c < 0.4:
            return literal_arm(rng, tgt)
        if allow_nested and c < 0.5:
            return ("ite", g.gen(g.truthy_type(), 1), arm(False), arm(False))
        return typed_arm(rng, g, tgt)
    if rng.random() < 0.5:
        return ("ite", g.gen(g.truthy_type(), 1), arm(depth > 0), arm(depth > 0))
    cands = g.ports_of(lambda x: (is_vec(x) and x[1] <= 2) or x == BIT)
    if not cands:
        return ("ite", g.gen(g.truthy_type(), 1), arm(False), arm(False))
    i = rng.choice(cands)
    targ = g.ports[i]
    keys = [0, 1] if targ == BIT else (list(range(-(1 << (targ[1] - 1)), 1 << (targ[1] - 1))) if targ[0] == "s" else list(range(1 << targ[1])))
    rng.shuffle(keys)
    full = rng.random() < 0.3
    n = len(keys) if full else rng.randint(1, max(1, len(keys) - 1))
    branches = [(k, arm(False)) for k in keys[:n]]
    default = None if full else arm(False)
    return ("sel", g.port(i), branches, default)


def root_convert(rng, g, e, t, maxw):
    """let the result (or the arms of a root if-expression / select_with) drive a target of another type"""
    if rng.random() < 0.45:
        # arms typed only by the target
        tgt = (t[0], min(maxw, t[1] + rng.randint(0, 2))) if t[0] != "bv" else t
        return merged_root(rng, g, tgt), tgt
    c = conv_targets(t, maxw)
    if not c:
        return e, t
    tgt = rng.choice(c)
    return ("conv", e, tgt), tgt


def literal_arm_matrix(ctx):
    """if-expression / select_with arms that are Full / Null / int / bit-string literals in EVERY position (first,
    middle, last, default; also nested and all-literal) mixed with typed arms narrower than the target; the documented
    value of a literal arm is the literal at the TARGET's width (Full = all ones of the target); all valuations, both
    contexts"""
    out = []
    for wa in ([2] if ctx.quick else [1, 2, 3]):
        ports = [("u", wa), ("s", wa), ("bv", wa), ("u", 2), BIT]
        u, s_, v, k2, x = [("p", i, False, t) for i, t in enumerate(ports)]
        ex = []
        for tgt in [("u", wa + 2), ("s", wa + 2), ("bv", wa)]:
            typed = {"u": [("conv", u, tgt), ("conv", ("ar", "add", u, ("i", 1)), tgt)],
                     "s": [("conv", u, tgt), ("conv", s_, tgt)],
                     "bv": [v, ("conv", u, tgt)]}[tgt[0]]
            forms = ["Full", "Null", "int"] if tgt[0] != "bv" else ["Full", "Null", "str"]
            lits = [literal_arm(ctx.rng, tgt, f) for f in forms]
            for ta in typed:
                for l in lits:
                    ex += [("ite", x, ta, l), ("ite", x, l, ta)]
            ex += [("ite", x, lits[0], lits[1]), ("ite", x, lits[2], lits[0]),
                   ("ite", x, typed[0], ("ite", ("p", 0, False, ports[0]), lits[0], typed[1])),
                   ("ite", x, ("ite", ("p", 0, False, ports[0]), typed[1], lits[0]), typed[0])]
            for l in lits:
                ex += [("sel", k2, [(0, l), (1, typed[0]), (2, typed[1])], typed[0]),
                       ("sel", k2, [(0, typed[0]), (1, l), (2, typed[1])], typed[0]),
                       ("sel", k2, [(0, typed[0]), (1, typed[1]), (2, l)], typed[1]),
                       ("sel", k2, [(0, typed[0]), (1, typed[1])], l)]
            ex += [("sel", k2, [(0, typed[0]), (1, lits[0]), (2, typed[1]), (3, lits[1])], None),
                   ("sel", x, [(0, typed[0]), (1, lits[0])], None)]
        for clocked in (False, True):
            for i in range(0, len(ex), 40):
                out.append(DesignCase(ports, {}, ex[i:i + 40], clocked, True))
    return out


def conversion_matrix(ctx):
    """implicit conversion at the root of an expression, systematically: every source kind (port, arithmetic result,
    view) x every legal target kind / width, if-expression and select_with arms of mixed signedness typed by the
    target; widths 2-3 -> up to 5, ALL valuations (so operands with the most significant bit set), both contexts"""
    out = []
    for wa in ([3] if ctx.quick else [1, 2, 3, 4]):
        ports = [("u", wa), ("s", wa), ("bv", wa), ("u", wa), BIT]
        u, s_, v, u2, x = [("p", i, False, t) for i, t in enumerate(ports)]
        srcs = [(u, ("u", wa)), (s_, ("s", wa)), (v, ("bv", wa)), (("ar", "add", u, ("i", 1)), ("u", wa)),
                (("ar", "add", u, u2), ("u", wa)), (("ar", "sub", s_, ("i", 1)), ("s", wa)), (("inv", u), ("u", wa)),
                (("uns", s_), ("u", wa)), (("ar", "mul", u, u2), ("u", 2 * wa))]
        ex = []
        for e, t in srcs:
            for tgt in conv_targets(t, 64):
                ex.append(("conv", e, tgt))
        for w in (wa + 1, wa + 2):
            tgt = ("s", w)
            ex += [("ite", x, ("conv", u, tgt), ("conv", s_, tgt)), ("ite", x, ("conv", s_, tgt), ("conv", u, tgt)),
                   ("ite", x, ("conv", u, tgt), ("conv", ("ar", "add", u2, ("i", 1)), tgt)),
                   ("sel", x, [(0, ("conv", u, tgt)), (1, ("conv", s_, tgt))], None),
                   ("sel", ("p", 3, False, ("u", wa)), [(0, ("conv", u, tgt))], ("conv", s_, tgt)),
                   ("ite", x, ("conv", u, ("u", w)), ("conv", u2, ("u", w)))]
        for clocked in (False, True):
            for i in range(0, len(ex), 40):
                out.append(DesignCase(ports, {}, ex[i:i + 40], clocked, True))
    return out


def snapshot_designs(ctx):
    """clocked designs for the VALUE semantics of expressions: every input is copied into a Variable, named
    sub-expressions `f<j> = <value-producing expression over the Variables>` are evaluated, THEN the Variables are
    reassigned, THEN the outputs use the named sub-expressions (directly and inside further expressions).  The
    documented value is the one at the point of binding (`evalSpec` of the bound tree on the input valuation).
    Only constructors documented to produce a value are bound (arithmetic, resize incl. same width and zeros=,
    shifts, concat, comparisons, abs / neg / invert, bitwise, boolean operators, if-expression, select_with); views,
    slices and indices are aliases by design and are never bound across a reassignment."""
    rng = ctx.rng
    out = []
    for n in range(ctx.scale(6, 48)):
        kd = rng.choice(["u", "s", "u", "s", "bv"])
        w = rng.randint(2, 3)
        ports = [(kd, w)] + ([(kd, w)] if w == 2 and rng.random() < 0.6 else [])
        ports.append(BIT)
        ports.append((rng.choice(["u", "s", "bv"]), 4))  # object of the run-time index
        ports.append(("u", 2))  # run-time index operand (2^2 <= 4)
        iu = len(ports) - 1
        shadows = {"v": list(range(len(ports)))}
        g = Gen(rng, ports, 4, shadows)
        g.force_var = True
        shared = []
        # the direct forms on every Variable, then random value-rooted trees
        cand = []
        for i, t in enumerate(ports):
            v = ("p", i, "v", t)
            if t[0] in ("u", "s"):
                w = t[1]
                cand += [("rsz", v, w), ("rsz", v, w + rng.randint(1, 3)), ("rszz", v, w + 3, rng.randint(1, 2)),
                         ("ar", "add", v, ("i", 1)), ("ar", "sub", ("i", 0), v), ("shl", v, ("i", 1)), ("shr", v, ("i", 1)),
                         ("inv", v), ("neg", v), ("cat", v, v), ("cmp", rng.choice(COPS), v, ("i", 1)),
                         ("ite", ("p", ports.index(BIT), "v", BIT), v, ("inv", v)), ("truth", v), ("not", v),
                         ("sel", ("p", ports.index(BIT), "v", BIT), [(0, v), (1, ("inv", v))], None)]
                if t[0] == "s":
                    cand += [("abs", v)]
            elif t[0] == "bv":
                cand += [("inv", v), ("cat", v, v), ("bo", "xor", v, ("lit", t, 1)), ("cmp", "eq", v, ("lit", t, 0)), ("truth", v)]
            else:
                cand += [("inv", v), ("bo", "and", v, v), ("not", v), ("cat", v, v)]
        rng.shuffle(cand)
        picked = cand[: rng.randint(4, 7)]
        # run-time index with a VARIABLE index: `r = x[idx]` selects the element at the value idx has when the
        # expression is evaluated (cohdl copies the index into a Temporary); the index Variable is reassigned before
        # r is used.  The indexed object is an input port (or a view of it / a value), which does not change.
        vidx = ("p", iu, "v", ("u", 2))
        idxs = []
        for i, t in enumerate(ports[:iu]):
            if is_vec(t) and t[1] >= 4:
                base = ("p", i, False, t)
                idxs += [("idxrt", base, vidx), ("idxrt", (rng.choice(["uns", "sgn", "bv"]), base), vidx),
                         ("inv", ("idxrt", base, vidx)), ("bo", "xor", ("idxrt", base, vidx), ("p", iu - 2, False, BIT))]
        rng.shuffle(idxs)
        picked += idxs[: rng.randint(2, 4)]
        for _ in range(rng.randint(2, 4)):
            e = g.gen_value(root_type(rng, 4), rng.randint(1, 2))
            if e is not None:
                picked.append(e)
        types = [parse_model_type(m) for m in model_types(picked)]
        for e, t in zip(picked, types):
            if t is not None and t != INT:
                shared.append((e, t, "snap"))
        shadows["shared"] = shared
        # reassignment: another value for every Variable (function of its old value or of another input)
        re = {}
        for i, t in enumerate(ports):
            v = ("p", i, "v", t)
            same = [j for j, tj in enumerate(ports) if tj == t and j != i]
            c = rng.random()
            if same and c < 0.35:
                re[i] = ("p", rng.choice(same), False, t)
            elif t[0] in ("u", "s") and c < 0.7:
                re[i] = ("ar", "add", v, ("i", 1))
            else:
                re[i] = ("inv", v)
        shadows["reassign"] = re
        # outputs: the named values directly and as leaves of further expressions (no Variable reads here)
        g.force_var = False
        g.vars = set()
        g.shared = shared
        exprs = [g.sh(j) for j in range(len(shared))]
        for _ in range(4):
            exprs.append(g.gen(root_type(rng, 4), 2))
        rng.shuffle(exprs)
        out.append(DesignCase(ports, shadows, exprs, True, True))
    return out


def model_types(exprs):
    ans = lean_io.query("C02", ["type " + to_sexp(e) for e in exprs])
    for a, e in zip(ans, exprs):
        if a == "bad-op":
            raise InfraError(f"model driver rejects the request for {to_sexp(e)}")
    return ans


def check_single(ports, shadows, expr, clocked, vals, context=()):
    """compile + simulate one expression (after the `context` expressions, which are emitted first as further
    outputs of the same design - needed when a failure depends on an object shared with another expression);
    returns dict(status=..., ...)"""
    context = list(context)
    mts = model_types(context + [expr])
    mt = mts[-1]
    ts = [parse_model_type(m) for m in mts]
    if any(t is None for t in ts):
        return {"status": "model-reject", "model_type": mt}
    n = len(ts)
    src = design_source(ports, shadows, context + [expr], ts, clocked)
    c = compile_designs([src])[0]
    if not c["ok"]:
        return {"status": "rejected", "errtype": c["errtype"], "err": c["err"], "source": src, "model_type": mt}
    real_t = canon_real_type(c["types"].get(n - 1))
    spec = lean_io.query("C02", ["eval " + to_sexp(expr) + " " + " ".join(env_str(v) for v in vals)])[0].split(" ")
    inits = [v for v, s in zip(vals, spec) if s != "undef"][:4] + list(vals[:2])
    sim = _sim_task((c["vhdl"], len(ports), n, clocked, vals, inits))
    res = {"status": "ok", "source": src, "vhdl": c["vhdl"], "model_type": mt, "real_type": real_t, "fail": None}
    if sim[0] != "ok":
        if all(s == "undef" for s in spec):
            return res
        res["status"] = "sim-error"
        res["fail"] = {"valuation": None, "expected": None, "observed": sim[1]}
        return res
    for v, s, o in zip(vals, spec, sim[1]):
        if s == "undef":
            continue
        if s == "MODEL-MISMATCH":
            raise InfraError(f"Lean model inconsistent (evalV (lower e) != inj (evalSpec e)) on {to_sexp(expr)} {v}")
        if isinstance(o, tuple):
            res["fail"] = {"valuation": list(v), "expected": int(s), "observed": f"{o[1]}: {o[2]}"}
            break
        if o[-1] is None or int(s) != o[-1]:
            res["fail"] = {"valuation": list(v), "expected": int(s), "observed": o[-1]}
            break
    return res


def shrink(ports, shadows, expr, clocked, vals, context=()):
    """greedy: replace the expression by a failing sub-expression while one exists"""
    best = expr
    best_res = check_single(ports, shadows, expr, clocked, vals, context)
    if best_res.get("fail") is None and best_res["status"] == "ok":
        return None, None
    improved = True
    budget = 40
    while improved and budget > 0:
        improved = False
        cands = list(children(best))
        if best[0] == "conv":
            # keep the implicit conversion while the converted expression shrinks (ill-typed candidates are skipped)
            cands = [("conv", c, best[2]) for c in children(best[1])] + cands
        for c in cands:
            if c[0] in ("i",):
                continue
            budget -= 1
            r = check_single(ports, shadows, c, clocked, vals, context)
            if r["status"] in ("ok", "sim-error") and r.get("fail") is not None:
                best, best_res, improved = c, r, True
                break
            if budget <= 0:
                break
    return best, best_res


def run(ctx: Ctx):
    import time as _t0
    t_run0 = _t0.time()
    rng = ctx.rng
    ctx.rule = ("type-directed expression trees over ports / shadow signals (varying default values) / typed constants / "
                "python ints; several expressions per design, one output each; concurrent and clocked contexts; small "
                "designs are swept over ALL operand valuations, wide designs (widths up to 64) over corner + random "
                "valuations; a case = (expression, context); non-trivial = at least one operator and the result takes "
                "more than one value over the explored valuations; distinct = distinct (expression, ports, context)")
    import os
    dev = float(os.environ.get("C02_DEV_SCALE", "1"))   # development only: shrink the run
    n_small = max(1, int(ctx.scale(22, 200) * dev))
    n_wide = max(1, int(ctx.scale(9, 80) * dev))
    per_design = ctx.scale(9, 14)
    depth = ctx.scale(3, 4)
    exhaustive_bits = ctx.scale(11, 12)
    n_random = ctx.scale(160, 500)
    small_maxw = ctx.scale(4, 4)

    designs = build_designs(ctx, n_small, per_design, depth, True, small_maxw) + \
        build_designs(ctx, n_wide, per_design, depth, False, 64)
    # the operator / operand-kind matrix, one tiny expression each (always swept exhaustively)
    designs += matrix_designs(ctx)
    # sub-object sharing: nested slices / views reused by several outputs (always swept exhaustively)
    designs += slice_designs(ctx)
    # value semantics: named sub-expressions over Variables, Variables reassigned before the outputs use them
    designs += snapshot_designs(ctx)
    # implicit conversion at the root of an expression / of if-expression and select_with arms
    designs += conversion_matrix(ctx)
    designs += literal_arm_matrix(ctx)
    # operand qualifier kinds (Port / Signal / Variable / Temporary / constant) per operand position
    designs += qualifier_matrix(ctx)

    # ---- (a) model typing, designs, compile
    all_exprs = [e for d in designs for e in d.exprs]
    ans = model_types(all_exprs)
    pos = 0
    type_bad_model = 0
    for d in designs:
        d.mtypes = ans[pos: pos + len(d.exprs)]
        pos += len(d.exprs)
        keep = [(e, parse_model_type(m)) for e, m in zip(d.exprs, d.mtypes) if parse_model_type(m) not in (None, INT)]
        type_bad_model += len(d.exprs) - len(keep)
        d.exprs = [e for e, _ in keep]
        d.types = [t for _, t in keep]
        d.src = design_source(d.ports, d.shadows, d.exprs, d.types, d.clocked)
    if type_bad_model:
        ctx.notes.append(f"{type_bad_model} generated expressions of the well-typed stream were rejected by typeOf (generator slack)")
    import time as _t
    t0 = _t.time()
    compiled = compile_designs([d.src for d in designs])
    ctx.extra["t_compile_s"] = round(_t.time() - t0, 1)

    n_rejected = n_type_diff = 0
    extra = []
    for d, c in zip(designs, compiled):
        d.c = c
        if c["ok"]:
            continue
        # a well-typed expression was rejected: find which one(s) by compiling them one by one
        singles = [design_source(d.ports, d.shadows, [e], [t], d.clocked) for e, t in zip(d.exprs, d.types)]
        rs = [c] if len(d.exprs) == 1 else compile_designs(singles)
        good = []
        for e, t, r, s in zip(d.exprs, d.types, rs, singles):
            if r["ok"]:
                good.append((e, t))
                continue
            if report_reject(ctx, d, e, t, r, s):
                n_rejected += 1
        d.exprs = [e for e, _ in good]
        d.types = [t for _, t in good]
        d.src = design_source(d.ports, d.shadows, d.exprs, d.types, d.clocked)
        if d.exprs:
            extra.append(d)
        else:
            d.c = {"ok": False}
    if extra:
        rs = compile_designs([d.src for d in extra])
        for d, r in zip(extra, rs):
            d.c = r
            if not r["ok"]:
                ctx.report(f"reject-combination:{d.clocked}", "expressions accepted one by one are rejected together",
                           {"source": d.src, "error": r}, no_failing_input=True)

    for d in designs:
        if not d.c["ok"]:
            continue
        for k, (e, t) in enumerate(zip(d.exprs, d.types)):
            real = canon_real_type(d.c["types"].get(k))
            if real in ("other:_MergedBranch",) or has_conv(e):
                continue  # the type recorded inside the compiler is the one BEFORE the implicit conversion  # if-expression / select_with whose type is fixed by the assignment target
            if real != ty_str(t):
                n_type_diff += 1
                ctx.report(f"result-type:{shape(e)}",
                           f"result type of `{to_py(e)}` is {real}, the documented width rules give {ty_str(t)}",
                           {"kind": "type", "ports": d.ports, "shadows": sj(d.shadows), "expr": e, "clocked": d.clocked,
                            "expected_type": ty_str(t), "observed_type": real, "source": d.src})
    ctx.obligation("correspondence (a): accept/reject and result type+width of every generated well-typed expression = typeOf",
                   n_rejected == 0 and n_type_diff == 0, detail=f"{len(all_exprs)} expressions, {n_rejected} rejected, {n_type_diff} type differences")

    ctx.extra["t_typing_phase_s"] = round(_t.time() - t0, 1)
    # ---- malformed stream: typeOf rejects; cohdl should not accept and emit something with another meaning
    t1 = _t.time()
    run_malformed(ctx)
    ctx.extra["t_malformed_s"] = round(_t.time() - t1, 1)

    # ---- (b) values
    meta = []
    for d in designs:
        if not d.c["ok"] or not d.exprs:
            continue
        d.vals, d.exh = valuations(rng, d.ports, exhaustive_bits if d.small else 0, n_random)
        meta.append(d)
    reqs = []
    for d in meta:
        envs = " ".join(env_str(v) for v in d.vals)
        for e in d.exprs:
            reqs.append("eval " + to_sexp(e) + " " + envs)
    t0 = _t.time()
    specs = lean_io.query("C02", reqs)
    ctx.extra["t_model_s"] = round(_t.time() - t0, 1)
    pos = 0
    tasks = []
    for d in meta:
        d.spec = []
        for e, line in zip(d.exprs, specs[pos: pos + len(d.exprs)]):
            if line.startswith("err") or line == "bad-op":
                raise InfraError(f"model driver: {line} for {to_sexp(e)}")
            d.spec.append(line.split(" "))
        pos += len(d.exprs)
        alldef = [v for j, v in enumerate(d.vals) if all(sp[j] != "undef" for sp in d.spec)]
        d.inits = alldef[:4] + list(d.vals[:2])
        tasks.append((d.c["vhdl"], len(d.ports), len(d.exprs), d.clocked, d.vals, d.inits))
    t0 = _t.time()
    sims = fork_map(_sim_task, tasks, fresh=False, chunk=1)
    ctx.extra["t_sim_s"] = round(_t.time() - t0, 1)
    n_val_cases = n_mismatch = n_evals = n_skipped = 0
    for d, sr in zip(meta, sims):
        if sr[0] != "ok":
            raise InfraError(f"simulation task crashed: {sr[1]}\n{sr[2] if len(sr) > 2 else ''}")
        sim = sr[1]
        if sim[0] != "ok":
            # the emitted VHDL of the design cannot be elaborated / initialised: find the culprit expressions
            handle_design_failure(ctx, d, sim[1], d.vals[:64])
            n_mismatch += 1
            continue
        rows = sim[1]
        # a valuation that aborts the simulation (division by zero) is excused when some expression of the design
        # is outside the documented domain there; the other expressions are then not observable on it
        err_vals = []
        usable = []
        for j, row in enumerate(rows):
            if isinstance(row, tuple):
                if any(sp[j] == "undef" for sp in d.spec):
                    n_skipped += 1
                else:
                    err_vals.append(d.vals[j])
                usable.append(False)
            else:
                usable.append(True)
        if err_vals:
            handle_design_failure(ctx, d, "run-time error of the emitted VHDL inside the documented domain", err_vals[:8])
            n_mismatch += 1
        for k, (e, t, spec) in enumerate(zip(d.exprs, d.types, d.spec)):
            seen = set()
            bad = None
            for j, (v, s, row) in enumerate(zip(d.vals, spec, rows)):
                if s == "undef" or not usable[j]:
                    continue
                if s == "MODEL-MISMATCH":
                    raise InfraError(f"Lean model inconsistent (evalV (lower e) != inj (evalSpec e)) on {to_sexp(e)} {v}")
                n_evals += 1
                seen.add(s)
                if row[k] is None or row[k] != int(s):
                    bad = bad or (v, int(s), row[k])
            n_val_cases += 1
            ops = ops_in(e, [])
            for o in set(ops):
                ctx.dist["op:" + o] += 1
            ctx.dist["ctx:" + ("clocked" if d.clocked else "concurrent")] += 1
            ctx.dist["sweep:" + ("exhaustive" if d.exh else "corner+random")] += 1
            ctx.dist["root:" + t[0]] += 1
            ctx.case(key=(to_sexp(e), tuple(d.ports), d.clocked), nontrivial=bool(ops) and len(seen) > 1,
                     sample={"expr": to_py(e), "type": ty_str(t), "ports": [ty_str(p) for p in d.ports], "clocked": d.clocked,
                             "valuations": len(d.vals), "exhaustive": d.exh})
            if bad is not None:
                # a difference that is exactly a listed known finding does not break the obligation
                if n_mismatch >= 6 or report_value(ctx, d, e, bad):  # 6 minimised replays are enough; the count goes on
                    n_mismatch += 1
    ctx.extra["valuations_skipped_division_by_zero"] = n_skipped
    ctx.extra["operand_valuations_compared"] = n_evals
    ctx.obligation("correspondence (b): value of the emitted logic = evalSpec on every explored operand valuation",
                   n_mismatch == 0, detail=f"{n_val_cases} expressions, {n_evals} expression x valuation comparisons, {n_mismatch} differing expressions")

    # ---- (c) diagnostic: emitted text vs lower e
    t1 = _t.time()
    run_text_diag(ctx, [d for d in meta if not d.clocked])
    ctx.extra["t_textdiag_s"] = round(_t.time() - t1, 1)
    ctx.extra["t_run_s"] = round(_t.time() - t_run0, 1)


def report_reject(ctx, d, e, t, r, src):
    sig = f"reject:{shape(e)}"
    if sig in ctx.known_hit:
        return False  # this very rejection (same shape, already minimal) was reported as a known finding in this run
    # minimise: a rejected sub-expression?
    best, best_r, best_src = e, r, src
    changed = True
    budget = 12
    while changed and budget > 0:
        changed = False
        for c in children(best):
            if c[0] == "i":
                continue
            mt = parse_model_type(model_types([c])[0])
            if mt in (None, INT):
                continue
            budget -= 1
            s2 = design_source(d.ports, d.shadows, [c], [mt], d.clocked)
            r2 = compile_designs([s2])[0]
            if not r2["ok"]:
                best, best_r, best_src, changed = c, r2, s2, True
                break
    return ctx.report(f"reject:{shape(best)}",
               f"well-typed expression `{to_py(best)}` (documented type {model_types([best])[0]}) is rejected: {best_r['errtype']}: {best_r['err'][-160:]}",
               {"kind": "reject", "ports": d.ports, "shadows": sj(d.shadows), "expr": best, "clocked": d.clocked, "source": best_src,
                "error": best_r})


def report_value(ctx, d, e, bad):
    v, exp, obs = bad
    vals = d.vals if len(d.vals) <= 1500 else ([v] + d.vals[:600])
    context = []
    small, res = shrink(d.ports, d.shadows, e, d.clocked, vals)
    if small is None and shared_used(e):
        # not reproducible alone: the failure may need another expression that reads the same shared sub-object
        # (emitted before this one); find one such partner, then shrink with it as context
        k = d.exprs.index(e)
        mine = shared_used(e)
        partners = [c for c in d.exprs[:k] if shared_used(c) & mine] + [c for c in d.exprs[k + 1:] if shared_used(c) & mine]
        for c in sorted(partners, key=size)[:8]:
            r = check_single(d.ports, d.shadows, e, d.clocked, vals, [c])
            if r["status"] in ("ok", "sim-error") and r.get("fail") is not None:
                # the partner itself can usually be reduced to the bare shared object or one view of it
                for c2 in [("sh", j, d.shadows["shared"][j][0], d.shadows["shared"][j][1]) for j in sorted(shared_used(c) & mine)]:
                    r2 = check_single(d.ports, d.shadows, e, d.clocked, vals, [c2])
                    if r2["status"] in ("ok", "sim-error") and r2.get("fail") is not None:
                        c = c2
                        break
                context = [c]
                small, res = shrink(d.ports, d.shadows, e, d.clocked, vals, context)
                break
    if small is None:
        # not reproducible alone: report the design as it is
        return ctx.report(f"value-in-design:{shape(e)}",
                   f"`{to_py(e)}` differs inside its design only (valuation {v}: expected {exp}, observed {obs})",
                   {"kind": "design", "ports": d.ports, "shadows": sj(d.shadows), "exprs": d.exprs, "clocked": d.clocked,
                    "valuation": list(v), "expected": exp, "observed": obs, "source": d.src, "failing": d.exprs.index(e)},
                   no_failing_input=False)
    f = res["fail"]
    used = sorted(shared_used(small) | (shared_used(context[0]) if context else set()))
    objs = "; ".join(f"f{j} = {to_py(d.shadows['shared'][j][0])}" for j in used)
    sig = f"value:{shape(small)}" + (f"|after:{shape(context[0])}" if context else "")
    return ctx.report(sig,
               f"`{to_py(small)}`" + (f" driving a {ty_py(small[2])} target" if small[0] == "conv" else (f" assigned to a target of type {res.get('model_type')}" if has_conv(small) else "")) + (f" (with {objs})" if objs else "") + (f", emitted after `{to_py(context[0])}`" if context else "") +
               f" ({'clocked' if d.clocked else 'concurrent'}) on operand valuation {f['valuation']} "
               f"(ports {[ty_str(p) for p in d.ports]}): documented value {f['expected']}, emitted logic gives {f['observed']}",
               {"kind": "value", "ports": d.ports, "shadows": sj(d.shadows), "expr": small, "context": context, "clocked": d.clocked,
                "valuation": f["valuation"], "expected": f["expected"], "observed": f["observed"],
                "source": res.get("source"), "vhdl": res.get("vhdl"), "original_expr": to_py(e)})


def handle_design_failure(ctx, d, msg, vals):
    found = False
    for e in d.exprs:
        r = check_single(d.ports, d.shadows, e, d.clocked, vals)
        if r["status"] == "sim-error" or (r["status"] == "ok" and r["fail"] is not None):
            found = True
            small, res = shrink(d.ports, d.shadows, e, d.clocked, vals)
            f = res["fail"]
            ctx.report(f"value:{shape(small)}",
                       f"`{to_py(small)}`: the emitted VHDL cannot be executed / gives a wrong value: {f['observed']}",
                       {"kind": "value", "ports": d.ports, "shadows": sj(d.shadows), "expr": small, "clocked": d.clocked,
                        "valuation": f["valuation"], "expected": f["expected"], "observed": f["observed"],
                        "source": res.get("source"), "vhdl": res.get("vhdl")})
    if not found:
        ctx.report("design-not-executable", f"emitted VHDL of a generated design cannot be executed: {msg}",
                   {"kind": "design", "ports": d.ports, "shadows": sj(d.shadows), "exprs": d.exprs, "clocked": d.clocked, "source": d.src,
                    "error": msg, "valuation": list(vals[0]) if vals else None}, no_failing_input=True)


def matrix_designs(ctx):
    """every operator x operand-kind combination once, on tiny widths, swept exhaustively in both contexts"""
    out = []
    U = lambda i, w: ("p", i, False, ("u", w))
    S = lambda i, w: ("p", i, False, ("s", w))
    V = lambda i, w: ("p", i, False, ("bv", w))
    B = lambda i: ("p", i, False, BIT)
    # 2*(wa+wb)+1 <= 11 input bits: every matrix design is swept over ALL operand valuations
    for wa, wb in ([(3, 2), (2, 3)] if ctx.quick else [(1, 1), (3, 2), (2, 3), (2, 2), (4, 1), (1, 4)]):
        ports = [("u", wa), ("u", wb), ("s", wa), ("s", wb), BIT]
        a, b, s, t, x = U(0, wa), U(1, wb), S(2, wa), S(3, wb), B(4)
        ex = []
        for o in AOPS:
            ex += [("ar", o, a, b), ("ar", o, s, t)]
        for o in COPS:
            ex += [("cmp", o, a, b), ("cmp", o, s, t)]
        ex += [("shl", a, b), ("shr", a, b), ("shl", s, b), ("shr", s, b), ("cat", a, t), ("cat", x, s), ("cat", t, x), ("cat", x, x),
               ("abs", s), ("neg", s), ("inv", a), ("inv", s), ("ite", x, a, ("rsz", b, wa)) if wb <= wa else ("ite", x, ("rsz", a, wb), b)]
        if (wa, wb) == (3, 2):
            # operand forms that were seen to fail on the pinned tree (notes/C02.md): unary minus on Unsigned,
            # a typed Bit constant as LEFT operand, run-time index of / with a Temporary; one design each so that
            # a rejection does not force the isolation of a whole matrix design
            for pe in [("neg", a), ("bo", "and", ("lit", BIT, 1), x), ("bo", "or", ("lit", BIT, 0), x), ("truth", ("truth", ("or", a, b))),
                       ("idxrt", ("rsz", a, 4), ("p", 1, False, ("u", 2))), ("idxrt", ("rsz", a, 4), ("ar", "add", b, b))]:
                for clocked in (False, True):
                    out.append(DesignCase(ports, {}, [pe], clocked, True))
        ki = [0, 1, (1 << wa) - 1]
        for o in AOPS:
            for k in ki:
                ex += [("ar", o, a, ("i", k)), ("ar", o, ("i", k), a)]
            for k in [-(1 << (wa - 1)), -1 if wa > 1 else 0, 1 if wa > 1 else 0, (1 << (wa - 1)) - 1]:
                ex += [("ar", o, s, ("i", k)), ("ar", o, ("i", k), s)]
        for o in COPS:
            ex += [("cmp", o, a, ("i", 2)), ("cmp", o, ("i", 2), a), ("cmp", o, s, ("i", -1)), ("cmp", o, ("i", -2), s)]
        for k in (0, 1, wa, wa + 1):
            ex += [("shl", a, ("i", k)), ("shr", a, ("i", k)), ("shl", s, ("i", k)), ("shr", s, ("i", k))]
        for clocked in (False, True):
            # drop expressions the model itself rejects (e.g. int 1 does not fit Signed[1]) in run()
            chunk = 40
            for i in range(0, len(ex), chunk):
                out.append(DesignCase(ports, {}, ex[i:i + chunk], clocked, True))
    # views, slices, indexing, bitwise on all vector kinds (one design per kind: 2w+1 input bits, swept exhaustively)
    for w in ([3] if ctx.quick else [1, 2, 3, 4]):
        for kd in ("u", "s", "bv"):
            ports = [(kd, w), (kd, w), ("u", 1)]
            a, b, i1 = ("p", 0, False, (kd, w)), ("p", 1, False, (kd, w)), ("p", 2, False, ("u", 1))
            ex = [("sgn", a), ("uns", a), ("bv", a), ("inv", a)]
            ex += [("bo", o, a, b) for o in LOPS]
            ex += [("idx", a, i) for i in range(w)]
            ex += [("slc", a, hi, lo) for hi in range(w) for lo in range(hi + 1)]
            ex += [("truth", a), ("not", a), ("and", a, b), ("or", a, b), ("any", [a, b, i1]), ("all", [a, b])]
            if w >= 2:
                ex += [("idxrt", a, i1)]
            ex += [("cmp", "eq", a, b), ("cmp", "ne", a, b)]
            if kd != "bv":
                ex += [("rsz", a, w + 2), ("rsz", a, w)]
            ex += [("sel", i1, [(0, a), (1, b)], None), ("sel", i1, [(1, a)], b), ("ite", i1, a, b)]
            for clocked in (False, True):
                out.append(DesignCase(ports, {}, ex, clocked, True))
    return out


def qualifier_matrix(ctx):
    """operand QUALIFIER kinds varied independently per operand position, on two inputs of exactly the same type
    (same kind, same width - where the operator dispatch of the front end can take subclass / reflected paths):
    input Port, local Signal with default, local Signal without default, Variable (clocked designs), Temporary
    (intermediate result `x + 0`), typed constant (right operand); every ordered pair, for every comparison operator,
    a chained comparison and binary operators of every family; 4-6 input bits, all valuations, both contexts"""
    out = []
    w = 2
    for kd in ("u", "s"):
        ports = [(kd, w), (kd, w), ("u", 1)]
        t = (kd, w)
        lo, hi = (0, 3) if kd == "u" else (-2, 1)
        shadows = {0: hi, 1: lo, "g": [0, 1], "v": [0, 1]}
        if ctx.quick:
            binops = [("cmp", o) for o in COPS] + [("ar", "sub"), ("chain",)] + ([("ar", "mod"), ("bo", "xor"), ("cat",)] if kd == "u" else [])
        else:
            binops = [("cmp", o) for o in COPS] + [("ar", o) for o in AOPS] + [("bo", o) for o in LOPS] + [("cat",), ("chain",)]
        if kd == "u":
            binops += [("shr",), ("shl",)]
        for clocked in (False, True):
            kinds = ([False, "q", "g"] if (kd == "u" or not ctx.quick) else [False, "g"]) + (["v"] if clocked else [])
            forms_a = [("p", 0, k, t) for k in kinds]
            forms_b = [("p", 1, k, t) for k in kinds]
            ext_a = forms_a + [("ar", "add", ("p", 0, False, t), ("i", 0))]
            ext_b = forms_b + [("ar", "add", ("p", 1, False, t), ("i", 0)), ("lit", t, hi)]
            ex = []
            for bop in binops:
                extended = bop in (("cmp", "lt"), ("cmp", "ge"), ("ar", "sub")) or not ctx.quick and bop[0] in ("cmp", "chain")
                if bop[0] in ("shr", "shl") and ctx.quick:
                    ex += [(bop[0], a, ("p", 1, False, t)) for a in forms_a]
                    continue
                if extended and (kd == "u" or not ctx.quick):
                    pairs = [(a, b) for a in ext_a for b in ext_b]
                else:
                    pairs = [(a, b) for a in forms_a for b in forms_b]
                for a, b in pairs:
                    if bop[0] in ("cmp", "ar", "bo"):
                        ex.append((bop[0], bop[1], a, b))
                    elif bop[0] == "chain":
                        ex.append(("chain", "le", "lt", ("i", lo), a, b))
                    else:
                        ex.append((bop[0], a, b))
            for i in range(0, len(ex), 40):
                out.append(DesignCase(ports, dict(shadows), ex[i:i + 40], clocked, True))
    return out


def run_malformed(ctx):
    rng = ctx.rng
    n = ctx.scale(40, 300)
    ports = [("u", 3), ("u", 4), ("s", 3), ("s", 4), ("bv", 3), ("bv", 4), BIT]
    g = Gen(rng, ports, 4, set())
    exprs = [malformed(rng, g) for _ in range(n)]
    mt = model_types(exprs)
    todo = [(e, m) for e, m in zip(exprs, mt) if parse_model_type(m) is None]
    # the output type is unknown: observe through as_pyeval only (no output port)
    srcs = []
    for e, _ in todo:
        src = design_source(ports, {}, [], [], False).replace("            pass\n", f"            r0 = {to_py(e)}\n            std.as_pyeval(rec, 0, r0)\n")
        srcs.append(src)
    rs = compile_designs(srcs)
    accepted = 0
    for (e, m), r in zip(todo, rs):
        ctx.dist["malformed:" + m] += 1
        ctx.case(key=("malformed", to_sexp(e)), nontrivial=True, kind="malformed")
        if r["ok"]:
            accepted += 1
            ctx.dist["malformed-accepted:" + shape(e)] += 1
    ctx.extra["malformed_stream"] = {"generated": len(todo), "accepted_by_cohdl": accepted,
                                     "note": "expressions outside the documented typing rules; acceptance by cohdl is recorded, not judged (the property speaks about well-typed expressions)"}


def run_text_diag(ctx, designs):
    reqs, where = [], []
    for d in designs:
        for k, e in enumerate(d.exprs):
            reqs.append("lower " + to_sexp(e))
            where.append((d, k))
    if not reqs:
        return
    texts = lean_io.query("C02", reqs)
    same = diff = skipped = 0
    cache = {}
    examples = []
    for (d, k), txt in zip(where, texts):
        if id(d) not in cache:
            try:
                cache[id(d)] = emitted_expr_asts(d.c["vhdl"], len(d.exprs))
            except Exception as ex:  # noqa
                cache[id(d)] = None
        asts = cache[id(d)]
        if asts is None or k not in asts:
            skipped += 1
            continue
        want = model_text_ast(txt)
        if want is None:
            skipped += 1
            continue
        got = strip_result_cast(asts[k])
        got = _norm_ast(got, {})
        got_s = repr(got)
        for i in range(len(d.ports)):
            got_s = got_s.replace(f"'q{i}'", f"'p{i}'")
        if got_s == repr(want):
            same += 1
        else:
            diff += 1
            if len(examples) < 3:
                examples.append({"expr": to_py(d.exprs[k]), "model": txt})
    ctx.extra["text_diagnostic"] = {"identical_to_lower": same, "different_but_equal_in_value": diff, "not_compared": skipped,
                                    "examples_of_textual_differences": examples,
                                    "note": "diagnostic only: textual differences are not violations (values are compared in (b))"}


# ---------------------------------------------------------------------------------------------------
# replay
# ---------------------------------------------------------------------------------------------------


def _tup(x):
    if isinstance(x, list):
        return tuple(_tup(y) for y in x)
    return x


def _expr_from_json(x):
    """json turns tuples into lists; the `any`/`all`/`sel` nodes contain real lists"""
    if isinstance(x, list):
        if x and x[0] in ("any", "all"):
            return (x[0], [_expr_from_json(y) for y in x[1]])
        if x and x[0] == "sel":
            return ("sel", _expr_from_json(x[1]), [(k, _expr_from_json(v)) for k, v in x[2]], _expr_from_json(x[3]) if x[3] is not None else None)
        return tuple(_expr_from_json(y) for y in x)
    return x


def replay(ctx, data):
    r = data["replay"]
    kind = r.get("kind")
    ports = [tuple(p) for p in r["ports"]]
    shadows = {int(k): v for k, v in r.get("shadows", {}).items() if k not in ("shared", "g", "v", "reassign")}
    if r.get("shadows", {}).get("reassign"):
        shadows["reassign"] = {int(k): _expr_from_json(v) for k, v in r["shadows"]["reassign"].items()}
    for key in ("g", "v"):
        if r.get("shadows", {}).get(key):
            shadows[key] = list(r["shadows"][key])
    if r.get("shadows", {}).get("shared"):
        shadows["shared"] = [(_expr_from_json(t), tuple(ty), where) for t, ty, where in r["shadows"]["shared"]]
    if kind in ("value", "type", "reject"):
        e = _expr_from_json(r["expr"])
        context = [_expr_from_json(x) for x in r.get("context", [])]
        vals = [tuple(r["valuation"])] if r.get("valuation") else [tuple(0 for _ in ports)]
        res = check_single(ports, shadows, e, r["clocked"], vals, context)
        for j, (tree, _, where) in enumerate(shared_of(shadows)):
            print(f"shared     : f{j} = {to_py(tree)}   (bound in {where})")
        for c in context:
            print("emitted first:", to_py(c))
        print("expression :", to_py(e))
        print("model type :", res.get("model_type"), " real type:", res.get("real_type"))
        print("status     :", res["status"], res.get("errtype", ""), res.get("err", "")[-200:])
        print("valuation  :", vals[0])
        print("result     :", res.get("fail"))
        if kind == "type":
            return 0 if res.get("real_type") == res.get("model_type") else 1
        if kind == "reject":
            return 1 if res["status"] == "rejected" else 0
        return 1 if (res["status"] != "ok" or res.get("fail") is not None) else 0
    if kind == "design":
        exprs = [_expr_from_json(x) for x in r["exprs"]]
        bad = 0
        vals = [tuple(r["valuation"])] if r.get("valuation") else [tuple(0 for _ in ports)]
        for k, e in enumerate(exprs):
            # every expression after all the others of its design (failures may depend on shared sub-objects)
            res = check_single(ports, shadows, e, r["clocked"], vals, exprs[:k] + exprs[k + 1:])
            if res["status"] != "ok" or res.get("fail") is not None:
                print("fails:", to_py(e), res.get("fail"))
                bad = 1
        return bad
    print("unknown replay kind", kind)
    return 2
