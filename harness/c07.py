"""C07 - one driver per signal: conflicts rejected, accepted designs conflict-free.

Generated space: every placement of <= 3 accesses (reads / writes) of ONE object under test over
  placements  A / B (bodies of two sequential contexts), C (concurrent context), AA / BA (`with cohdl.always:`
              block inside A / B), AE (always-expression `cohdl.always(..)` in A), AF / CF (nested helper functions
              called from A / C), IO / II (output / input of a sub-entity instance), CIO / AIO (inline instance
              created inside C / inside the always block of A)
  parts       whole object, low slice, high slice, single bit (array kind: element 0, element 1, slice of element 0)
              MO (outputs of ONE multi-output instance, in keyword order, on overlapping / identical / disjoint parts)
  kinds       Signal, Port.input, Port.output, Port.inout, Variable, Temporary (explicit intermediate), Signal[Array]
  forms       writes as `<<=` / `@=`, `.next` / `.value`, push `^=`, `.push`, write-formatted target of an inline VHDL statement
              f"{vhdl:{x} <= {v!r};}" or expression f"{vhdl[T]:{v!r}; {x} <= {v!r}}"; reads plain or `{x!r}` in inline code
  API         every context through std.sequential / std.concurrent or the core cohdl.sequential_context /
              cohdl.concurrent_context (without / with cohdl.reset_pushed())
rendered to real design files and compiled by the compiler of the current tree.

Checks per design
  (a) decision: real accept/reject  vs  the SPEC (the sentence of the property, evaluated on the placement - an
      accepted design that the property says must be rejected is a VIOLATION)  and  vs  the Lean mirror
      `C07.checkUsage` (+ the front-end rules) evaluated on the source-level abstraction of the placement;
  (b) certificate on every ACCEPTED design, computed from the emitted TEXT (harness.vhdl_parse): every signal has
      at most one driver (process / concurrent block of one context / instance output), no process variable is
      referenced outside its process, no `in` port is driven - any failure is a VIOLATION with the design as replay;
  (c) the real IR (std.VhdlCompiler.to_ir) of every accepted design is exported as an abstract design
      (contexts, accesses with root / access flag / via-always, instances) and the Lean model is evaluated on it:
      `checkUsage` must say ok and `drivers (emit d)` must equal the driver counts read from the text.
"""

import collections
import itertools
import re

from .common import Ctx, fork_map, load_design_module, import_cohdl, InfraError
from . import lean_io
from . import vhdl_parse

KINDS = ["sig", "pin", "pout", "pinout", "var", "tmp", "arr"]
RW_PLACEMENTS = ["A", "B", "C", "AA", "BA", "AF", "CF"]
FIXED_PLACEMENTS = {"AE": "r", "IO": "w", "II": "r", "CIO": "w", "AIO": "w"}
VEC_PARTS = ["w", "lo", "hi", "b0"]
ARR_PARTS = ["e0", "e1", "e0lo"]
PART_WIDTH = {"w": 4, "lo": 2, "hi": 2, "mid": 2, "b0": 1, "e0": 4, "e1": 4, "e0lo": 2}
PART_SUFFIX = {"w": "", "lo": "[1:0]", "hi": "[3:2]", "mid": "[2:1]", "b0": "[0]", "e0": "[0]", "e1": "[1]", "e0lo": "[0][1:0]"}
# bit positions of the root that a part covers (for the array: element index * 4 + bit)
PART_BITS = {"w": {0, 1, 2, 3}, "lo": {0, 1}, "hi": {2, 3}, "mid": {1, 2}, "b0": {0},
             "e0": {0, 1, 2, 3}, "e1": {4, 5, 6, 7}, "e0lo": {0, 1}}
WIDTH_SUFFIX = {4: "", 2: "[1:0]", 1: "[0]"}


# parts used as actuals of the outputs of ONE multi-output instance (placement MO; keyword order = order in the design)
MO_PARTS = {"arr": ["e0", "e1", "e0lo"], None: ["w", "lo", "hi", "mid", "b0"]}


def parts_of(kind):
    return ARR_PARTS if kind == "arr" else VEC_PARTS


# write forms: wa = augmented assignment (`<<=`, variables `@=`), wn = attribute form (`.next =`, variables `.value =`),
# wp = push `^=`, wP = push `.push =`; `w` = output actual of an instance.  wa/wn and wp/wP are the same IR statement.
# wi = inline VHDL statement f"{vhdl:{target} <= {src!r};}" (target write-formatted = no `!r`), we = write-formatted target
# inside an inline VHDL EXPRESSION f"{vhdl[T]:{src!r}; {target} <= {src!r}}" whose value goes to the sink.
# read forms: r = plain use, ri = read-formatted `{x!r}` in an inline statement, re = in an inline expression.
SIGNAL_FORMS = ["wa", "wn", "wp", "wP", "wi", "we"]
VAR_FORMS = ["wa", "wn", "wi", "we"]
READ_FORMS = ["r", "ri", "re"]
INLINE_FORMS = ("wi", "we", "ri", "re")
CANON_FORMS = {"sig": ["wa", "wp"], "var": ["wa"]}
DEFAULT_API = "sss"  # how the contexts A, B, C are declared: s = std.sequential / std.concurrent,
#                      c = core cohdl.sequential_context / cohdl.concurrent_context, r = core + cohdl.reset_pushed()


def is_write(rw):
    return rw[0] == "w"


def is_push(rw):
    return rw in ("wp", "wP")


def is_read(rw):
    return rw[0] == "r"


def forms_of(kind, canonical=False):
    if kind == "tmp":
        # an explicit Temporary has no assignment operator in traced code: only inline code can define it (`{x} := ..`)
        return ["wi"] if canonical else ["wi", "we"]
    if kind == "var":
        return CANON_FORMS["var"] if canonical else VAR_FORMS
    return CANON_FORMS["sig"] if canonical else SIGNAL_FORMS


def access_types(kind, parts=None, canonical=False):
    out = []
    for part in parts or parts_of(kind):
        for pl in RW_PLACEMENTS:
            for f in (["r"] if canonical else READ_FORMS):
                out.append((pl, part, f))
            for f in forms_of(kind, canonical):
                out.append((pl, part, f))
        for pl, rw in FIXED_PLACEMENTS.items():
            out.append((pl, part, rw))
    return out


HEADER = '''import cohdl
from cohdl import Bit, BitVector, Port, Signal, Variable, Temporary, Array, Null, vhdl
from cohdl import std


class Sub4(cohdl.Entity):
    x = Port.input(BitVector[4])
    y = Port.output(BitVector[4])

    def architecture(self):
        @std.concurrent
        def logic():
            self.y <<= ~self.x


class Sub2(cohdl.Entity):
    x = Port.input(BitVector[2])
    y = Port.output(BitVector[2])

    def architecture(self):
        @std.concurrent
        def logic():
            self.y <<= ~self.x


class Sub1(cohdl.Entity):
    x = Port.input(Bit)
    y = Port.output(Bit)

    def architecture(self):
        @std.concurrent
        def logic():
            self.y <<= ~self.x


class W(cohdl.Entity):
    clk = Port.input(Bit)
    av = Port.input(BitVector[4])
    s0 = Port.output(BitVector[4], default=Null)
    s1 = Port.output(BitVector[4], default=Null)
    s2 = Port.output(BitVector[4], default=Null)
'''

DECL = {
    "sig": (None, "x = Signal[BitVector[4]](Null)", "x"),
    "pin": ("xi = Port.input(BitVector[4])", None, "self.xi"),
    "pout": ("xo = Port.output(BitVector[4], default=Null)", None, "self.xo"),
    "pinout": ("xio = Port.inout(BitVector[4], default=Null)", None, "self.xio"),
    "var": (None, "x = Variable[BitVector[4]](Null)", "x"),
    "tmp": (None, "x = Temporary[BitVector[4]](Null)", "x"),
    "arr": (None, "x = Signal[Array[BitVector[4], 2]](Null)", "x"),
}


def stmt_of(kind, k, acc):
    """(source statement of access number k (its own sink port s<k>), needs `nonlocal x`)"""
    pl, part, rw = acc
    ref = DECL[kind][2]
    w = PART_WIDTH[part]
    obj = ref + PART_SUFFIX[part]
    if pl in ("IO", "CIO", "AIO"):
        return f"Sub{w}(x=self.av{WIDTH_SUFFIX[w]}, y={obj})", False
    if pl == "II":
        return f"Sub{w}(x={obj}, y=self.s{k}{WIDTH_SUFFIX[w]})", False
    if pl == "AE":
        return f"self.s{k}{WIDTH_SUFFIX[w]} <<= cohdl.always(~{obj})", False
    sink = f"self.s{k}{WIDTH_SUFFIX[w]}"
    val = f"self.av{WIDTH_SUFFIX[w]}"
    var = kind in ("var", "tmp")
    ty = "Bit" if w == 1 else f"BitVector[{w}]"
    # inline code is raw text: a temporary is a process variable in a sequential body and a signal elsewhere
    asg = ":=" if (kind == "var" or (kind == "tmp" and pl in ("A", "B", "AF"))) else "<="
    if rw == "r":
        return f"{sink} <<= {obj}", False
    if rw == "ri":
        return 'f"{vhdl:{%s} <= {%s!r};}"' % (sink, obj), False
    if rw == "re":
        return '%s <<= f"{vhdl[%s]:{%s!r}}"' % (sink, ty, obj), False
    if rw == "wi":
        return 'f"{vhdl:{%s} %s {%s!r};}"' % (obj, asg, val), False
    if rw == "we":
        return '%s <<= f"{vhdl[%s]:{%s!r}; {%s} %s {%s!r}}"' % (sink, ty, val, obj, asg, val), False
    if rw == "wn":
        return f"{obj}.{'value' if var else 'next'} = {val}", False
    if rw == "wP":
        return f"{obj}.push = {val}", False
    op = {"wa": "@=" if var else "<<=", "wp": "^="}[rw]
    return f"{obj} {op} {val}", obj == "x"  # augmented assignment to the closure variable itself


def access_order(kind, accs):
    """(index, access) in statement order: the order of the design, except that the definitions of a Temporary come
    first (a temporary must be written before it is read within its context)"""
    idx = list(range(len(accs)))
    if kind == "tmp":
        idx.sort(key=lambda k: is_read(accs[k][2]))
    return [(k, accs[k]) for k in idx]


def render(kind, accs, api=DEFAULT_API):
    port_decl, local_decl, ref = DECL[kind]
    head = HEADER.rstrip("\n")
    mo = [(k, a) for k, a in enumerate(accs) if a[0] == "MO"]
    if mo:
        # a sub-entity with one output per MO access, in the order of the accesses
        sub = ["class SubM(cohdl.Entity):", "    x = Port.input(BitVector[4])"]
        sub += [f"    o{j} = Port.output({'Bit' if PART_WIDTH[a[1]] == 1 else 'BitVector[%d]' % PART_WIDTH[a[1]]})" for j, (_, a) in enumerate(mo)]
        sub += ["", "    def architecture(self):", "        @std.concurrent", "        def logic():"]
        sub += [f"            self.o{j} <<= ~self.x{WIDTH_SUFFIX[PART_WIDTH[a[1]]]}" for j, (_, a) in enumerate(mo)]
        head = head.replace("class W(cohdl.Entity):", "\n".join(sub) + "\n\n\nclass W(cohdl.Entity):")
    lines = [head]
    if port_decl:
        lines.append("    " + port_decl)
    lines += ["", "    def architecture(self):"]
    ind = "        "
    if local_decl:
        lines.append(ind + local_decl)
    body = {"A": [], "B": [], "C": [], "AA": [], "BA": []}
    nonlocal_in = set()
    if mo:
        lines.append(ind + "SubM(x=self.av, " + ", ".join(f"o{j}={ref}{PART_SUFFIX[a[1]]}" for j, (_, a) in enumerate(mo)) + ")")
    for k, acc in access_order(kind, accs):
        pl = acc[0]
        if pl == "MO":
            continue
        st, nl = stmt_of(kind, k, acc)
        if pl in ("IO", "II"):
            lines.append(ind + st)
        elif pl == "AE":
            body["A"].append(st)
        elif pl == "AIO":
            body["AA"].append(st)
        elif pl == "CIO":
            body["C"].append(st)
        elif pl in ("AF", "CF"):
            lines += [f"{ind}def inner{k}():"] + ([f"{ind}    nonlocal x"] if nl else []) + [f"{ind}    {st}",
                      f"{ind}def helper{k}():", f"{ind}    inner{k}()"]
            body[pl[0]].append(f"helper{k}()")
        else:
            body[pl].append(st)
            if nl:
                nonlocal_in.add(CTX_OF[pl])
    for name, alw, how in (("A", "AA", api[0]), ("B", "BA", api[1])):
        if body[name] or body[alw]:
            if how == "s":
                lines += ["", f"{ind}@std.sequential(std.Clock(self.clk))"]
            lines += ["" if how != "s" else None, f"{ind}def ctx{name}():"]
            if name in nonlocal_in:
                lines.append(f"{ind}    nonlocal x")
            if body[alw]:
                lines.append(f"{ind}    with cohdl.always:")
                lines += [f"{ind}        {s}" for s in body[alw]]
            if how == "s":
                lines += [f"{ind}    {s}" for s in body[name]]
            else:
                lines.append(f"{ind}    if cohdl.rising_edge(self.clk):")
                stmts = (["cohdl.reset_pushed()"] if how == "r" else []) + body[name]
                lines += [f"{ind}        {s}" for s in stmts or ["pass"]]
                lines.append(f"{ind}cohdl.sequential_context(ctx{name})")
    if body["C"]:
        lines += ["", f"{ind}@std.concurrent" if api[2] == "s" else None, f"{ind}def ctxC():"]
        if "C" in nonlocal_in:
            lines.append(f"{ind}    nonlocal x")
        lines += [f"{ind}    {s}" for s in body["C"]]
        if api[2] != "s":
            lines.append(f"{ind}cohdl.concurrent_context(ctxC)")
    return "\n".join(l for l in lines if l is not None) + "\n"


# ---------------------------------------------------------------------------------------------------
# source-level abstraction of a placement (input of the Lean mirror) and the SPEC of the property
# ---------------------------------------------------------------------------------------------------

KIND_CHAR = {"sig": "s", "pin": "i", "pout": "o", "pinout": "b", "var": "v", "tmp": "t", "arr": "s"}
CTX_OF = {"A": "A", "AA": "A", "AE": "A", "AF": "A", "B": "B", "BA": "B", "C": "C", "CF": "C"}


def abstract(kind, accs, api=DEFAULT_API):
    """the protocol line of the abstract design of a placement: root 0 = object under test, 1 = av,
    2+k = sink s<k>, further roots = signals created for always-expressions.
    `cohdl.reset_pushed()` (always present in std.sequential, optional with the core API) is expanded by
    `Sequential.__init__` into an assignment of the default to every signal pushed in the context: a WRITE access"""
    kinds = [KIND_CHAR[kind], "i", "o", "o", "o"]
    # (explicit Temporaries written by inline code inside an always block are rejected - fixes/C07-inline-temporary-in-always-block)
    root_in = {"A": "0", "B": "0", "C": "0"}
    body = {"A": [], "B": [], "C": []}
    pushed = {"A": False, "B": False, "C": False}
    insts = []
    n_mo = sum(1 for pl, _, _ in accs if pl == "MO")
    if n_mo:
        insts.append("inst i1" + " o0" * n_mo)
    for k, (pl, part, rw) in access_order(kind, accs):
        sink = 2 + k
        if pl == "MO":
            continue
        if pl in ("IO", "CIO", "AIO"):
            insts.append("inst i1 o0")
        elif pl == "II":
            insts.append(f"inst i0 o{sink}")
        elif pl == "AE":
            t = len(kinds)
            kinds.append("s")
            body["A"] += [f"r{root_in['A']}a", f"w{t}a", f"r{t}", f"w{sink}"]
        else:
            a = "a" if pl in ("AA", "BA") else ""
            x = root_in[CTX_OF[pl]]
            if is_read(rw):
                body[CTX_OF[pl]] += [f"r{x}{a}", f"w{sink}{a}"]
            elif rw == "we":  # the expression also feeds the sink
                body[CTX_OF[pl]] += [f"r1{a}", f"w{x}{a}", f"w{sink}{a}"]
            else:
                body[CTX_OF[pl]] += [f"r1{a}", ("p" if is_push(rw) else "w") + x + a]
                if is_push(rw) and not a:
                    pushed[CTX_OF[pl]] = True
    toks = ["check", "kinds", "".join(kinds)]
    present = {CTX_OF[pl] for pl, _, _ in accs if pl in CTX_OF} | {"A" for pl, _, _ in accs if pl == "AIO"} | {"C" for pl, _, _ in accs if pl == "CIO"}
    for name, how in (("A", api[0]), ("B", api[1]), ("C", api[2])):
        if name in present:
            reset = ["w0"] if (name != "C" and how in ("s", "r") and pushed[name]) else []
            toks += ["ctx", "c" if name == "C" else "s"] + reset + body[name]
    return " ".join(toks + insts)


def spec_must_reject(kind, accs):
    """the first sentence of the property, read on the placement:  returns the clause that demands rejection or None.
    Every assignment form (`<<=`, `.next`, `^=`, `.push`) drives its target."""
    if kind in ("var", "tmp"):
        users = {CTX_OF[pl] for pl, _, _ in accs if pl in CTX_OF}
        if len(users) > 1:
            return "variable or intermediate value used by more than one context"
        if kind == "var":
            return None
    writers = set()
    for k, (pl, part, rw) in enumerate(accs):
        if not is_write(rw):
            continue
        if kind == "pin":
            return "input port written"
        writers.add(CTX_OF[pl] if pl in CTX_OF else ("inst", "MO" if pl == "MO" else k))
    mo = [part for pl, part, _ in accs if pl == "MO"]
    if any(PART_BITS[a] & PART_BITS[b] for i, a in enumerate(mo) for b in mo[i + 1:]):
        # decided per bit: two outputs of one instance on disjoint parts drive every bit once (cohdl rejects that
        # too - over-rejection); on overlapping / identical parts some bit has two instance outputs as drivers
        return "a part of the signal is driven from more than one instance output"
    if len(writers) > 1:
        return "signal or port (or a slice / element of it) driven from more than one context or instance output"
    return None


# ---------------------------------------------------------------------------------------------------
# real compiler: accept / reject, emitted text, abstract design read from the real IR
# ---------------------------------------------------------------------------------------------------


def export_ir(tmpl):
    from cohdl import std
    from cohdl._core._ir import _repr as ir
    from cohdl._core._type_qualifier import Signal, Port, Variable, Temporary
    from cohdl._core._ir._repr import AccessFlags

    ids, kinds, keep = {}, [], []

    def rid(obj):
        root = obj._root
        if id(root) not in ids:
            ids[id(root)] = len(kinds)
            keep.append(root)
            if isinstance(root, Port):
                kinds.append("i" if root.is_input() else ("o" if root.is_output() else "b"))
            elif isinstance(root, Signal):
                kinds.append("s")
            elif isinstance(root, Variable):
                kinds.append("v")
            else:
                kinds.append("t")
        return ids[id(root)]

    def visitor(accs, suffix):
        def op(obj, access):
            if isinstance(obj, (Signal, Variable, Temporary)):
                c = "p" if access is AccessFlags.PUSH else ("w" if access is AccessFlags.WRITE else "r")
                accs.append(c + str(rid(obj)) + suffix)
            return obj
        return op

    toks = []
    for c in tmpl.all_contexts():
        accs = []
        if isinstance(c, ir.Sequential):
            if c._always_expr is not None:
                c._always_expr.code().visit_objects(visitor(accs, "a"))
            c.code().visit_objects(visitor(accs, ""))
            toks += ["ctx", "s"] + accs
        else:
            c.visit_objects(visitor(accs, ""))
            toks += ["ctx", "c"] + accs
    for b in tmpl.all_blocks():
        if isinstance(b, ir.Entity):
            decl = b._template._info.ports
            toks.append("inst")
            for name, sig in (b.get_ports() if hasattr(b, "get_ports") else b._ports).items():
                if isinstance(sig, (Signal, Variable, Temporary)):
                    toks.append(("o" if decl[name].is_output() else "i") + str(rid(sig)))
    return " ".join(["check", "kinds", "".join(kinds) or "s"] + toks)


def task(src):
    import_cohdl()
    from cohdl import std

    try:
        mod = load_design_module(src, "c07")
        gen = getattr(std._compile, "generate_vhdl", None)
        if gen is None:
            text = std.VhdlCompiler.to_string(mod.W)
            irline = None
        else:
            # what VhdlCompiler.to_string does, with the IR kept: one compilation yields text and IR
            tmpl = std.VhdlCompiler.to_ir(mod.W)
            text = str(gen(tmpl, additional_reserved_names=None).write())
            try:
                irline = export_ir(tmpl)
            except BaseException as e:  # noqa
                irline = "ERR " + type(e).__name__ + ": " + str(e)[-200:]
    except BaseException as e:  # noqa
        return {"ok": False, "errtype": type(e).__name__, "err": str(e)[-300:]}
    if irline is None:
        try:
            irline = export_ir(std.VhdlCompiler.to_ir(load_design_module(src, "c07x").W))
        except BaseException as e:  # noqa
            irline = "ERR " + type(e).__name__ + ": " + str(e)[-200:]
    return {"ok": True, "vhdl": text, "ir": irline}


# ---------------------------------------------------------------------------------------------------
# certificate on the emitted text
# ---------------------------------------------------------------------------------------------------


def base_name(t):
    while t[0] in ("index", "slice"):
        t = t[1]
    if t[0] == "call":  # name(args) parsed as call: indexed name
        return t[1]
    if t[0] == "name":
        return t[1]
    raise InfraError(f"unexpected assignment target {t!r}")


def actual_path(t):
    """(base name, [(low, high) per selector level]) of a port-map actual; None when a selector is not a constant"""
    sel = []
    while True:
        if t[0] == "name":
            return t[1].lower(), sel[::-1]
        if t[0] == "slice":
            a, b = t[2], t[4]
            if a[0] != "int" or b[0] != "int":
                return None
            sel.append((min(a[1], b[1]), max(a[1], b[1])))
            t = t[1]
        elif t[0] == "index":
            if t[2][0] != "int":
                return None
            sel.append((t[2][1], t[2][1]))
            t = t[1]
        elif t[0] == "call" and len(t[2]) == 1:
            if t[2][0][0] != "int":
                return None
            sel.append((t[2][0][1], t[2][0][1]))
            return t[1].lower(), sel[::-1]
        else:
            return None


def paths_overlap(p, q):
    """do two actuals of the same base share a bit?  (a shorter selector list is a prefix: it covers everything below)"""
    if p is None or q is None:
        return True
    return all(a[0] <= b[1] and b[0] <= a[1] for a, b in zip(p, q))


def names_in(node, out):
    """every identifier referenced in an expression / statement tree"""
    if isinstance(node, tuple):
        if node and node[0] == "name":
            out.add(node[1].lower())
        elif node and node[0] == "call":
            out.add(node[1].lower())
            names_in(node[2], out)
        elif node and node[0] in ("int", "char", "str", "bool"):
            return
        else:
            for x in node[1:] if node and isinstance(node[0], str) else node:
                names_in(x, out)
    elif isinstance(node, list):
        for x in node:
            names_in(x, out)
    elif isinstance(node, dict):
        for k, v in node.items():
            if k not in ("stmt", "line", "label", "msg", "decls"):
                names_in(v, out)


def seq_targets(stmts, sig, var):
    for s in stmts:
        k = s["stmt"]
        if k == "sassign":
            sig.add(base_name(s["target"]).lower())
        elif k == "vassign":
            var.add(base_name(s["target"]).lower())
        elif k == "if":
            seq_targets(s["body"], sig, var)
            seq_targets(s["orelse"], sig, var)
        elif k == "case":
            for _, b in s["branches"]:
                seq_targets(b, sig, var)
            if s["others"] is not None:
                seq_targets(s["others"], sig, var)


# the compiler separates the concurrent statements of different contexts by a comment line; its wording is the
# compiler's choice (today `-- CONCURRENT BLOCK (<name>)`), so any comment line starts a new group
COMMENT = re.compile(r"^\s*--\s*(.*?)\s*$")


def _plain_copy(st):
    """concurrent assignment  name <= name;  (no condition, no expression)"""
    vals = [v for kk, v in st.items() if kk not in ("stmt", "line", "target")]
    flat = []

    def walk(o):
        if isinstance(o, tuple) and o and isinstance(o[0], str):
            flat.append(o)
            for x in o[1:]:
                walk(x)
        elif isinstance(o, (list, tuple)):
            for x in o:
                walk(x)
        elif isinstance(o, dict):
            for x in o.values():
                walk(x)

    walk(vals)
    return len(flat) == 1 and flat[0][0] == "name"


def certificate(text, entity="W"):
    """driver units of architecture `entity` read from the text.
    returns dict(problems=[...], counts=sorted driver counts without the buffer block, units=n)"""
    units_ast = vhdl_parse.parse(text)
    ents = {u["name"].lower(): u for u in units_ast if u["unit"] == "entity"}
    arch = [u for u in units_ast if u["unit"] == "architecture" and u["entity"].lower() == entity.lower()]
    if len(arch) != 1:
        raise InfraError(f"architecture of {entity} not found")
    arch = arch[0]
    ent = ents[entity.lower()]
    comments = sorted((i + 1, m.group(1)) for i, l in enumerate(text.splitlines()) for m in [COMMENT.match(l)] if m)
    in_ports = {p["name"].lower() for p in ent["ports"] if p["dir"] == "in"}
    arch_names = {p["name"].lower() for p in ent["ports"]} | {d["name"].lower() for d in arch["decls"] if "name" in d}
    units = []  # dict(kind, label, targets(set of keys), names(set), vars(set))
    region = None
    for st in arch["stmts"]:
        k = st["stmt"]
        if k in ("cassign", "select"):
            cm = [c for c in comments if c[0] <= st["line"]]
            key = (cm[-1] if cm else None)
            if region is None or region["key"] != key:
                region = {"kind": "block", "label": key[1] if key else None, "key": key, "targets": set(), "names": set(), "vars": set(),
                          "plain": True}
                units.append(region)
            region["targets"].add(base_name(st["target"]).lower())
            if k != "cassign" or st["target"][0] != "name" or not _plain_copy(st):
                region["plain"] = False
            names_in({kk: v for kk, v in st.items() if kk not in ("stmt", "line")}, region["names"])
            continue
        region = None
        if k == "process":
            sig, var = set(), set()
            seq_targets(st["body"], sig, var)
            nm = set()
            names_in(st["body"], nm)
            names_in(st["sens"], nm)
            units.append({"kind": "process", "label": st["label"], "targets": sig, "vtargets": var, "names": nm,
                          "vars": {d["name"].lower() for d in st["decls"] if d.get("decl") == "variable"}})
        elif k == "instance":
            sub = ents.get(st["entity"].lower())
            if sub is None:
                raise InfraError(f"instantiated entity {st['entity']} not in the emitted text")
            dirs = {p["name"].lower(): p["dir"] for p in sub["ports"]}
            tg, nm, outs = set(), set(), []
            for formal, actual in st["ports"]:
                names_in(actual, nm)
                if dirs.get(formal.lower()) == "out":
                    tg.add(base_name(actual).lower())
                    ap = actual_path(actual)
                    outs.append((formal, base_name(actual).lower(), ap[1] if ap else None))
            units.append({"kind": "instance", "label": st["label"], "targets": tg, "names": nm, "vars": set(), "outs": outs})
        elif k == "assert":
            continue
        else:
            raise InfraError(f"unexpected concurrent statement {k}")
    problems = []
    all_vars = set().union(*[u["vars"] for u in units]) if units else set()
    drv = {}
    for i, u in enumerate(units):
        for t in u["targets"]:
            drv.setdefault(t, []).append(i)
            if t in in_ports:
                problems.append(("input-driven", t, f"input port {t} is driven by {u['kind']} {u['label']}"))
        # a process variable referenced outside its process: the name resolves neither locally nor in the architecture
        for n in u["names"] | u["targets"]:
            if n in all_vars and n not in u["vars"] and n not in arch_names:
                problems.append(("variable-outside-process", n, f"process variable {n} is referenced by {u['kind']} {u['label']}"))
    # drivers PER BIT inside one port map: every output of an instance is a driver of the bits of its actual
    for u in units:
        outs = u.get("outs", [])
        for i, (f1, b1, p1) in enumerate(outs):
            for f2, b2, p2 in outs[i + 1:]:
                if b1 == b2 and paths_overlap(p1, p2):
                    problems.append(("multiple-drivers", b1, f"bits of signal {b1} are driven by two outputs ({f1}, {f2}) of instance {u['label']}"))
    for t, us in sorted(drv.items()):
        if len(us) > 1:
            desc = ", ".join(f"{units[i]['kind']} {units[i]['label']}" for i in us)
            problems.append(("multiple-drivers", t, f"signal {t} has {len(us)} drivers: {desc}"))
    counts = {}
    out_ports = {p["name"].lower() for p in ent["ports"] if p["dir"] in ("out", "buffer")}
    sig_names = {d["name"].lower() for d in arch["decls"] if d.get("decl") == "signal"}
    for i, u in enumerate(units):
        # the block that copies the internal buffer signals to the output ports (recognised by its shape, not by the
        # wording of its comment): every statement is  <output port> <= <architecture signal>;
        if u["kind"] == "block" and u.get("plain") and u["targets"] <= out_ports and u["names"] - u["targets"] <= sig_names \
                and len(u["names"] - u["targets"]) == len(u["targets"]):
            continue
        for t in u["targets"]:
            counts[("sig", t)] = counts.get(("sig", t), 0) + 1
        for t in u.get("vtargets", ()):
            counts[("var", i, t)] = counts.get(("var", i, t), 0) + 1
    return {"problems": problems, "counts": sorted(counts.values()), "units": len(units)}


# ---------------------------------------------------------------------------------------------------
# enumeration, evaluation, reporting
# ---------------------------------------------------------------------------------------------------

TRIPLE_PARTS = {"sig": ["w", "lo", "hi"], "pin": ["lo"], "pout": ["w", "lo"], "pinout": ["lo"],
                "var": ["w", "lo"], "tmp": ["lo"], "arr": ["e0", "e1"]}
PAIR_COMBOS = {"arr": [("e0", "e1"), ("e0", "e0"), ("e0lo", "e0"), ("e1", "e0lo")],
               None: [("lo", "hi"), ("w", "w"), ("w", "lo"), ("lo", "b0")]}


def canon(accs):
    """accesses are an unordered multiset, except the outputs of the multi-output instance (their order is the
    keyword order of the instantiation, which the instance loop of the compiler follows)"""
    return tuple(sorted(a for a in accs if a[0] != "MO")) + tuple(a for a in accs if a[0] == "MO")


def contexts_of(accs):
    return {CTX_OF[pl] for pl, _, _ in accs if pl in CTX_OF} | {"A" for pl, _, _ in accs if pl == "AIO"} | \
        {"C" for pl, _, _ in accs if pl == "CIO"}


def api_variants(accs, full=False):
    """declarations of the contexts that occur: all std, all core, all core + reset_pushed, and for two contexts the
    mixed core / std ones (full=True: the complete product)"""
    cs = sorted(contexts_of(accs))
    opts = {"A": "scr", "B": "scr", "C": "sc"}
    if full:
        combos = itertools.product(*[opts[c] for c in cs])
    else:
        combos = [tuple("s" for _ in cs), tuple("c" for _ in cs), tuple("r" if c != "C" else "c" for c in cs)]
        if len(cs) >= 2:
            combos += [tuple("c" if i == j else "s" for i in range(len(cs))) for j in range(len(cs))]
    out = []
    for combo in combos:
        api = dict(zip(cs, combo))
        v = "".join(api.get(c, "s") for c in "ABC")
        if v not in out:
            out.append(v)
    return out


def placement_pairs(kind, types, pa, pb, both_orders):
    pls = sorted({(pl, rw) for pl, _, rw in types})
    for i, (pl1, rw1) in enumerate(pls):
        for (pl2, rw2) in pls[i:]:
            yield canon(((pl1, pa, rw1), (pl2, pb, rw2)))
            if both_orders and pa != pb and (pl1, rw1) != (pl2, rw2):
                yield canon(((pl1, pb, rw1), (pl2, pa, rw2)))


def core_designs(quick=True):
    """always explored:
    * every single access in every assignment form, with the std API; sequential / concurrent placements of one part
      also through the core API without and with reset_pushed();
    * WRITER pairs (canonical forms `<<=` / `@=` and `^=`, every placement, instance outputs) on disjoint and on
      identical parts, under every API variant of the contexts involved (api_variants);
    * every other pair in canonical forms on 1-4 part combinations with the std API."""
    out = []
    for kind in KINDS:
        parts = parts_of(kind)
        for a in access_types(kind):
            if quick and a[2] in ("wn", "wP", "ri", "re") and a[1] not in parts[:2]:
                continue  # the attribute forms are the same IR statement as the operators: two parts suffice
            out.append((kind, (a,), DEFAULT_API))
            if a[1] == parts[1] and a[0] in CTX_OF and (not quick or a[2] in ("r", "wa", "wp", "wi", "we")):
                out += [(kind, (a,), v) for v in api_variants((a,))]
        combos = PAIR_COMBOS.get(kind, PAIR_COMBOS[None])
        T = access_types(kind, canonical=True)
        writers = [t for t in T if is_write(t[2])]
        signalish = kind in ("sig", "pout", "arr", "pinout")
        n_api = {"sig": 2, "pout": 1, "arr": 1}.get(kind, 0) if quick else (4 if kind == "sig" else (2 if signalish else 0))
        for ci, (pa, pb) in enumerate(combos[:n_api]):
            for accs in placement_pairs(kind, writers, pa, pb, both_orders=not quick):
                vs = api_variants(accs, full=not quick and kind == "sig" and ci < 2)
                out += [(kind, accs, v) for v in (vs[:4] if quick and kind != "sig" else vs)]
        if quick:
            std_combos = combos[:2] if kind == "sig" else ([] if kind in ("pin", "pinout") else (combos[:1] if kind == "tmp" else combos[1:2]))
            for pa, pb in std_combos:
                for accs in placement_pairs(kind, T, pa, pb, both_orders=False):
                    if kind not in ("var", "tmp") and not any(is_write(rw) for _, _, rw in accs):
                        continue  # two readers of a signal: covered by the sampled part
                    out.append((kind, accs, DEFAULT_API))
    return out


def inline_designs(quick=True):
    """an inline-VHDL writer (statement `wi` / expression `we`, every placement) together with every other access in
    canonical form, with another inline writer and with the instance placements, on disjoint and identical parts"""
    out = []
    for kind in KINDS:
        if kind == "pin":
            continue  # input port: every single write is rejected (singles)
        combos = PAIR_COMBOS.get(kind, PAIR_COMBOS[None])
        if quick and kind == "pinout":
            continue  # same decisions as the output port; thorough tier and random part only
        combos = (combos[:2] if kind == "sig" else combos[:1] if kind == "arr" else combos[1:2]) if quick else combos[:2 if kind != "sig" else 4]
        forms = ["wi", "we"] if (kind in ("sig", "var", "tmp") or not quick) else ["we"]
        inl = [(pl, f) for pl in RW_PLACEMENTS for f in forms]
        others = sorted({(pl, rw) for pl, _, rw in access_types(kind, canonical=True)} | set(inl))
        for ci, (pa, pb) in enumerate(combos):
            for (pl1, f1) in inl:
                if quick and kind == "sig" and ci == 1 and f1 == "wi":
                    continue  # statement form: one part combination in the quick tier
                for (pl2, rw2) in others:
                    if kind not in ("var", "tmp") and is_read(rw2):
                        continue  # a reader next to an inline writer of a signal: covered by the sampled part
                    out.append((kind, canon(((pl1, pa, f1), (pl2, pb, rw2))), DEFAULT_API))
    return out


def multi_output_designs(quick=True):
    """ONE instance with two / three outputs connected to parts of one root (whole, disjoint, overlapping, identical
    slices, single bit | array elements) in EVERY keyword order, alone and together with one more writer / reader"""
    out = []
    for kind in KINDS:
        P = MO_PARTS.get(kind, MO_PARTS[None])
        pairs = [(("MO", a, "w"), ("MO", b, "w")) for a in P for b in P]
        out += [(kind, p, DEFAULT_API) for p in pairs]
        if kind == "var":
            continue
        if kind in ("sig", "arr") or not quick:
            out += [(kind, (("MO", a, "w"), ("MO", b, "w"), ("MO", c, "w")), DEFAULT_API) for a in P for b in P for c in P]
        if kind in ("sig", "pout", "arr") or not quick:
            q = P[1] if kind != "arr" else P[0]
            others = [("A", q, "wa"), ("C", q, "wa"), ("A", q, "wp"), ("IO", q, "w"), ("C", q, "r")]
            if quick:
                others = others[:3] if kind == "sig" else others[1:2]
            for o in others:
                for p in pairs:
                    out += [(kind, (o,) + p, v) for v in (api_variants((o,)) if not quick else [DEFAULT_API])]
    return out


def all_pairs():
    """every pair of accesses in canonical forms (std API)"""
    for kind in KINDS:
        parts = ["w", "lo"] if kind == "pin" else None  # every write of an input port is rejected on its own
        for p in itertools.combinations_with_replacement(access_types(kind, parts, canonical=True), 2):
            yield (kind, p, DEFAULT_API)


TRIPLE_PLACEMENTS = {"A", "B", "C", "AA", "AE", "IO", "II", "CIO", "AIO"}


def all_triples():
    """helpers (AF / CF) and the second always block (BA) are the same writer as A / C / B for every check and are
    exhaustively covered in the pairs; triples range over the remaining 9 placements, reads and `<<=` / `@=` writes"""
    for kind in KINDS:
        T = [a for a in access_types(kind, TRIPLE_PARTS[kind], canonical=True)
             if a[0] in TRIPLE_PLACEMENTS and not is_push(a[2])]
        for p in itertools.combinations_with_replacement(T, 3):
            yield (kind, p, DEFAULT_API)


def random_design(rng, n):
    """any kind, any assignment form, any API variant"""
    kind = rng.choice(KINDS)
    T = access_types(kind)
    accs = canon(tuple(rng.choice(T) for _ in range(n)))
    return (kind, accs, rng.choice(api_variants(accs, full=True)))


def evaluate(designs):
    """compile every design with the real compiler, query the Lean model on the placement abstraction and on the
    real IR, compute the certificate.  Returns one record per design."""
    srcs = [render(k, a, api) for k, a, api in designs]
    res = fork_map(task, srcs, batch=64 if len(srcs) > 256 else 8)
    lines, where = [], []
    recs = []
    for i, ((kind, accs, api), src, r) in enumerate(zip(designs, srcs, res)):
        if r[0] != "ok":
            raise InfraError(f"task crashed: {r[1]} {r[2] if len(r) > 2 else ''}")
        r = r[1]
        rec = {"kind": kind, "accs": accs, "api": api, "src": src, "accepted": r["ok"], "errtype": r.get("errtype"), "err": r.get("err"),
               "spec": spec_must_reject(kind, accs), "problems": [], "counts": None, "ir": r.get("ir")}
        lines.append(abstract(kind, accs, api))
        where.append((i, "src"))
        if r["ok"]:
            rec["vhdl"] = r["vhdl"]
            try:
                c = certificate(r["vhdl"])
            except vhdl_parse.VhdlSyntaxError as e:
                raise InfraError(f"emitted text does not parse ({e}) for\n{src}")
            rec["problems"], rec["counts"] = c["problems"], c["counts"]
            if r["ir"].startswith("ERR"):
                raise InfraError(f"IR export failed: {r['ir']}")
            lines.append(r["ir"])
            where.append((i, "ir"))
        recs.append(rec)
    answers = lean_io.query("C07", lines)
    for (i, what), a in zip(where, answers):
        if a == "bad-op":
            raise InfraError(f"model driver rejected the request of design {designs[i]}")
        fixed, unfixed, drv, _ = a.split(" ")
        if what == "src":
            recs[i]["model"] = fixed == "ok"
            recs[i]["model_unfixed"] = unfixed == "ok"
        else:
            recs[i]["model_ir"] = fixed == "ok"
            recs[i]["model_counts"] = sorted(int(x) for x in drv.split(",") if x not in ("-", "0")) if drv != "-" else []
    return recs


def violations_of(rec):
    """[(problem-class, text)] - failures of the PROPERTY on this design"""
    out = []
    if rec["accepted"] and rec["spec"]:
        out.append(("accepted-conflict", f"accepted although the property demands rejection: {rec['spec']}"))
    for cls, name, text in rec["problems"]:
        out.append((cls, text))
    return out


def sig_of(cls, kind, accs, api=DEFAULT_API):
    # parts matter for the outputs of one instance (overlap decides), not for the other placements
    return f"c07:{cls}:{kind}:" + "+".join((f"MO[{part}]" if pl == "MO" else f"{pl}/{rw}") for pl, part, rw in accs) + \
        ("" if api == DEFAULT_API else "@" + api)


def shrink(rec, cls):
    """smallest sub-placement (fewest accesses, then as many contexts as possible declared through std) that still
    shows a violation of class cls"""
    cur = rec
    progress = True
    while progress:
        progress = False
        cands = []
        if len(cur["accs"]) > 1:
            cands += [(cur["kind"], cur["accs"][:i] + cur["accs"][i + 1:], cur["api"]) for i in range(len(cur["accs"]))]
        cands += [(cur["kind"], cur["accs"], cur["api"][:i] + "s" + cur["api"][i + 1:]) for i in range(3) if cur["api"][i] != "s"]
        # contexts that do not occur any more are always written as std
        cands = [(k, a, "".join(ch if c in contexts_of(a) else "s" for c, ch in zip("ABC", api))) for k, a, api in cands]
        cands = [c for c in cands if c != (cur["kind"], cur["accs"], cur["api"])]
        for r in (evaluate(cands) if cands else []):
            if any(c == cls for c, _ in violations_of(r)):
                cur, progress = r, True
                break
    return cur


def run(ctx: Ctx):
    rng = ctx.rng
    ctx.rule = ("designs = one object under test (Signal / in / out / inout port / Variable / Temporary / Signal[Array]) with "
                "<= 3 accesses, each = placement (2 sequential bodies, concurrent, always blocks, always-expression, nested "
                "helpers, instance output / input, inline instances) x part (whole, 2 disjoint slices, bit | array elements) "
                "x read / write form (<<= | @=, .next | .value, ^=, .push) x declaration of each context (std.sequential / "
                "std.concurrent, core cohdl.sequential_context / concurrent_context without / with reset_pushed()); core set "
                "(all singles, writer pairs under every API variant, pairs on 1-4 part combinations, one instance with 2-3 "
                "outputs on whole / disjoint / overlapping / identical parts of one root in every keyword order, alone and with "
                "another writer; inline-VHDL writers (statement / expression) with every other writer) always, then "
                "quick: random pairs+triples over all forms and APIs / thorough: all pairs and all triples in canonical forms; "
                "non-trivial = >= 2 accesses with >= 1 write; distinct = distinct (kind, placement multiset, API variant)")
    designs = core_designs(ctx.quick) + multi_output_designs(ctx.quick) + inline_designs(ctx.quick)
    if ctx.quick:
        designs += [random_design(rng, 2) for _ in range(200)] + [random_design(rng, 3) for _ in range(200)]
    else:
        designs += list(all_pairs()) + list(all_triples())
    seen, uniq = set(), []
    for d in designs:
        d = (d[0], canon(d[1]), d[2])
        if d not in seen:
            seen.add(d)
            uniq.append(d)
    designs = uniq
    ctx.exhaustive = not ctx.quick
    n_acc = n_rej = n_over = n_mirror = n_mirror_ir = n_counts = 0
    minimal, n_shrunk = {}, collections.Counter()  # at most 6 minimal replays per problem class
    mirror_examples = []
    chunk = 4000
    for lo in range(0, len(designs), chunk):
        recs = evaluate(designs[lo:lo + chunk])
        for rec in recs:
            kind, accs, api = rec["kind"], rec["accs"], rec["api"]
            nontrivial = len(accs) >= 2 and any(is_write(rw) for _, _, rw in accs)
            ctx.case(key=(kind, accs, api), nontrivial=nontrivial,
                     kind=f"{kind}:{len(accs)}:" + ("accepted" if rec["accepted"] else "rejected"),
                     sample={"kind": kind, "accesses": [list(a) for a in accs], "api": api, "accepted": rec["accepted"],
                             "spec_demands_rejection": rec["spec"]})
            if rec["accepted"]:
                n_acc += 1
            else:
                n_rej += 1
                ctx.dist["reject:" + rec["errtype"]] += 1
                if not rec["spec"]:
                    n_over += 1
            viol = violations_of(rec)
            for cls, text in viol:
                ctx.dist["violation:" + cls] += 1
                have = collections.Counter((pl, rw) for pl, _, rw in accs)
                if any(not (m - have) for m in minimal.get((cls, kind), [])) or n_shrunk[cls] >= 6:
                    continue  # contains an already reported minimal placement of the same class
                n_shrunk[cls] += 1
                small = shrink(rec, cls)
                stext = [t for c, t in violations_of(small) if c == cls][0]
                minimal.setdefault((cls, kind), []).append(collections.Counter((pl, rw) for pl, _, rw in small["accs"]))
                va = small.get("vhdl", "")
                ctx.report(sig_of(cls, small["kind"], small["accs"], small["api"]), stext,
                           {"kind": small["kind"], "accesses": [list(a) for a in small["accs"]], "api": small["api"], "source": small["src"],
                            "expected": "rejected at compile time, or one driver per signal and variables local to their process",
                            "observed": stext, "problem_class": cls,
                            "architecture": va[va.find("architecture arch_W"):][:3000]})
            if rec["model"] != rec["accepted"]:
                n_mirror += 1
                if not viol and len(mirror_examples) < 5:
                    mirror_examples.append(("placement", rec))
            if rec["accepted"]:
                if not rec["model_ir"]:
                    n_mirror_ir += 1
                    if not viol and len(mirror_examples) < 5:
                        mirror_examples.append(("ir", rec))
                if rec["model_counts"] != rec["counts"]:
                    n_counts += 1
                    if len(mirror_examples) < 5:
                        mirror_examples.append(("drivers", rec))
    n_viol_designs = sum(v for k, v in ctx.dist.items() if k.startswith("violation:"))
    ctx.obligation("spec: no accepted design has a conflict that the property says must be rejected; certificate on the emitted text "
                   "of every accepted design: <= 1 driver per signal, process variables stay in their process, no input port driven",
                   n_viol_designs == 0, kind="certificate", detail=f"{n_acc} accepted, {n_rej} rejected, {n_viol_designs} failures")
    unexplained = [m for m in mirror_examples]
    ctx.obligation("mirror: real accept/reject = Lean `accept` (front-end rules + checkUsage) on the placement abstraction",
                   n_mirror == 0, detail=f"{n_mirror} differences")
    ctx.obligation("mirror on real IR: Lean `accept` = ok on the abstract design exported from the IR of every accepted design",
                   n_mirror_ir == 0, detail=f"{n_mirror_ir} differences")
    ctx.obligation("emit model: `drivers (emit d)` on the real IR = driver counts read from the emitted text",
                   n_counts == 0, detail=f"{n_counts} differences")
    for what, rec in unexplained[:3]:
        ctx.report(sig_of(f"model-{what}", rec["kind"], rec["accs"], rec["api"]),
                   f"the Lean model no longer describes the compiler ({what}): real accepted={rec['accepted']}, model(placement)={rec['model']}, "
                   f"model(IR)={rec.get('model_ir')}, drivers text={rec['counts']} model={rec.get('model_counts')}; no design violating the property was found for it",
                   {"theorem": "correspondence C07.checkUsage / C07.emit vs compiler", "kind": rec["kind"], "accesses": [list(a) for a in rec["accs"]],
                    "source": rec["src"], "ir_abstraction": rec.get("ir"), "placement_abstraction": abstract(rec["kind"], rec["accs"]),
                    "reject_reason": rec.get("err")},
                   no_failing_input=True)
    ctx.extra["over_rejected"] = n_over
    ctx.notes.append(f"{n_over} designs are rejected although the property does not demand it (conservative over-rejection, not a violation)")
    if n_acc < len(designs) // 20:
        raise InfraError(f"generator validity too low: {n_acc}/{len(designs)} accepted")


def replay(ctx, data):
    r = data["replay"]
    if "accesses" in r and "kind" in r:
        rec = evaluate([(r["kind"], tuple(tuple(a) for a in r["accesses"]), r.get("api", DEFAULT_API))])[0]
    else:
        raise InfraError("replay file without a design")
    print("accepted:", rec["accepted"], "| spec demands rejection:", rec["spec"], "| model:", rec["model"])
    for cls, text in violations_of(rec):
        print("  ", cls, "-", text)
    return 1 if violations_of(rec) else 0
