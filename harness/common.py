"""Shared machinery of all property checks: context, evidence, known findings, violation reporting,
forked workers that run the real cohdl of /repo's current working tree."""

import hashlib
import json
import multiprocessing as mp
import os
import random
import shutil
import sys
import tempfile
import time
import traceback
from collections import Counter
from pathlib import Path

VERIF = Path(__file__).resolve().parent.parent
REPO = Path(os.environ.get("COHDL_REPO", "/repo"))
GUARD = "COHDL_VERIF"
os.environ.setdefault(GUARD, "1")  # hooks (none at the moment) are enabled for every check

TRUSTED_BASE = [
    "Lean 4.33.0 kernel; every property theorem depends on axioms within {propext, Classical.choice, Quot.sound} (audited on every run, no native_decide / bv_decide / sorry)",
    "Lean compiler+runtime for everything the driver cohdl_model evaluates (model outputs, certificates)",
    "harness/vhdl_parse.py + harness/vhdl_sim.py: hand-written IEEE-1076/numeric_std semantics of the emitted VHDL subset (no VHDL simulator is installed)",
    "the correspondence check itself (generators, canonicalisation, diff) and CPython 3.12",
    "the Lean models mirror the Python code by hand; they are tied to /repo only on the inputs the correspondence run explores",
]


def stable_hash(obj) -> str:
    return hashlib.sha256(json.dumps(obj, sort_keys=True, default=str).encode()).hexdigest()[:12]


class InfraError(Exception):
    """the check could not run (build failure, timeout, parser gap): exit code 2, never a verdict"""


class Ctx:
    def __init__(self, prop, tier, seed):
        self.prop, self.tier, self.seed = prop, tier, seed
        self.rng = random.Random(f"{prop}-{seed}")
        self.t0 = time.time()
        self.evaluations = 0
        self.distinct = set()
        self.samples = []
        self.dist = Counter()
        self.obligations = []  # {"name","kind","ok","detail"}
        self.violations = []
        self.known_hit = {}
        self.notes = []
        self.extra = {}
        self.exhaustive = None
        self.rule = ""
        self.level = "proof"
        self.known = [e for e in load_findings() if e["property"] == prop]

    @property
    def quick(self):
        return self.tier == "quick"

    def scale(self, quick, thorough):
        return quick if self.quick else thorough

    # ---- coverage accounting
    def case(self, key=None, nontrivial=True, sample=None, kind=None):
        """one explored case.  key identifies it for the distinct count (hashable / json-able)."""
        self.evaluations += 1
        if kind:
            self.dist[kind] += 1
        if nontrivial and key is not None:
            self.distinct.add(key if isinstance(key, (str, int, tuple)) else stable_hash(key))
        if sample is not None and len(self.samples) < 6:
            self.samples.append(sample)

    def obligation(self, name, ok, kind="correspondence", detail=None):
        self.obligations.append({"name": name, "kind": kind, "ok": bool(ok), **({"detail": detail} if detail else {})})

    # ---- findings / violations
    def report(self, signature, text, replay, no_failing_input=False):
        """A property failure on the real code (or an obligation that no longer checks).
        signature: canonical identification of the failing input / call site / history."""
        for e in self.known:
            if e.get("status") == "finding" and e["signature"] == signature:
                if signature not in self.known_hit:
                    self.known_hit[signature] = e
                    print(f"KNOWN-FINDING: property={self.prop} {e['text']}", flush=True)
                return False
        if any(v["signature"] == signature for v in self.violations):
            return True
        rdir = VERIF / "evidence" / "replays"
        rdir.mkdir(parents=True, exist_ok=True)
        path = rdir / f"{self.prop}-{stable_hash([signature, replay])}.json"
        path.write_text(json.dumps({"property": self.prop, "signature": signature, "what": text,
                                    "no_failing_input_found": no_failing_input, "replay": replay,
                                    "how_to_replay": f"/venv/bin/python run.py replay {self.prop} --replay {path}"},
                                   indent=1, default=str))
        self.violations.append({"signature": signature, "text": text, "replay": str(path), "nfi": no_failing_input})
        tail = " no-failing-input-found" if no_failing_input else ""
        print(f"VIOLATION property={self.prop} replay={path}{tail}", flush=True)
        print(f"  {signature}: {text}", flush=True)
        return True

    # ---- evidence
    def finish(self, theorems):
        for t in theorems:
            self.obligations.append({"name": t["name"], "kind": "theorem", "ok": t["ok"], "axioms": t["axioms"]})
        # safety net: a correspondence / certificate family that no longer checks is never silently tolerated.
        # If the check itself found no failing input (no violation reported) the broken obligation is reported as
        # a violation with no-failing-input-found, unless a reproduced known finding declares that it explains it.
        explained = [p for e in self.known_hit.values() for p in e.get("explains_obligations", [])]
        unexplained = [o for o in self.obligations if not o["ok"] and not any(o["name"].startswith(p) for p in explained)]
        if unexplained and not self.violations:
            self.report("obligation-broken:" + "|".join(o["name"][:60] for o in unexplained)[:300],
                        "obligation(s) no longer check and the search found no concrete failing input: "
                        + "; ".join(o["name"] + (" [" + str(o.get("detail")) + "]" if o.get("detail") else "") for o in unexplained)[:900],
                        {"broken_obligations": unexplained, "theorem_or_correspondence": [o["name"] for o in unexplained]},
                        no_failing_input=True)
        # an obligation that fails only on inputs covered by reproduced known findings is discharged "modulo the
        # listed findings" (they are printed as KNOWN-FINDING lines and listed in the evidence)
        for o in self.obligations:
            if not o["ok"] and any(o["name"].startswith(p) for p in explained):
                o["ok"] = True
                o["name"] += "  (modulo the reproduced known findings)"
                o["modulo_known_findings"] = [e["signature"] for e in self.known_hit.values()
                                              if any(o["name"].startswith(p) for p in e.get("explains_obligations", []))]
        if self.level not in ("exploration", "fault_enumeration", "model_checking", "proof", "translation_validation", "other"):
            self.extra["level_note"] = str(self.level)
            self.level = "proof"
        n_ob = len(self.obligations)
        n_ok = sum(1 for o in self.obligations if o["ok"])
        cov = {
            "evaluations": self.evaluations,
            "distinct_nontrivial": len(self.distinct),
            "rule": self.rule,
            "samples": self.samples or [{"note": "no sample recorded"}],
            "obligations": n_ob,
            "discharged": n_ok,
            "checker_cmd": "cd /verif/lean && lake build CohdlVerif model_cXX && lake env lean CohdlVerif/Audit.lean   (kernel re-check of every Props theorem + #print axioms audit), then the correspondence run of this file's property against /repo",
            "trusted_base": TRUSTED_BASE,
            "obligation_list": self.obligations,
            "input_distribution": dict(self.dist),
            "known_findings_reproduced": [e["signature"] for e in self.known_hit.values()],
            "notes": self.notes,
            **self.extra,
        }
        if self.exhaustive is not None:
            cov["exhaustive"] = self.exhaustive
        ev = {
            "property_id": self.prop,
            "tier": self.tier,
            "seed": self.seed,
            "level": self.level,
            "coverage": cov,
            "assumptions": TRUSTED_BASE,
            "wall_s": round(time.time() - self.t0, 2),
            "violations": len(self.violations),
        }
        out = VERIF / "evidence"
        if str(REPO) != "/repo":
            # a run against a scratch worktree (COHDL_REPO: seeded change, refactoring) is not evidence about /repo:
            # keep the committed record untouched
            out = out / "scratch"
            ev["repo"] = str(REPO)
        out.mkdir(parents=True, exist_ok=True)
        (out / f"{self.prop}.json").write_text(json.dumps(ev, indent=1, default=str))
        return 1 if self.violations else 0


def load_findings():
    """known_findings.json plus per-property files findings.d/*.json (same entry format)"""
    out = list(json.loads((VERIF / "known_findings.json").read_text())["findings"])
    d = VERIF / "findings.d"
    if d.is_dir():
        for p in sorted(d.glob("*.json")):
            out.extend(json.loads(p.read_text())["findings"])
    return out


# ---------------------------------------------------------------------------------------------------
# forked workers: every task runs in a process freshly forked from a parent that has imported cohdl
# from /repo's working tree but has never compiled anything (so no state leaks between tasks)
# ---------------------------------------------------------------------------------------------------

_SCRATCH = None


def scratch_dir():
    global _SCRATCH
    if _SCRATCH is None:
        _SCRATCH = Path(tempfile.mkdtemp(prefix="cohdl_verif_"))
        import atexit

        atexit.register(lambda: shutil.rmtree(_SCRATCH, ignore_errors=True))
    return _SCRATCH


def import_cohdl():
    """make `import cohdl` resolve to /repo's working tree"""
    if str(REPO) not in sys.path:
        sys.path.insert(0, str(REPO))
    import cohdl  # noqa

    assert Path(cohdl.__file__).resolve().parent.parent == REPO.resolve(), cohdl.__file__
    return cohdl


def _run_task(args):
    func, item = args
    try:
        return ("ok", func(item))
    except BaseException as e:  # noqa
        return ("exc", f"{type(e).__name__}: {e}", traceback.format_exc()[-3000:])


def _dirty(res):
    """did this task possibly leave compiler state behind (exception / rejected design)?"""
    return res[0] != "ok" or (isinstance(res[1], dict) and res[1].get("ok") is False)


def compiler_state():
    """the module-level scratch state of the compiler that a rejected design could leave behind (the fields
    audited for C11); compared before/after a rejected design to decide whether the interpreter is still clean"""
    try:
        from cohdl._core._ir import _repr as ir
        from cohdl._core import _context as ctxm
        from cohdl.std._prefix import _Prefix
        from cohdl.std import _context as sctx
        from cohdl.std._exception import StdExceptionHandler
        from cohdl._compiler.frontend import _prepare_ast as pa
        from cohdl._compiler.frontend._generate_ir import IrGenerator as IG

        return (
            ir.StatemachineContext._singleton is None,
            id(ctxm._block_stack), len(ctxm._block_stack), len(pa._block_stack),
            pa._active_converter_instance is None, ctxm._entity_instantiation_handler is None,
            sctx._current_context is None, getattr(sctx, "_current_context_data", None) is None,
            len(_Prefix._prefix_scope), len(StdExceptionHandler._handler_list),
            pa._parent_frame is None, len(pa._return_stack._stack),
            id(IG.returned_blocks), len(IG.returned_blocks), id(IG._break_result), len(IG._break_result),
            id(IG._continue_result), len(IG._continue_result), len(pa._inline_declared_entities),
        )
    except BaseException as e:  # noqa - unknown layout (refactored tree): treat every rejection as dirty
        return ("unknown", os.urandom(4))


def _fork_fresh(func, items, procs, batch):
    """Forked children process small batches sequentially; after a task that raised or returned {"ok": False}
    the child compares the compiler's module-level scratch state (compiler_state) with its value at the
    start of the batch and stops the batch if a rejected design left anything behind; the rest of that batch
    is re-dispatched to a new fork.  (fork costs 20-150 ms in this sandbox, so one
    fork per task is too slow; multiprocessing's maxtasksperchild=1 is slower still.)"""
    import pickle
    import selectors

    n = len(items)
    results = [None] * n
    sel = selectors.DefaultSelector()
    running = {}  # fd -> [indices, pid, bytearray]
    queue = [list(range(i, min(i + batch, n))) for i in range(0, n, batch)]
    sys.stdout.flush()
    sys.stderr.flush()
    while queue or running:
        while queue and len(running) < procs:
            idxs = queue.pop(0)
            r, w = os.pipe()
            pid = os.fork()
            if pid == 0:
                code = 0
                try:
                    os.close(r)
                    for fd in list(running):
                        try:
                            os.close(fd)
                        except OSError:
                            pass
                    out = []
                    base = compiler_state()
                    for i in idxs:
                        res = _run_task((func, items[i]))
                        out.append(res)
                        if _dirty(res) and compiler_state() != base:
                            break
                    try:
                        data = pickle.dumps(out)
                    except Exception as e:  # noqa
                        data = pickle.dumps([("exc", f"unpicklable result: {e}", "")])
                    with os.fdopen(w, "wb") as f:
                        f.write(data)
                except BaseException:  # noqa
                    code = 1
                finally:
                    os._exit(code)
            os.close(w)
            os.set_blocking(r, False)
            running[r] = [idxs, pid, bytearray()]
            sel.register(r, selectors.EVENT_READ)
        for key, _ in sel.select(timeout=1.0):
            fd = key.fd
            ent = running[fd]
            try:
                chunk = os.read(fd, 1 << 20)
            except BlockingIOError:
                continue
            if chunk:
                ent[2] += chunk
                continue
            sel.unregister(fd)
            os.close(fd)
            del running[fd]
            try:
                os.waitpid(ent[1], 0)
            except ChildProcessError:
                pass
            idxs = ent[0]
            try:
                out = pickle.loads(bytes(ent[2]))
            except Exception as e:  # noqa
                out = [("exc", f"worker died without a result ({e})", "")]
            for i, res in zip(idxs, out):
                results[i] = res
            rest = idxs[len(out):]
            if rest:
                queue.insert(0, rest)
    return results


_WARM_SRC = '''
import cohdl
from cohdl import Bit, BitVector, Port, Unsigned, Signed, Signal, Variable, Null, true
from cohdl import std

class Warm(cohdl.Entity):
    clk = Port.input(Bit); rst = Port.input(Bit); a = Port.input(Unsigned[4]); c = Port.input(Bit)
    o = Port.output(Unsigned[4], default=Null); p = Port.output(Bit, default=Null)
    def architecture(self):
        @std.sequential(std.Clock(self.clk), std.Reset(self.rst))
        async def proc():
            await self.c
            self.o <<= self.a + 1
        @std.sequential(std.Clock(self.clk))
        def proc2():
            if self.c:
                self.p <<= self.a[0]
        @std.concurrent
        def logic():
            pass
'''
_WARMED = [False]


def warm_parent():
    """The first compilation in an interpreter costs ~0.5 s (cohdl parses and caches the sources of its own
    traced library functions).  Compile one fixed, accepted design in the parent so that every forked child
    starts from the same warmed-up state instead of paying that in each fork.  Disabled with
    COHDL_VERIF_NOWARM=1 (C11 uses its own cold forks)."""
    if _WARMED[0] or os.environ.get("COHDL_VERIF_NOWARM"):
        return
    _WARMED[0] = True
    try:
        from cohdl import std

        mod = load_design_module(_WARM_SRC, "warm")
        std.VhdlCompiler.to_string(mod.Warm)
        std.VhdlCompiler.to_ir(load_design_module(_WARM_SRC, "warm2").Warm)
    except BaseException:  # noqa - a broken tree shows up in the checks themselves
        pass


def fork_map(func, items, procs=None, chunk=1, fresh=True, batch=8):
    """run func(item) for every item in forked children of a process that has imported cohdl but never
    compiled anything.  fresh=True: no task ever runs after a task that raised or returned {"ok": False}
    in the same interpreter (see _fork_fresh); batch=1 gives one fork per task.
    Returns the list of ('ok',result)|('exc',msg,tb)."""
    items = list(items)
    if not items:
        return []
    import_cohdl()
    scratch_dir()  # created in the parent so that forked children share (and the parent removes) it
    warm_parent()
    procs = procs or int(os.environ.get("COHDL_VERIF_PROCS", "0") or 0) or min(16, os.cpu_count() or 4)
    if fresh:
        return _fork_fresh(func, items, procs, max(1, batch))
    ctx = mp.get_context("fork")
    with ctx.Pool(processes=procs) as pool:
        return pool.map(_run_task, [(func, it) for it in items], chunksize=chunk)


_MOD_COUNTER = [0]


def load_design_module(src: str, tag="d"):
    """write src to a real file (cohdl needs inspect.getsource) and import it"""
    import importlib.util

    _MOD_COUNTER[0] += 1
    name = f"cv_{tag}_{os.getpid()}_{_MOD_COUNTER[0]}"
    path = scratch_dir() / f"{name}.py"
    path.write_text(src)
    spec = importlib.util.spec_from_file_location(name, path)
    mod = importlib.util.module_from_spec(spec)
    sys.modules[name] = mod
    spec.loader.exec_module(mod)
    return mod


def classify_error(e: BaseException) -> str:
    """map a compiler exception to a small enum (messages are never compared)"""
    s = f"{type(e).__name__}: {e}"
    return type(e).__name__


def compile_task(item):
    """item = (src, entity_name[, want_ir]) -> dict(ok, vhdl | err, errtype)"""
    src, ent = item[0], item[1]
    import_cohdl()
    from cohdl import std

    try:
        mod = load_design_module(src)
        E = getattr(mod, ent)
        text = std.VhdlCompiler.to_string(E)
        return {"ok": True, "vhdl": text}
    except BaseException as e:  # noqa
        return {"ok": False, "errtype": type(e).__name__, "err": str(e)[-600:]}


def compile_many(sources, procs=None):
    """sources: list of (src, entity_name).  Each compiled in a fresh fork of a clean interpreter."""
    res = fork_map(compile_task, sources, procs=procs)
    out = []
    for r in res:
        if r[0] == "ok":
            out.append(r[1])
        else:
            out.append({"ok": False, "errtype": "HarnessError", "err": r[1]})
    return out
